"""C11 translator T5 — `parcor` and `parcor_stable` of audiolazy/lazy_lpc.py -> lean/ALV/Gen/C11Src.lean.

The two functions are read with `ast` (the repo is not imported), statement by statement, and emitted as Lean
definitions of the SAME shape as the hand-written model (`ALV/Model/C11.lean`, `C11Float.lean`): every operator of
the library on a ZFilter / number becomes one function of the vocabulary `ALV/Model/C11Src.lean` (the trusted
part: what `f(1 / z)`, `f * z ** e`, `k * f`, `f - g`, `f / c`, `f - c`, `f + 1`, `f.numpoly[i]`,
`len(f.numerator)`, `ZFilter(poly)` do to the coefficients).  `Props/C11.lean` proves `src_pstep_is_model`,
`src_ploop_is_model`, `src_parcor_is_model`, `src_parcor_stable_is_model`, `src_parcor_guard_is_call` (...): the
regenerated definitions ARE the model functions of the theorems, on every carrier.

Python subset accepted (anything else in the two functions is a TranslationError = broken obligation):

  parcor(P)          one positional parameter, no decorator; docstring dropped; then, in this order,
      X = P.denominator
      if len(X) <cmp> <int>: raise ValueError(...)                 (cmp: == != < <= > >=)
      P = ZFilter(P.numpoly)
      g = P.numpoly[<int>]            (any number of scalar bindings)
      if <a> ==|!= <b>: P /= g        (or unconditional `P /= g`, `P = P / g`)
      for m in xrange(len(P.numerator) [- <int>], 0, -1):
          straight-line assignments of numbers / filters, exactly one `yield <number variable>` and, after it,
          exactly one
              try: P = <filter> / <number>
              except ZeroDivisionError: raise ParCorError(...)
          followed by straight-line assignments.
      numbers : variables, the literals 0 and 1, + - *, unary -, `x ** 2`, `F.numpoly[<int expr in m>]`
      filters : variables, `F(1 / z)`, `F * z ** <int expr>`, `<number> * F`, `F - G`, `F - <number>`, `F + 1`
  parcor_stable(Q)   try: return all(<cmp of numbers, abs()> for k in parcor(ZFilter(Q.denpoly|Q.numpoly)))
                     except ParCorError: return False|True

Normalised away (no alarm): whitespace, comments, docstrings, messages of the exceptions, names of local variables
(renamed v0, v1, ... in the order of their first binding), `range` for `xrange`, `a != b` written as the swapped
`a == b` test, the position of `yield` among the statements that cannot raise.
"""
import ast
import os
import subprocess

import common

GEN_REL = os.path.join("ALV", "Gen", "C11Src.lean")
SRC_REL = os.path.join("audiolazy", "lazy_lpc.py")
FUNCTIONS = ["parcor", "parcor_stable"]
NOT_TRANSLATED = {
    "levinson_durbin": "nested closure `inner` over a double generator expression with the builtin `sum`, a `while` "
                       "loop over growing Python lists of ZFilter objects (A, B, beta, gamma) and an attribute "
                       "assignment (`A.error`): outside the subset; hand-written model ALV.C11.levinson / levinsonG, "
                       "tied bit for bit in the float regime",
    "ZFilter.__init__ / __add__ / __mul__ / __truediv__ / __call__, Poly arithmetic (lazy_filters.py, lazy_poly.py)":
        "the VOCABULARY of the translator (ALV/Model/C11Src.lean) - hand-written, validated by the tie",
    "call expression / argument binding (ALV/Model/C11Apply.lean, C11Call.lean)":
        "Python's binding of a one-parameter function and the constructor's shift: not in the two functions",
    "histories (ALV/Model/C11Hist.lean)": "object semantics of the caller's edits, not code of the library",
}


class TranslationError(Exception):
    pass


def fail(node, msg):
    raise TranslationError("%s (lazy_lpc.py line %s)" % (msg, getattr(node, "lineno", "?")))


# ---------------------------------------------------------------------------------------------
# small helpers on the ast
# ---------------------------------------------------------------------------------------------
def is_name(node, name=None):
    return isinstance(node, ast.Name) and (name is None or node.id == name)


def int_const(node):
    """the value of an int literal (not bool), with an optional unary minus; None otherwise"""
    if isinstance(node, ast.Constant) and type(node.value) is int:
        return node.value
    if isinstance(node, ast.UnaryOp) and isinstance(node.op, ast.USub):
        v = int_const(node.operand)
        return None if v is None else -v
    return None


def strip_doc(body):
    if body and isinstance(body[0], ast.Expr) and isinstance(body[0].value, ast.Constant) and \
            isinstance(body[0].value.value, str):
        return body[1:]
    return body


def paren(s):
    """parenthesise a Lean term used as an argument, unless it is an atom or already one bracket"""
    if " " not in s:
        return s
    if s[0] == "(" and s[-1] == ")":
        depth = 0
        for i, ch in enumerate(s):
            depth += ch == "("
            depth -= ch == ")"
            if depth == 0 and i < len(s) - 1:
                break
        else:
            return s
    return "(" + s + ")"


def one_param(fn):
    a = fn.args
    if fn.decorator_list:
        fail(fn, "%s: decorators are outside the subset" % fn.name)
    if len(a.args) != 1 or a.vararg or a.kwarg or a.kwonlyargs or a.defaults or getattr(a, "posonlyargs", []):
        fail(fn, "%s: expected exactly one plain positional parameter" % fn.name)
    return a.args[0].arg


class Env(object):
    """Python local name -> (kind, Lean name); Lean names v0, v1, ... in the order of the first binding"""

    def __init__(self):
        self.vars = {}
        self.count = 0

    def bind(self, name, kind, node=None):
        if name in ("z", "ZFilter", "xrange", "range", "len", "abs", "all", "parcor", "ParCorError",
                    "ZeroDivisionError", "ValueError"):
            fail(node, "the global name %r is rebound locally" % name)
        if name in self.vars:
            lean = self.vars[name][1]
        else:
            lean = "v%d" % self.count
            self.count += 1
        self.vars[name] = (kind, lean)
        return lean

    def kind(self, name):
        return self.vars[name][0] if name in self.vars else None

    def lean(self, name):
        return self.vars[name][1]


# ---------------------------------------------------------------------------------------------
# expressions inside the loop (windows over the constant denominator `d`)
# ---------------------------------------------------------------------------------------------
class LoopExpr(object):
    def __init__(self, env, order=False):
        self.env = env
        self.order = order          # abs() / order comparisons allowed (parcor_stable only)

    def kind(self, node):
        if isinstance(node, ast.Name):
            k = self.env.kind(node.id)
            if k is None:
                fail(node, "unknown name %r" % node.id)
            return k
        if isinstance(node, ast.Constant):
            return "num"
        if isinstance(node, ast.Subscript):
            return "num"
        if isinstance(node, ast.UnaryOp):
            return self.kind(node.operand)
        if isinstance(node, ast.Call):
            if is_name(node.func) and self.env.kind(node.func.id) == "win":
                return "win"
            if is_name(node.func, "abs"):
                return "num"
            fail(node, "unsupported call")
        if isinstance(node, ast.BinOp):
            if self.zpow(node) is not None:
                return "zpow"
            kl, kr = self.kind(node.left), self.kind(node.right)
            return "win" if "win" in (kl, kr) else "zpow" if "zpow" in (kl, kr) else kl if kl == kr else \
                fail(node, "operands of kinds %s and %s" % (kl, kr))
        fail(node, "unsupported expression %s" % type(node).__name__)

    def zpow(self, node):
        """`z ** e` -> the Lean Int expression e; None when the node is not of that form"""
        if isinstance(node, ast.BinOp) and isinstance(node.op, ast.Pow) and is_name(node.left, "z") and \
                self.env.kind("z") is None:
            return self.cint(node.right)
        return None

    def cint(self, node):
        v = int_const(node)
        if v is not None:
            return str(v) if v >= 0 else "(%d)" % v
        if isinstance(node, ast.Name):
            if self.env.kind(node.id) != "idx":
                fail(node, "%r is not the loop counter" % node.id)
            return "(%s : Int)" % self.env.lean(node.id)
        if isinstance(node, ast.UnaryOp) and isinstance(node.op, ast.USub):
            return "(-%s)" % self.cint(node.operand)
        if isinstance(node, ast.BinOp) and isinstance(node.op, (ast.Add, ast.Sub)):
            return "(%s %s %s)" % (self.cint(node.left), "+" if isinstance(node.op, ast.Add) else "-",
                                   self.cint(node.right))
        fail(node, "unsupported index expression %s" % type(node).__name__)

    def cnum(self, node):
        if isinstance(node, ast.Name):
            if self.env.kind(node.id) != "num":
                fail(node, "%r is not a number here" % node.id)
            return self.env.lean(node.id)
        if isinstance(node, ast.Constant):
            if type(node.value) is int and node.value in (0, 1):
                return str(node.value)
            fail(node, "numeric literal %r: the vocabulary has the literals 0 and 1 only" % (node.value,))
        if isinstance(node, ast.Subscript):
            v = node.value
            if isinstance(v, ast.Attribute) and v.attr == "numpoly" and is_name(v.value) and \
                    self.env.kind(v.value.id) == "win":
                return "wCoef n %s %s" % (self.env.lean(v.value.id), self.cint(node.slice))
            fail(node, "unsupported subscript (only <filter>.numpoly[<index>])")
        if isinstance(node, ast.UnaryOp) and isinstance(node.op, ast.USub):
            return "(-%s)" % paren(self.cnum(node.operand))
        if isinstance(node, ast.Call) and is_name(node.func, "abs") and len(node.args) == 1 and not node.keywords:
            if not self.order:
                fail(node, "abs() outside parcor_stable")
            return "pyAbs %s" % paren(self.cnum(node.args[0]))
        if isinstance(node, ast.BinOp):
            if isinstance(node.op, ast.Pow):
                if int_const(node.right) == 2 and isinstance(node.right, ast.Constant):
                    return "pow2 %s" % paren(self.cnum(node.left))
                fail(node, "power other than `** 2`")
            ops = {ast.Add: "+", ast.Sub: "-", ast.Mult: "*"}
            if type(node.op) in ops:
                return "(%s %s %s)" % (paren(self.cnum(node.left)), ops[type(node.op)], paren(self.cnum(node.right)))
            fail(node, "operator %s between numbers (a division may raise: outside the subset)" % type(node.op).__name__)
        fail(node, "unsupported numeric expression %s" % type(node).__name__)

    def cwin(self, node):
        if isinstance(node, ast.Name):
            if self.env.kind(node.id) != "win":
                fail(node, "%r is not a filter here" % node.id)
            return self.env.lean(node.id)
        if isinstance(node, ast.Call):
            if is_name(node.func) and self.env.kind(node.func.id) == "win" and len(node.args) == 1 and not node.keywords:
                a = node.args[0]
                if isinstance(a, ast.BinOp) and isinstance(a.op, ast.Div) and int_const(a.left) == 1 and \
                        isinstance(a.left, ast.Constant) and is_name(a.right, "z") and self.env.kind("z") is None:
                    return "wSubstInv n %s" % self.env.lean(node.func.id)
                fail(node, "substitution other than <filter>(1 / z)")
            fail(node, "unsupported call")
        if isinstance(node, ast.BinOp):
            kl, kr = self.kind(node.left), self.kind(node.right)
            if isinstance(node.op, ast.Mult):
                if kl == "win" and kr == "zpow":
                    e = self.zpow(node.right)
                    if e is None:
                        fail(node, "unsupported power of z")
                    return "wMulZPow n %s %s" % (paren(self.cwin(node.left)), e)
                if kl == "num" and kr == "win":
                    return "wScale n %s %s" % (paren(self.cnum(node.left)), paren(self.cwin(node.right)))
                fail(node, "product of kinds %s * %s is outside the vocabulary" % (kl, kr))
            if isinstance(node.op, ast.Sub) and kl == "win":
                if kr == "win":
                    return "wSub n %s %s" % (paren(self.cwin(node.left)), paren(self.cwin(node.right)))
                if kr == "num":
                    return "wSubNum n d %s %s" % (paren(self.cwin(node.left)), paren(self.cnum(node.right)))
            if isinstance(node.op, ast.Add) and kl == "win" and kr == "num":
                if isinstance(node.right, ast.Constant) and type(node.right.value) is int and node.right.value == 1:
                    return "wAddOne n d %s" % paren(self.cwin(node.left))
                fail(node, "<filter> + <number>: the vocabulary has `+ 1` only")
            if isinstance(node.op, ast.Div):
                fail(node, "a division of a filter outside `try: P = <filter> / <number>`")
            fail(node, "operator %s on kinds %s, %s is outside the vocabulary" % (type(node.op).__name__, kl, kr))
        fail(node, "unsupported filter expression %s" % type(node).__name__)

    def cpartial(self, node):
        """`<filter> / <number>` -> Option"""
        if isinstance(node, ast.BinOp) and isinstance(node.op, ast.Div) and self.kind(node.left) == "win" and \
                self.kind(node.right) == "num":
            return "wDivNum n %s %s" % (paren(self.cwin(node.left)), paren(self.cnum(node.right)))
        fail(node, "the guarded statement is not `<filter> / <number>`")

    def cbool(self, node):
        if not (isinstance(node, ast.Compare) and len(node.ops) == 1):
            fail(node, "unsupported test")
        a, b = self.cnum(node.left), self.cnum(node.comparators[0])
        op = node.ops[0]
        if isinstance(op, ast.Lt):
            return "decide (%s < %s)" % (a, b)
        if isinstance(op, ast.Gt):
            return "decide (%s < %s)" % (b, a)
        if isinstance(op, ast.LtE):
            return "!decide (%s < %s)" % (b, a)
        if isinstance(op, ast.GtE):
            return "!decide (%s < %s)" % (a, b)
        if isinstance(op, ast.Eq):
            return "decide (%s = %s)" % (a, b)
        if isinstance(op, ast.NotEq):
            return "!decide (%s = %s)" % (a, b)
        fail(node, "unsupported comparison")


def ite(test_op, a, b, then, other, node):
    """`if a <op> b then THEN else OTHER` with `!=` written as the swapped equality test"""
    if isinstance(test_op, ast.NotEq):
        return "if %s = %s then %s else %s" % (a, b, other, then)
    if isinstance(test_op, ast.Eq):
        return "if %s = %s then %s else %s" % (a, b, then, other)
    fail(node, "only == and != between numbers before the loop")


NAT_CMP = {ast.Eq: ("=", False), ast.NotEq: ("=", True), ast.Lt: ("<", False), ast.GtE: ("<", True),
           ast.LtE: ("≤", False), ast.Gt: ("≤", True)}


# ---------------------------------------------------------------------------------------------
# parcor
# ---------------------------------------------------------------------------------------------
def translate_parcor(fn):
    P = one_param(fn)
    env = Env()
    env.bind(P, "arg", fn)
    body = strip_doc(fn.body)
    if not body or not isinstance(body[-1], ast.For):
        fail(fn, "parcor: the last statement is not the for loop")
    pre, loop = body[:-1], body[-1]
    guard_lets, guard, init, phase = [], None, [], 0
    for st in pre:
        # X = P.denominator
        if isinstance(st, ast.Assign) and len(st.targets) == 1 and is_name(st.targets[0]) and \
                isinstance(st.value, ast.Attribute) and st.value.attr == "denominator" and \
                is_name(st.value.value, P) and env.kind(P) == "arg" and phase == 0 and st.targets[0].id != P:
            guard_lets.append("let %s := lOfPoly den" % env.bind(st.targets[0].id, "dlist", st))
            continue
        # if len(X) <cmp> c: raise ValueError(...)
        if isinstance(st, ast.If) and phase == 0 and guard is None and not st.orelse and len(st.body) == 1 and \
                isinstance(st.body[0], ast.Raise) and isinstance(st.test, ast.Compare) and len(st.test.ops) == 1:
            exc = st.body[0].exc
            if not (isinstance(exc, ast.Call) and is_name(exc.func, "ValueError")) and not is_name(exc, "ValueError"):
                fail(st, "the test before the loop raises something else than ValueError")
            lhs, c = st.test.left, int_const(st.test.comparators[0])
            if not (isinstance(lhs, ast.Call) and is_name(lhs.func, "len") and len(lhs.args) == 1 and
                    is_name(lhs.args[0]) and env.kind(lhs.args[0].id) == "dlist" and c is not None and c >= 0):
                fail(st, "unsupported test before the loop")
            rel, neg = NAT_CMP[type(st.test.ops[0])]
            t, e = ("false", "true") if neg else ("true", "false")
            guard = "if lLen %s %s %d then %s else %s" % (env.lean(lhs.args[0].id), rel, c, t, e)
            continue
        # P = ZFilter(P.numpoly)
        if isinstance(st, ast.Assign) and len(st.targets) == 1 and is_name(st.targets[0], P) and phase == 0 and \
                isinstance(st.value, ast.Call) and is_name(st.value.func, "ZFilter") and len(st.value.args) == 1 and \
                not st.value.keywords and isinstance(st.value.args[0], ast.Attribute) and \
                st.value.args[0].attr == "numpoly" and is_name(st.value.args[0].value, P):
            init.append("let %s := lOfPoly num" % env.bind(P, "flist", st))
            phase = 1
            continue
        if phase == 1:
            ex = ListExpr(env)
            # g = <number>
            if isinstance(st, ast.Assign) and len(st.targets) == 1 and is_name(st.targets[0]) and \
                    st.targets[0].id != P and ex.is_num(st.value):
                val = ex.cnum(st.value)
                init.append("let %s := %s" % (env.bind(st.targets[0].id, "num", st), val))
                continue
            # [if a ==|!= b:] P /= g   |   P = P / g
            inner, cond = st, None
            if isinstance(st, ast.If) and not st.orelse and len(st.body) == 1 and isinstance(st.test, ast.Compare) and \
                    len(st.test.ops) == 1:
                inner, cond = st.body[0], st.test
            new = None
            if isinstance(inner, ast.AugAssign) and is_name(inner.target, P) and isinstance(inner.op, ast.Div):
                new = "lDivNum %s %s" % (env.lean(P), paren(ex.cnum(inner.value)))
            elif isinstance(inner, ast.Assign) and len(inner.targets) == 1 and is_name(inner.targets[0], P) and \
                    isinstance(inner.value, ast.BinOp) and isinstance(inner.value.op, ast.Div) and \
                    is_name(inner.value.left, P):
                new = "lDivNum %s %s" % (env.lean(P), paren(ex.cnum(inner.value.right)))
            if new is not None:
                if cond is not None:
                    new = ite(cond.ops[0], ex.cnum(cond.left), ex.cnum(cond.comparators[0]), new, env.lean(P), st)
                init.append("let %s := %s" % (env.lean(P), new))
                continue
        fail(st, "parcor: statement before the loop is outside the subset (or out of order)")
    if phase != 1:
        fail(fn, "parcor: no `%s = ZFilter(%s.numpoly)` before the loop" % (P, P))
    if guard is None:
        fail(fn, "parcor: no `if len(den) ...: raise ValueError` before the loop")
    # --- the for statement ---------------------------------------------------------------------
    if loop.orelse or not is_name(loop.target):
        fail(loop, "parcor: unsupported for statement")
    it = loop.iter
    if not (isinstance(it, ast.Call) and (is_name(it.func, "xrange") or is_name(it.func, "range")) and
            len(it.args) == 3 and not it.keywords and int_const(it.args[1]) == 0 and int_const(it.args[2]) == -1):
        fail(loop, "parcor: the loop is not a count-down `xrange(<start>, 0, -1)`")
    start = it.args[0]
    sub = 0
    if isinstance(start, ast.BinOp) and isinstance(start.op, ast.Sub) and int_const(start.right) is not None and \
            int_const(start.right) >= 0:
        start, sub = start.left, int_const(start.right)
    if not (isinstance(start, ast.Call) and is_name(start.func, "len") and len(start.args) == 1 and
            isinstance(start.args[0], ast.Attribute) and start.args[0].attr == "numerator" and
            is_name(start.args[0].value, P)):
        fail(loop, "parcor: the first value of the counter is not `len(%s.numerator) [- <int>]`" % P)
    start_lean = "lLen %s" % env.lean(P) + (" - %d" % sub if sub else "")
    # --- the loop body --------------------------------------------------------------------------
    pl = env.lean(P)
    env.bind(P, "win", loop)
    mname = loop.target.id
    env.bind(mname, "idx", loop)
    env.vars[mname] = ("idx", "m")
    env.count -= 1                       # the counter is the template's `m`, not a numbered variable
    ex = LoopExpr(env)
    before, after, yielded, partial = [], [], None, None
    for st in loop.body:
        cur = before if partial is None else after
        if isinstance(st, ast.Expr) and isinstance(st.value, ast.Yield):
            if yielded is not None or partial is not None or not is_name(st.value.value) or \
                    env.kind(st.value.value.id) != "num":
                fail(st, "parcor: exactly one `yield <number variable>`, before the guarded division")
            yielded = st.value.value.id
            continue
        if isinstance(st, ast.Try):
            if partial is not None or yielded is None:
                fail(st, "parcor: one try statement, after the yield")
            h = st.handlers
            if st.orelse or st.finalbody or len(h) != 1 or not is_name(h[0].type, "ZeroDivisionError") or h[0].name or \
                    len(h[0].body) != 1 or not isinstance(h[0].body[0], ast.Raise):
                fail(st, "parcor: the try statement is not `except ZeroDivisionError: raise ParCorError(...)`")
            exc = h[0].body[0].exc
            if not (isinstance(exc, ast.Call) and is_name(exc.func, "ParCorError")) and not is_name(exc, "ParCorError"):
                fail(st, "parcor: the handler raises something else than ParCorError")
            if len(st.body) != 1 or not (isinstance(st.body[0], ast.Assign) and len(st.body[0].targets) == 1 and
                                         is_name(st.body[0].targets[0], P)):
                fail(st, "parcor: the guarded statement is not one assignment to %r" % P)
            partial = ex.cpartial(st.body[0].value)
            continue
        if isinstance(st, ast.Assign) and len(st.targets) == 1 and is_name(st.targets[0]):
            tgt = st.targets[0].id
            if tgt == yielded or tgt == mname:
                fail(st, "parcor: the yielded variable / the counter is rebound")
            k = ex.kind(st.value)
            if k == "num":
                val = ex.cnum(st.value)
                cur.append("let %s := %s" % (env.bind(tgt, "num", st), val))
            elif k == "win":
                val = ex.cwin(st.value)
                cur.append("let %s := %s" % (env.bind(tgt, "win", st), val))
            else:
                fail(st, "parcor: unsupported right-hand side")
            continue
        fail(st, "parcor: statement %s in the loop is outside the subset" % type(st).__name__)
    if partial is None or yielded is None:
        fail(loop, "parcor: the loop has no yield / no guarded division")
    yk = env.lean(yielded)
    return {"guard_lets": guard_lets, "guard": guard, "init": init, "P": pl, "start": start_lean,
            "before": before, "after": after, "partial": partial, "yield": yk}


class ListExpr(object):
    """numbers before the loop (the filter is its list of numerator coefficients, denominator 1)"""

    def __init__(self, env):
        self.env = env

    def is_num(self, node):
        try:
            self.cnum(node)
            return True
        except TranslationError:
            return False

    def cnum(self, node):
        if isinstance(node, ast.Name):
            if self.env.kind(node.id) != "num":
                fail(node, "%r is not a number here" % node.id)
            return self.env.lean(node.id)
        if isinstance(node, ast.Constant) and type(node.value) is int and node.value in (0, 1):
            return str(node.value)
        if isinstance(node, ast.Subscript):
            v, i = node.value, int_const(node.slice)
            if isinstance(v, ast.Attribute) and v.attr == "numpoly" and is_name(v.value) and \
                    self.env.kind(v.value.id) == "flist" and i is not None and i >= 0:
                return "lCoef %s %d" % (self.env.lean(v.value.id), i)
        fail(node, "unsupported number before the loop")


# ---------------------------------------------------------------------------------------------
# parcor_stable
# ---------------------------------------------------------------------------------------------
def translate_stable(fn):
    Q = one_param(fn)
    env = Env()
    env.bind(Q, "arg", fn)
    body = strip_doc(fn.body)
    if len(body) != 1 or not isinstance(body[0], ast.Try):
        fail(fn, "parcor_stable: the body is not one try statement")
    t = body[0]
    h = t.handlers
    if t.orelse or t.finalbody or len(h) != 1 or not is_name(h[0].type, "ParCorError") or h[0].name or \
            len(h[0].body) != 1 or not isinstance(h[0].body[0], ast.Return) or \
            not isinstance(h[0].body[0].value, ast.Constant) or type(h[0].body[0].value.value) is not bool:
        fail(t, "parcor_stable: the handler is not `except ParCorError: return <bool>`")
    caught = "true" if h[0].body[0].value.value else "false"
    if len(t.body) != 1 or not isinstance(t.body[0], ast.Return):
        fail(t, "parcor_stable: the guarded statement is not a return")
    call = t.body[0].value
    if not (isinstance(call, ast.Call) and is_name(call.func, "all") and len(call.args) == 1 and not call.keywords and
            isinstance(call.args[0], ast.GeneratorExp) and len(call.args[0].generators) == 1):
        fail(t, "parcor_stable: not `all(<test> for <k> in ...)`")
    gen = call.args[0]
    comp = gen.generators[0]
    if comp.ifs or comp.is_async or not is_name(comp.target):
        fail(t, "parcor_stable: unsupported generator expression")
    it = comp.iter
    if not (isinstance(it, ast.Call) and is_name(it.func, "parcor") and len(it.args) == 1 and not it.keywords):
        fail(t, "parcor_stable: the iterable is not parcor(...)")
    a = it.args[0]
    if not (isinstance(a, ast.Call) and is_name(a.func, "ZFilter") and len(a.args) == 1 and not a.keywords and
            isinstance(a.args[0], ast.Attribute) and a.args[0].attr in ("denpoly", "numpoly") and
            is_name(a.args[0].value, Q)):
        fail(t, "parcor_stable: the argument of parcor is not ZFilter(%s.denpoly)" % Q)
    arg = "den" if a.args[0].attr == "denpoly" else "num"
    k = env.bind(comp.target.id, "num", t)
    test = LoopExpr(env, order=True).cbool(gen.elt)
    return {"caught": caught, "arg": arg, "k": k, "test": test}


# ---------------------------------------------------------------------------------------------
# the module
# ---------------------------------------------------------------------------------------------
def check_globals(tree):
    """the global names the two functions use mean what the vocabulary assumes"""
    imported, defs, classes = {}, {}, {}
    future_division = False
    for st in tree.body:
        if isinstance(st, ast.ImportFrom):
            if st.module == "__future__" and any(a.name == "division" for a in st.names):
                future_division = True
            for a in st.names:
                imported[a.asname or a.name] = (st.module, a.name, st.level)
        elif isinstance(st, ast.Import):
            for a in st.names:
                imported[(a.asname or a.name).split(".")[0]] = (a.name, None, 0)
        elif isinstance(st, ast.FunctionDef):
            defs.setdefault(st.name, []).append(st)
        elif isinstance(st, ast.ClassDef):
            classes.setdefault(st.name, []).append(st)
        elif isinstance(st, (ast.Assign, ast.AugAssign, ast.AnnAssign)):
            for tg in (st.targets if isinstance(st, ast.Assign) else [st.target]):
                for nm in ast.walk(tg):
                    if isinstance(nm, ast.Name) and nm.id in ("z", "ZFilter", "xrange", "len", "abs", "all", "parcor",
                                                             "parcor_stable", "ParCorError"):
                        fail(st, "module level assignment to %r" % nm.id)
    if not future_division:
        fail(tree.body[0] if tree.body else None, "no `from __future__ import division`: `/` must be the true division")
    for name in ("ZFilter", "z"):
        if imported.get(name) != ("lazy_filters", name, 1):
            fail(None, "%r is not imported from .lazy_filters" % name)
    if imported.get("xrange") != ("lazy_compat", "xrange", 1):
        fail(None, "xrange is not imported from .lazy_compat")
    for name in ("len", "abs", "all", "ValueError", "ZeroDivisionError"):
        if name in imported or name in defs or name in classes:
            fail(None, "the builtin %r is shadowed at module level" % name)
    pe = classes.get("ParCorError", [])
    if len(pe) != 1 or [b.id for b in pe[0].bases if isinstance(b, ast.Name)] != ["ZeroDivisionError"]:
        fail(None, "ParCorError is not one class derived from ZeroDivisionError")
    out = {}
    for name in FUNCTIONS:
        if len(defs.get(name, [])) != 1 or name in imported or name in classes:
            fail(None, "expected exactly one module level `def %s`" % name)
        out[name] = defs[name][0]
    return out


HEADER = """/-
  GENERATED by harness/props/c11_tr.py from audiolazy/lazy_lpc.py (functions parcor, parcor_stable)
  — do not edit.  Rewritten by `./check C11` before every build; committed so that the tree builds.
  Each Python operator is one function of the vocabulary ALV/Model/C11Src.lean; local variables are
  renamed v0, v1, … in the order of their first binding; `pow2 x` is Python's `x ** 2`.
-/
import ALV.Model.C11Src
set_option linter.unusedVariables false
namespace ALV.Gen.C11
open ALV.C11 ALV.C11.Src
variable {α : Type} [Add α] [Mul α] [Sub α] [Neg α] [Div α] [OfNat α 0] [OfNat α 1]
  [DecidableEq α]
"""


def lets(lines, indent):
    return "".join(" " * indent + l + "\n" for l in lines)


def translate(text):
    try:
        tree = ast.parse(text)
    except SyntaxError as e:
        raise TranslationError("lazy_lpc.py does not parse: %s" % e)
    fns = check_globals(tree)
    p = translate_parcor(fns["parcor"])
    s = translate_stable(fns["parcor_stable"])
    P = p["P"]
    out = [HEADER]
    out.append("""
/-- parcor, the test before the loop: `true` = `raise ValueError` -/
def parcorGuard (den : List α) : Bool :=
%s  %s
""" % (lets(p["guard_lets"], 2), p["guard"]))
    out.append("""
/-- parcor, the statements before the loop on the numerator coefficients -/
def parcorInit (num : List α) : List α :=
%s  %s
""" % (lets(p["init"], 2), P))
    out.append("""
/-- parcor, first value of the loop counter (counts down to 1) -/
def parcorStart (%s : List α) : Nat := %s
""" % (P, p["start"]))
    out.append("""
/-- parcor, one pass of the loop body for counter `m`: the yielded number and the next filter
    (`none` = ZeroDivisionError caught, ParCorError raised) -/
def pstep (pow2 : α → α) (n : Nat) (d : α) (%s : List α) (m : Nat) : α × Option (List α) :=
%s  match %s with
  | none => (%s, none)
  | some %s =>
%s    (%s, some %s)
""" % (P, lets(p["before"], 2), p["partial"], p["yield"], P, lets(p["after"], 4), p["yield"], P))
    out.append("""
/-- parcor, the generator: (yields, ParCorError raised) -/
def ploop (pow2 : α → α) (n : Nat) (d : α) : Nat → List α → List α × Bool
  | 0, _ => ([], false)
  | m + 1, w =>
    match pstep pow2 n d w (m + 1) with
    | (k, none) => ([k], true)
    | (k, some w') => let r := ploop pow2 n d m w'; (k :: r.1, r.2)

/-- `list(parcor(ZFilter(num, [c])))` -/
def parcor (pow2 : α → α) (num : List α) : List α × Bool :=
  let %s := parcorInit num
  let n := parcorStart %s
  ploop pow2 n 1 n (wOfList n %s)

/-- the same behind the test: `none` = ValueError -/
def parcorE (pow2 : α → α) (den num : List α) : Option (List α × Bool) :=
  if parcorGuard den then none else some (parcor pow2 num)
""" % (P, P, P))
    out.append("""
section Order
variable [LT α] [DecidableLT α]

/-- parcor_stable, the test of one yielded number -/
def stableTest (%s : α) : Bool := %s

/-- parcor_stable, `all(… for … in parcor(…))` under `try … except ParCorError` -/
def stableLoop (pow2 : α → α) (n : Nat) (d : α) : Nat → List α → Bool
  | 0, _ => true
  | m + 1, w =>
    match pstep pow2 n d w (m + 1) with
    | (k, next) =>
      if stableTest k then
        match next with
        | none => %s
        | some w' => stableLoop pow2 n d m w'
      else false

/-- `parcor_stable(ZFilter(num, den))` -/
def parcorStable (pow2 : α → α) (num den : List α) : Bool :=
  let %s := parcorInit %s
  let n := parcorStart %s
  stableLoop pow2 n 1 n (wOfList n %s)

end Order
""" % (s["k"], s["test"], s["caught"], P, s["arg"], P, P))
    out.append("""
/-- source facts recorded by the translator -/
def translated : List (String × String) :=
  [("parcor", "audiolazy/lazy_lpc.py"), ("parcor_stable", "audiolazy/lazy_lpc.py")]

end ALV.Gen.C11
""")
    return "".join(out)


def read_source():
    with open(os.path.join(common.REPO, SRC_REL)) as f:
        return f.read()


def committed_text():
    good = subprocess.run(["git", "-C", common.VERIF, "show", "HEAD:lean/" + GEN_REL.replace(os.sep, "/")],
                          capture_output=True, text=True, timeout=30)
    return good.stdout if good.returncode == 0 and good.stdout else None


def regenerate(eng=None):
    """Rewrite lean/ALV/Gen/C11Src.lean from the repo under test.  On a translation failure the last COMMITTED
    translation is put back (the build then speaks about the last state that could be translated) and the error
    propagates (= broken obligation)."""
    path = os.path.join(common.LEAN, GEN_REL)
    if eng is not None:
        eng.extra["translated"] = {
            "translator": "harness/props/c11_tr.py -> lean/ALV/Gen/C11Src.lean (shallow, vocabulary ALV/Model/C11Src.lean)",
            "under_translator": {
                "lazy_lpc.parcor": "Gen.C11.parcorGuard / parcorInit / parcorStart / pstep / ploop / parcor / parcorE = "
                                   "pstepG / ploopG / parcorFixedG (src_pstep_is_model, src_ploop_is_model, "
                                   "src_parcor_is_model, src_parcor_is_exact_model, src_parcor_f64, "
                                   "src_parcor_guard_is_call)",
                "lazy_lpc.parcor_stable": "Gen.C11.stableTest / stableLoop / parcorStable = stableLoopG / "
                                          "parcorStableFixedG (src_parcor_stable_is_model, "
                                          "src_parcor_stable_is_exact_model, src_parcor_stable_f64)",
            },
            "not_under_translator": NOT_TRANSLATED,
        }
    try:
        text = translate(read_source())
    except Exception:
        try:
            good = committed_text()
            if good and (not os.path.exists(path) or open(path).read() != good):
                with open(path, "w") as f:
                    f.write(good)
        except Exception:
            pass
        raise
    old = open(path).read() if os.path.exists(path) else None
    if old != text:
        os.makedirs(os.path.dirname(path), exist_ok=True)
        with open(path, "w") as f:
            f.write(text)
        return "rewritten (%d bytes)" % len(text)
    return "unchanged (%d bytes)" % len(text)


# ---------------------------------------------------------------------------------------------
# self-test: edited copies of the source text must change the translation
# ---------------------------------------------------------------------------------------------
EDITS = [
    ("coefficient read from the wrong end", "k = fir_filt.numpoly[m]", "k = fir_filt.numpoly[0]"),
    ("missing square", "/ (1 - k ** 2)", "/ (1 - k)"),
    ("product for the power", "/ (1 - k ** 2)", "/ (1 - k * k)"),
    ("advance for the delay", "zB = fir_filt(1 / z) * z ** -m", "zB = fir_filt(1 / z) * z ** m"),
    ("sum for the difference", "(fir_filt - k * zB)", "(fir_filt + k * zB)"),
    ("fix-up dropped", "  fir_filt = (fir_filt - fir_filt.numpoly[0]) + 1 # Avoid rounding errors\n", ""),
    ("yield after the update", "    yield k\n    zB = fir_filt(1 / z) * z ** -m\n", "    zB = fir_filt(1 / z) * z ** -m\n",
     "    fir_filt = (fir_filt - fir_filt.numpoly[0]) + 1 # Avoid rounding errors\n",
     "    fir_filt = (fir_filt - fir_filt.numpoly[0]) + 1 # Avoid rounding errors\n    yield k\n"),
    ("yield dropped", "    yield k\n    zB =", "    zB ="),
    ("normalisation test inverted", "if gain != 1:", "if gain == 1:"),
    ("loop runs down to 0", "xrange(len(fir_filt.numerator) - 1, 0, -1)", "xrange(len(fir_filt.numerator) - 1, -1, -1)"),
    ("one pass less", "xrange(len(fir_filt.numerator) - 1, 0, -1)", "xrange(len(fir_filt.numerator) - 2, 0, -1)"),
    ("<= in the stability test", "all(abs(k) < 1 for k", "all(abs(k) <= 1 for k"),
    ("abs dropped", "all(abs(k) < 1 for k", "all(k < 1 for k"),
    ("numerator tested", "parcor(ZFilter(filt.denpoly))", "parcor(ZFilter(filt.numpoly))"),
    ("critical filters called stable", "  except ParCorError:\n    return False", "  except ParCorError:\n    return True"),
    ("feedback test loosened", "if len(den) != 1:", "if len(den) > 2:"),
    ("fix-up before the update",
     "    try:\n      fir_filt = (fir_filt - k * zB) / (1 - k ** 2)\n",
     "    fir_filt = (fir_filt - fir_filt.numpoly[0]) + 1\n    try:\n      fir_filt = (fir_filt - k * zB) / (1 - k ** 2)\n",
     "    fir_filt = (fir_filt - fir_filt.numpoly[0]) + 1 # Avoid rounding errors\n", ""),
    ("reversal after the guarded update",
     "    zB = fir_filt(1 / z) * z ** -m\n    try:\n      fir_filt = (fir_filt - k * zB) / (1 - k ** 2)\n",
     "    try:\n      fir_filt = (fir_filt - k * fir_filt(1 / z) * z ** -m) / (1 - k ** 2)\n"),
]
HARMLESS = [
    ("comment and blank lines", "    yield k\n", "    yield k   # the reflection coefficient\n\n"),
    ("local variable renamed", "zB", "reversed_filter"),
    ("range for xrange in the loop", "in xrange(len(fir_filt.numerator)", "in range(len(fir_filt.numerator)"),
    ("message of the exception", "\"Filter has feedback\"", "\"Feedback!\""),
]


def selftest(text=None, committed=None):
    """-> list of (name, ok, detail)"""
    out = []
    text = read_source() if text is None else text
    try:
        base = translate(text)
    except TranslationError as e:
        return [("translator-selftest", False, "the source does not translate: %s" % e)]
    if committed is None:
        path = os.path.join(common.LEAN, GEN_REL)
        committed = committed_text() or (open(path).read() if os.path.exists(path) else "")
    same = base == committed
    bad, kinds = [], {"different text": 0, "TranslationError": 0}
    applicable = 0
    for ed in EDITS:
        name, pairs = ed[0], list(zip(ed[1::2], ed[2::2]))
        if any(text.count(old) < 1 for old, _ in pairs):
            continue                     # the source has moved on: this edit no longer applies
        applicable += 1
        edited = text
        for old, new in pairs:
            edited = edited.replace(old, new, 1)
        try:
            t = translate(edited)
            if t == base:
                bad.append(name)
            else:
                kinds["different text"] += 1
        except TranslationError:
            kinds["TranslationError"] += 1
    harmless_alarm = []
    for name, old, new in HARMLESS:
        if text.count(old) < 1:
            continue
        edited = text.replace(old, new)
        try:
            if translate(edited) != base:
                harmless_alarm.append(name)
        except TranslationError as e:
            harmless_alarm.append("%s (%s)" % (name, e))
    ok = not bad and not harmless_alarm and applicable >= 6 and (same or common.REPO != "/repo")
    detail = ("%d edited copies of lazy_lpc.py: %d give a different Gen text, %d a TranslationError, unchanged "
              "translation for %r; %d harmless rewrites (comment, renamed local, range, message) normalised away, alarms "
              "%r; translation of the unchanged source %s the committed lean/%s"
              % (applicable, kinds["different text"], kinds["TranslationError"], bad, len(HARMLESS) - len(harmless_alarm),
                 harmless_alarm, "is byte for byte" if same else "DIFFERS from", GEN_REL))
    out.append(("translator-selftest", ok, detail))
    return out
