"""
C13 translator (T-C13): the 16 thub-based design strategy bodies -> lean/ALV/Gen/C13Src.lean

Reads `audiolazy/lazy_filters.py` and `audiolazy/lazy_auditory.py` under `common.REPO` with `ast` (no import of the
repo) and emits, for each strategy body, a Lean definition in the vocabulary of `ALV/Model/C13Thub.lean`: a function
from the hub-identifier base `b` and the (possibly Stream-valued) arguments to the stream program `SSec` (`SE`
expression programs for every coefficient; `gammatone.klapuri`: the list of the four calls).  `Lemmas/C13Src.lean`
proves `ALV.Gen.C13.<f> = <hand transcription of Model/C13Thub.lean>` for each of them, so every theorem about the
transcribed programs (`thub_reads_are_constant_designs`, `thub_programs_wellformed`, ...) and - through
`progOf_at` - the scalar design formulas of `Model/C13.lean` speak about what the source says NOW.

Python subset accepted in a strategy body (anything else: TranslationError = broken obligation, never a skip):

  * an optional docstring; decorators `<dict>.strategy("key", aliases...)` (first) and `format_docstring(...)`
  * positional parameters (defaults are recorded, the body sees the parameter)
  * `name = <expr>` statements in sequence, a final `return <expr>`
  * the statement idiom of lowpass.z / highpass.z ("a cosine that is zero counts as one", for Streams and numbers):
        if isinstance(<name>, Iterable): T = (el if el else 1 for el in <X>)
        else: T = <X>;  if not T: T = 1
  * expressions: names, the literals 0 1 2 0.5 and other non-negative ints, `pi`, `e`, unary minus, `+ - * /`,
    `x ** 2`, `x ** y`, `cos sin sqrt exp` of one argument, `thub(x, <int literal>)`, `z ** -<int literal>`,
    `z ** -<integer parameter>` (comb's delay), and for gammatone.klapuri a list of `<dict>.<strategy>` references,
    `list * <int literal>`, `CascadeFilter(f(args) for f in <list>)`

Semantics assumed (the TRUSTED part; the differential tie of entry `thub` runs the same programs against /repo):

  * statements run in order, operands are evaluated left to right, arguments in order
  * `thub(x, n)` makes ONE new hub (identifier = base + number of hubs made before in this call); every later USE of
    the variable bound to it takes the next copy (0, 1, ...) - the declared `n` is copied from the source, the uses
    are counted, `wfDesign` (proved for the model) is what demands that they agree
  * a variable bound to anything else is the expression itself: used twice, its iterator objects are read twice
  * `<scalar> * z ** -k`, sums and differences of such terms and `1` build a polynomial in `z ** -1`
    (dense coefficient list, index = delay; `x * 1 = x`, `0 - x = -x`, `x * -1 = -x` folded as the model does);
    a Stream-valued scalar times a polynomial of k > 1 terms takes a hub of k copies (`Poly.__mul__`);
    `p / q` is the filter with numerator p and denominator q; a bare polynomial is a filter with denominator `1`
  * `1 +- v * z ** -delay` with the integer PARAMETER delay is `onePlusDelayedS delay (+-v)` of the model
  * a call `reson(freq, bw2)` number i of a cascade gets the hub base 10 * (i + 1)
"""
import ast
import os
import warnings
import common

GEN_REL = os.path.join("ALV", "Gen", "C13Src.lean")
FILES = {"lazy_filters": os.path.join("audiolazy", "lazy_filters.py"),
         "lazy_auditory": os.path.join("audiolazy", "lazy_auditory.py")}


class TranslationError(Exception):
    pass


# (file, StrategyDict, strategy key, Lean name, parameter kinds, the Kind pattern and call of Gen.progOf)
TARGETS = [
    ("lazy_filters", "lowpass", "pole", "lowpass_pole", ("se",), ".lowpass .pole", None),
    ("lazy_filters", "lowpass", "z", "lowpass_z", ("se",), ".lowpass .z", None),
    ("lazy_filters", "lowpass", "pole_exp", "lowpass_pole_exp", ("se",), ".lowpass .poleExp", None),
    ("lazy_filters", "lowpass", "z_exp", "lowpass_z_exp", ("se",), ".lowpass .zExp", None),
    ("lazy_filters", "highpass", "pole", "highpass_pole", ("se",), ".highpass .pole", None),
    ("lazy_filters", "highpass", "z", "highpass_z", ("se",), ".highpass .z", None),
    ("lazy_filters", "highpass", "pole_exp", "highpass_pole_exp", ("se",), ".highpass .poleExp", None),
    ("lazy_filters", "highpass", "z_exp", "highpass_z_exp", ("se",), ".highpass .zExp", None),
    ("lazy_filters", "resonator", "poles_exp", "resonator_poles_exp", ("se", "se"), ".resonator .polesExp", None),
    ("lazy_filters", "resonator", "freq_poles_exp", "resonator_freq_poles_exp", ("se", "se"), ".resonator .freqPolesExp", None),
    ("lazy_filters", "resonator", "z_exp", "resonator_z_exp", ("se", "se"), ".resonator .zExp", None),
    ("lazy_filters", "resonator", "freq_z_exp", "resonator_freq_z_exp", ("se", "se"), ".resonator .freqZExp", None),
    ("lazy_filters", "comb", "fb", "comb_fb", ("nat", "se"), ".combFb d", "d"),
    ("lazy_filters", "comb", "tau", "comb_tau", ("nat", "se"), ".combTau d", "d"),
    ("lazy_filters", "comb", "ff", "comb_ff", ("nat", "se"), ".combFf d", "d"),
    ("lazy_auditory", "gammatone", "klapuri", "gammatone_klapuri", ("se", "se"), ".klapuri", None),
]
NOT_TRANSLATED = [
    ("ZFilter.diff (the loop `for unused in xrange(n): ...` of lazy_filters.py that gammatone.sampled calls)",
     "loop over ZFilter / Poly objects: hand model diffStep / diffNum of ALV/Model/C13.lean (the translated body of "
     "gammatone.sampled calls it as `diffNum num den (eta - 1)`) + differential tie + the closed-form theorems; the measured gain "
     "abs(f.freq_response(freq)) likewise is the hand model `normalise` / `gainAt`"),
    ("gammatone.slaney", "list comprehensions over +-1 signs, CascadeFilter of quotients divided by abs(f.freq_response(freq)): "
                         "outside the subset; hand model + differential tie"),
    ("@elementwise of erb (a container / Stream of frequencies)", "decorator of another module: the translator checks that it "
                                                                   "is @elementwise(<first parameter>, 0); its meaning "
                                                                   "(erbCallList / erbCallLazy of ALV/Model/C13Call.lean) "
                                                                   "is a hand model + differential tie"),
    ("StrategyDict dispatch, aliases, defaults", "object identity facts of the running StrategyDicts, checked by the extra "
                                                 "checks strategies:* / default:* / alias:* on the imported module"),
    ("ZFilter / Poly / Stream operator plumbing, thub / StreamTeeHub", "classes of other slices (C04-C06, C01-C03); the "
                                                                        "translator ASSUMES their algebra (docstring of "
                                                                        "harness/props/c13_tr.py), the entry `thub` tests it"),
]

FUN1 = {"cos": ".cos", "sin": ".sin", "sqrt": ".sqrt", "exp": ".exp"}
OP2 = {ast.Add: ".add", ast.Sub: ".sub", ast.Mult: ".mul", ast.Div: ".div"}


# ------------------------------------------------------------------------------------------------
# values of the symbolic evaluation
# ------------------------------------------------------------------------------------------------
class Sc:
    """a (possibly Stream-valued) scalar: Lean text of type SE; `lit` = a python number literal"""
    def __init__(self, text, lit=False):
        self.text, self.lit = text, lit


class Hub:
    """thub(src, n) bound to a variable; every use takes the next copy"""
    def __init__(self, idx, n, src):
        self.idx, self.n, self.src, self.used = idx, n, src, 0


class NatPar:
    def __init__(self, name):
        self.name = name


class Poly:
    """terms: power -> (sign, text or None [= the number 1])"""
    def __init__(self, terms):
        self.terms = terms


class SymTerm:
    """sign * v * z ** -delay for the integer parameter `delay` (v None = 1)"""
    def __init__(self, delay, sign, v):
        self.delay, self.sign, self.v = delay, sign, v


class SymPoly:
    """1 + v * z ** -delay"""
    def __init__(self, delay, v):
        self.delay, self.v = delay, v


class Filt:
    def __init__(self, num, den):
        self.num, self.den = num, den


class StratRef:
    def __init__(self, lean):
        self.lean = lean


class PyList:
    def __init__(self, items):
        self.items = items


class Cascade:
    def __init__(self, calls):
        self.calls = calls


def P(t):
    """parenthesise a Lean term that is an application"""
    return "(" + t + ")" if " " in t else t


def neg(t):
    return ".op1 .neg " + P(t)


def term_text(sign, t):
    t = ".k .one" if t is None else t
    return t if sign > 0 else neg(t)


class Body:
    """symbolic run of one strategy body"""

    def __init__(self, where, base, known):
        self.where = where
        self.base = base                  # Lean text of the hub base: "b" or None (= 0)
        self.known = known                # (dict, key) -> (lean name, kinds) of the strategies translated before
        self.env = {}
        self.hubs = []                    # Hub objects in creation order

    def fail(self, node, msg):
        raise TranslationError("%s line %s: %s: %s" % (self.where, getattr(node, "lineno", "?"), msg,
                                                       ast.unparse(node)[:120] if isinstance(node, ast.AST) else node))

    # ---- hubs ---------------------------------------------------------------------------------
    def hub_id(self, idx):
        if self.base is None:
            return str(idx)
        return self.base if idx == 0 else "(%s + %d)" % (self.base, idx)

    def new_hub(self, n, src):
        h = Hub(len(self.hubs), n, src)
        self.hubs.append(h)
        return h

    def use(self, v, node):
        """a value is consumed by an operation"""
        if isinstance(v, Hub):
            c = v.used
            v.used += 1
            return Sc("h%d %d" % (v.idx, c))
        if isinstance(v, NatPar):
            return Sc(".k (.nat %s)" % v.name)
        return v

    def scalar(self, v, node):
        v = self.use(v, node)
        if not isinstance(v, Sc):
            self.fail(node, "a scalar / Stream expression is needed here")
        return v

    # ---- expressions --------------------------------------------------------------------------
    def ev(self, n):
        """value of an expression, NOT yet consumed (a Hub stays a Hub so that `x = thub(...)` binds it)"""
        if isinstance(n, ast.Name):
            if n.id in self.env:
                return self.env[n.id]
            if n.id == "pi":
                return Sc(".k .pi")
            if n.id == "e":
                return Sc(".k .e")
            self.fail(n, "unknown name")
        if isinstance(n, ast.Constant):
            v = n.value
            if isinstance(v, bool) or not isinstance(v, (int, float)):
                self.fail(n, "unsupported literal")
            if v == 0.5:
                return Sc(".k .half", True)
            if isinstance(v, float) and v != int(v):
                self.fail(n, "unsupported float literal (vocabulary: 0, 1, 2, 0.5, non-negative integers)")
            v = int(v)
            if v < 0:
                self.fail(n, "negative literal")
            return Sc({0: ".k .zero", 1: ".k .one", 2: ".k .two"}.get(v, ".k (.nat %d)" % v), True)
        if isinstance(n, ast.UnaryOp) and isinstance(n.op, ast.USub):
            a = self.scalar(self.ev(n.operand), n.operand)
            return Sc(neg(a.text))
        if isinstance(n, ast.BinOp):
            return self.binop(n)
        if isinstance(n, ast.Call):
            return self.call(n)
        if isinstance(n, ast.Attribute) and isinstance(n.value, ast.Name) and (n.value.id, n.attr) in self.known:
            if n.value.id in self.env:
                self.fail(n, "the StrategyDict name is shadowed by a local variable")
            return StratRef(self.known[(n.value.id, n.attr)])
        if isinstance(n, ast.List):
            return PyList([self.ev(x) for x in n.elts])
        self.fail(n, "expression outside the translated subset")

    def zpow(self, n):
        """`z ** -k` / `z ** -delay` -> Poly / SymTerm, else None"""
        if not (isinstance(n, ast.BinOp) and isinstance(n.op, ast.Pow) and isinstance(n.left, ast.Name)
                and n.left.id == "z" and "z" not in self.env):
            return None
        e = n.right
        if not (isinstance(e, ast.UnaryOp) and isinstance(e.op, ast.USub)):
            self.fail(n, "only negative powers of z (`z ** -k`) are in the vocabulary")
        e = e.operand
        if isinstance(e, ast.Constant) and isinstance(e.value, int) and not isinstance(e.value, bool) and e.value >= 0:
            return Poly({e.value: (1, None)})
        if isinstance(e, ast.Name) and isinstance(self.env.get(e.id), NatPar):
            return SymTerm(self.env[e.id].name, 1, None)
        self.fail(n, "the power of z must be an integer literal or the integer parameter")

    def binop(self, n):
        zp = self.zpow(n)
        if zp is not None:
            return zp
        if isinstance(n.op, ast.Pow):
            a = self.scalar(self.ev(n.left), n.left)
            if isinstance(n.right, ast.Constant) and n.right.value == 2 and isinstance(n.right.value, int):
                return Sc(".op1 .sq " + P(a.text))
            b = self.scalar(self.ev(n.right), n.right)
            return Sc(".op2 .pow %s %s" % (P(a.text), P(b.text)))
        if type(n.op) not in OP2:
            self.fail(n, "operator outside the vocabulary (+ - * / **)")
        a = self.use(self.ev(n.left), n.left)          # left operand first
        b = self.use(self.ev(n.right), n.right)
        if isinstance(a, Sc) and isinstance(b, Sc):
            return Sc(".op2 %s %s %s" % (OP2[type(n.op)], P(a.text), P(b.text)))
        if isinstance(n.op, ast.Mult):
            return self.mul(a, b, n)
        if isinstance(n.op, (ast.Add, ast.Sub)):
            return self.addsub(a, b, 1 if isinstance(n.op, ast.Add) else -1, n)
        return self.div(a, b, n)

    def mul(self, a, b, n):
        if isinstance(a, PyList) and isinstance(b, Sc):
            r = n.right
            if isinstance(r, ast.Constant) and isinstance(r.value, int) and not isinstance(r.value, bool) and r.value >= 0:
                return PyList(a.items * r.value)
            self.fail(n, "a list is repeated by an integer literal only")
        if isinstance(a, Sc) and isinstance(b, (Poly, SymTerm)):
            s, p, left = a, b, True
        elif isinstance(b, Sc) and isinstance(a, (Poly, SymTerm)):
            s, p, left = b, a, False
        else:
            self.fail(n, "product outside the vocabulary (scalar * scalar, scalar * polynomial in z)")

        def prod(t):
            if t is None:
                return s.text
            return ".op2 .mul %s %s" % ((P(s.text), P(t)) if left else (P(t), P(s.text)))
        if isinstance(p, SymTerm):
            return SymTerm(p.delay, p.sign, prod(p.v))
        if len(p.terms) == 1:
            (k, (sg, t)), = p.terms.items()
            return Poly({k: (sg, prod(t))})
        # Poly.__mul__ by a Stream: a hub with one copy per term
        if s.lit:
            self.fail(n, "a number literal times a polynomial of several terms is not in the vocabulary")
        if any(t is not None for _, t in p.terms.values()):
            self.fail(n, "a scalar times a polynomial whose coefficients are not +-1 is not in the vocabulary")
        h = self.new_hub(len(p.terms), s.text)
        out = {}
        for k in sorted(p.terms):
            out[k] = (p.terms[k][0], self.use(h, n).text)
        return Poly(out)

    def as_poly(self, v, n):
        if isinstance(v, Poly):
            return v
        if isinstance(v, Sc):
            return Poly({0: (1, None if v.text == ".k .one" else v.text)})
        self.fail(n, "a polynomial in z (or a scalar) is needed here")

    def addsub(self, a, b, sign, n):
        if isinstance(b, SymTerm):
            if not (isinstance(a, Sc) and a.text == ".k .one"):
                self.fail(n, "the integer-parameter power of z occurs only as `1 +- v * z ** -delay`")
            sg = b.sign * sign
            return SymPoly(b.delay, term_text(sg, b.v))
        if isinstance(a, (SymTerm, SymPoly)) or isinstance(b, SymPoly):
            self.fail(n, "the integer-parameter power of z occurs only as `1 +- v * z ** -delay`")
        pa, pb = self.as_poly(a, n), self.as_poly(b, n)
        out = dict(pa.terms)
        for k, (sg, t) in pb.terms.items():
            if k in out:
                self.fail(n, "two terms of the same power of z are added (not in the vocabulary)")
            out[k] = (sg * sign, t)
        return Poly(out)

    def div(self, a, b, n):
        if isinstance(a, Filt) or isinstance(b, Filt) or isinstance(a, (SymTerm, PyList)) or isinstance(b, (SymTerm, PyList, Sc)):
            self.fail(n, "quotient outside the vocabulary (polynomial or scalar / polynomial)")
        num = a if isinstance(a, SymPoly) else self.as_poly(a, n)
        den = b if isinstance(b, SymPoly) else self.as_poly(b, n)
        return Filt(num, den)

    def call(self, n):
        if n.keywords or any(isinstance(a, ast.Starred) for a in n.args):
            self.fail(n, "keyword / starred arguments")
        f = n.func
        if isinstance(f, ast.Name) and f.id in self.env:
            self.fail(n, "call of a local variable")
        if isinstance(f, ast.Name) and f.id in FUN1 and len(n.args) == 1:
            a = self.scalar(self.ev(n.args[0]), n.args[0])
            return Sc(".op1 %s %s" % (FUN1[f.id], P(a.text)))
        if isinstance(f, ast.Name) and f.id == "thub" and len(n.args) == 2:
            cnt = n.args[1]
            if not (isinstance(cnt, ast.Constant) and isinstance(cnt.value, int) and not isinstance(cnt.value, bool)
                    and cnt.value >= 0):
                self.fail(n, "the number of copies of a thub must be an integer literal")
            src = self.scalar(self.ev(n.args[0]), n.args[0])
            return self.new_hub(cnt.value, src.text)
        if isinstance(f, ast.Name) and f.id == "CascadeFilter" and len(n.args) == 1:
            return self.cascade(n.args[0])
        self.fail(n, "call outside the vocabulary (cos sin sqrt exp thub CascadeFilter)")

    def cascade(self, g):
        if not (isinstance(g, ast.GeneratorExp) and len(g.generators) == 1):
            self.fail(g, "CascadeFilter takes one generator expression here")
        comp = g.generators[0]
        if comp.ifs or comp.is_async or not isinstance(comp.target, ast.Name):
            self.fail(g, "generator expression outside the subset")
        var = comp.target.id
        lst = self.ev(comp.iter)
        if not (isinstance(lst, PyList) and all(isinstance(x, StratRef) for x in lst.items)):
            self.fail(comp.iter, "the cascade iterates a list of strategy references")
        c = g.elt
        if not (isinstance(c, ast.Call) and isinstance(c.func, ast.Name) and c.func.id == var and not c.keywords):
            self.fail(g, "each cascade item is `<loop variable>(arguments)`")
        calls = []
        for i, ref in enumerate(lst.items):
            name, kinds = ref.lean
            if len(c.args) != len(kinds) or any(k != "se" for k in kinds):
                self.fail(c, "wrong number / kind of arguments for " + name)
            args = [self.scalar(self.ev(a), a) for a in c.args]     # this call's own copies, in argument order
            calls.append("%s %d %s" % (name, 10 * (i + 1), " ".join(P(a.text) for a in args)))
        return Cascade(calls)

    # ---- statements ---------------------------------------------------------------------------
    def zsafe_idiom(self, st):
        """if isinstance(v, Iterable): T = (el if el else 1 for el in X)  else: T = X; if not T: T = 1"""
        t = st.test
        ok = (isinstance(t, ast.Call) and isinstance(t.func, ast.Name) and t.func.id == "isinstance" and len(t.args) == 2
              and not t.keywords and isinstance(t.args[0], ast.Name) and t.args[0].id in self.env
              and isinstance(t.args[1], ast.Name) and t.args[1].id == "Iterable"
              and len(st.body) == 1 and len(st.orelse) == 2)
        if not ok:
            self.fail(st, "`if` statement outside the subset")
        a, (b1, b2) = st.body[0], st.orelse

        def single(s):
            return (isinstance(s, ast.Assign) and len(s.targets) == 1 and isinstance(s.targets[0], ast.Name)) and s.targets[0].id
        T = single(a)
        g = a.value if T else None
        ok = (T and isinstance(g, ast.GeneratorExp) and len(g.generators) == 1 and not g.generators[0].ifs
              and isinstance(g.generators[0].target, ast.Name) and isinstance(g.elt, ast.IfExp))
        if not ok:
            self.fail(st, "`if` statement outside the subset (Stream branch)")
        el = g.generators[0].target.id
        ie = g.elt
        ok = (isinstance(ie.test, ast.Name) and ie.test.id == el and isinstance(ie.body, ast.Name) and ie.body.id == el
              and isinstance(ie.orelse, ast.Constant) and ie.orelse.value == 1 and type(ie.orelse.value) is int)
        if not ok:
            self.fail(st, "the Stream branch must be `(el if el else 1 for el in X)`")
        X = g.generators[0].iter
        ok = (single(b1) == T and ast.dump(b1.value) == ast.dump(X)
              and isinstance(b2, ast.If) and not b2.orelse and len(b2.body) == 1
              and isinstance(b2.test, ast.UnaryOp) and isinstance(b2.test.op, ast.Not)
              and isinstance(b2.test.operand, ast.Name) and b2.test.operand.id == T
              and single(b2.body[0]) == T and isinstance(b2.body[0].value, ast.Constant)
              and b2.body[0].value.value == 1 and type(b2.body[0].value.value) is int)
        if not ok:
            self.fail(st, "the number branch must be `T = X; if not T: T = 1` with the same X")
        x = self.scalar(self.ev(X), X)            # evaluated once, whichever branch runs
        self.env[T] = Sc(".op1 .zsafe " + P(x.text))

    def run(self, stmts):
        for i, st in enumerate(stmts):
            if isinstance(st, ast.Assign):
                if len(st.targets) != 1 or not isinstance(st.targets[0], ast.Name):
                    self.fail(st, "only `name = expression`")
                v = self.ev(st.value)
                if isinstance(v, NatPar):
                    self.fail(st, "the integer parameter is rebound")
                self.env[st.targets[0].id] = v
            elif isinstance(st, ast.If):
                self.zsafe_idiom(st)
            elif isinstance(st, ast.Return):
                if i != len(stmts) - 1 or st.value is None:
                    self.fail(st, "`return <expression>` must be the last statement")
                return self.use(self.ev(st.value), st.value)
            else:
                self.fail(st, "statement outside the subset")
        raise TranslationError("%s: no return statement" % self.where)


def dense(p):
    if isinstance(p, SymPoly):
        return "onePlusDelayedS %s %s" % (p.delay, P(p.v))
    top = max(p.terms)
    items = [term_text(*p.terms[k]) if k in p.terms else ".k .zero" for k in range(top + 1)]
    return "[" + ", ".join(items) + "]"


# ------------------------------------------------------------------------------------------------
# finding the strategy functions
# ------------------------------------------------------------------------------------------------
def find_strategies(tree, fname):
    """(dict, key) -> (FunctionDef, names); a function registered twice or an unknown decorator is an error"""
    out = {}
    for node in tree.body:
        if not isinstance(node, ast.FunctionDef):
            continue
        reg = None
        for d in node.decorator_list:
            if (isinstance(d, ast.Call) and isinstance(d.func, ast.Attribute) and d.func.attr == "strategy"
                    and isinstance(d.func.value, ast.Name)):
                names = []
                for a in d.args:
                    if not (isinstance(a, ast.Constant) and isinstance(a.value, str)):
                        raise TranslationError("%s line %d: strategy name that is not a string literal" % (fname, d.lineno))
                    names.append(a.value)
                if d.keywords or not names or reg is not None:
                    raise TranslationError("%s line %d: unexpected strategy registration" % (fname, d.lineno))
                reg = (d.func.value.id, names)
        if reg is None:
            continue
        key = (reg[0], reg[1][0])
        if key in out:
            raise TranslationError("%s: strategy %s.%s is defined twice" % (fname, key[0], key[1]))
        out[key] = (node, reg[1])
    return out


def translate_one(fname, node, dname, key, lean, kinds, known):
    where = "%s %s.%s" % (fname, dname, key)
    decs = node.decorator_list
    first = decs[0]
    if not (isinstance(first, ast.Call) and isinstance(first.func, ast.Attribute) and first.func.attr == "strategy"):
        raise TranslationError(where + ": the strategy registration must be the outermost decorator")
    for d in decs[1:]:
        if not (isinstance(d, ast.Call) and isinstance(d.func, ast.Name) and d.func.id == "format_docstring"):
            raise TranslationError("%s: decorator outside the subset: %s" % (where, ast.unparse(d)[:80]))
    a = node.args
    if a.vararg or a.kwarg or a.kwonlyargs or a.posonlyargs or len(a.args) != len(kinds):
        raise TranslationError("%s: parameter list (%s) does not have the %d positional parameters of the model"
                               % (where, ast.unparse(a), len(kinds)))
    names = [x.arg for x in a.args]
    if len(set(names)) != len(names) or "b" in names:
        raise TranslationError(where + ": parameter names")
    defaults = [None] * (len(names) - len(a.defaults)) + [ast.unparse(d) for d in a.defaults]
    body = list(node.body)
    if body and isinstance(body[0], ast.Expr) and isinstance(body[0].value, ast.Constant) and isinstance(body[0].value.value, str):
        body = body[1:]
    cascade = dname == "gammatone"
    based = "nat" not in kinds and not cascade      # comb (no hub) and the cascade (base 0) take no hub base
    bd = Body(where, "b" if based else None, known)
    for nm, k in zip(names, kinds):
        bd.env[nm] = NatPar(nm) if k == "nat" else Sc(nm)
    res = bd.run(body)
    if len(bd.hubs) >= 10:
        raise TranslationError(where + ": ten or more hubs in one call (hub bases are spaced by 10)")
    binders = ("(b : Nat) " if based else "") + " ".join("(%s : %s)" % (nm, "Nat" if k == "nat" else "SE")
                                                           for nm, k in zip(names, kinds))
    lines = []
    for h in bd.hubs:
        lines.append("  let h%d : Nat → SE := fun c => .copy %s %d c %s" % (h.idx, bd.hub_id(h.idx), h.n, P(h.src)))
    if cascade:
        if not isinstance(res, Cascade):
            raise TranslationError(where + ": the result must be a CascadeFilter of strategy calls")
        ty = "List SSec"
        lines.append("  [" + ",\n   ".join(res.calls) + "]")
    else:
        if isinstance(res, (Poly, SymPoly)):
            res = Filt(res, Poly({0: (1, None)}))
        elif isinstance(res, Sc):
            res = Filt(Poly({0: (1, None if res.text == ".k .one" else res.text)}), Poly({0: (1, None)}))
        if not isinstance(res, Filt):
            raise TranslationError(where + ": the result is not a filter expression")
        ty = "SSec"
        lines.append("  ⟨%s,\n   %s⟩" % (dense(res.num), dense(res.den)))
    src = " ".join("; ".join(ast.unparse(s) for s in body).split())
    doc = "/-- `%s.%s(%s)`: `%s` -/" % (dname, key, ast.unparse(a), src.replace("-/", "- /"))
    text = "%s\ndef %s %s : %s :=\n%s\n" % (doc, lean, binders, ty, "\n".join(lines))
    info = {"strategy": "%s.%s" % (dname, key), "lean": "ALV.Gen.C13." + lean, "params": names, "defaults": defaults,
            "hubs": [[h.n, h.used] for h in bd.hubs]}
    return text, info


# ------------------------------------------------------------------------------------------------
# scalar functions of lazy_auditory.py: erb.gm90 / erb.mg83 / gammatone_erb_constants
# ------------------------------------------------------------------------------------------------
# A typed expression translation into the vocabulary of ALV/Model/C13.lean (generic over [TrigField α]):
#   kind "nat"  — Python ints built from the order `n`, non-negative int literals, + - * **, factorial(...):
#                 kept in Lean's Nat as long as Python keeps an int (`-` is Nat's truncated subtraction: trusted
#                 to agree with Python where Python's value is non-negative, i.e. n >= 1);
#   kind "real" — everything a float touches.  An int meeting a float (or a true division) is converted:
#                 an int LITERAL k -> `ofInt k`, any other int expression e -> `ofNat (e)`;
#                 a float literal -> `ofRat p q` with p / q the shortest decimal that reads back as the literal
#                 (`1.` -> `ofInt 1`, `.5` -> `half`); `int ** -int` -> `ofInt 1 / ofNat (a ^ e)`;
#                 `x ** y` -> `pow x y`; `pi` -> `pi`.
SCALAR_RESERVED = {"z", "cos", "sin", "sqrt", "exp", "mk", "normalise", "diffNum", "pi", "pow", "ofInt", "ofNat", "ofRat", "half", "factorial", "fun", "let", "match", "if", "then", "else",
                   "at", "from", "end", "def", "α"}


class SX:
    def __init__(self, kind, text, lit=None, atom=False):
        self.kind, self.text, self.lit, self.atom = kind, text, lit, atom

    def p(self):
        return self.text if self.atom else "(" + self.text + ")"


def _real_lit(v, where):
    import decimal
    if v != v or v in (float("inf"), float("-inf")) or v < 0:
        raise TranslationError(where + ": float literal outside the subset: %r" % v)
    d = decimal.Decimal(repr(v)).normalize()
    sign, digits, exp = d.as_tuple()
    num = int("".join(map(str, digits)))
    if exp >= 0:
        return SX("real", "ofInt %d" % (num * 10 ** exp))
    if (num, exp) == (5, -1):
        return SX("real", "half", atom=True)
    return SX("real", "ofRat %d %d" % (num, 10 ** -exp))


def _coerce(x):
    if x.kind == "real":
        return x
    if x.lit is not None:
        return SX("real", "ofInt %d" % x.lit)
    return SX("real", "ofNat " + x.p())


def scalar_expr(node, env, where):
    def rec(n):
        return scalar_expr(n, env, where)
    if isinstance(node, ast.Constant):
        v = node.value
        if isinstance(v, bool) or not isinstance(v, (int, float)):
            raise TranslationError(where + ": literal outside the subset: %r" % (v,))
        if isinstance(v, int):
            if v < 0:
                raise TranslationError(where + ": negative int literal")
            return SX("nat", str(v), lit=v, atom=True)
        return _real_lit(v, where)
    if isinstance(node, ast.Name):
        if node.id in env:
            return env[node.id]
        if node.id == "pi":
            return SX("real", "pi", atom=True)
        raise TranslationError(where + ": unknown name " + node.id)
    if isinstance(node, ast.UnaryOp) and isinstance(node.op, ast.USub):
        x = rec(node.operand)
        if x.kind != "real":
            raise TranslationError(where + ": negated int outside an exponent")
        return SX("real", "-" + x.p())
    if isinstance(node, ast.Call):
        if (isinstance(node.func, ast.Name) and node.func.id == "factorial" and "factorial" not in env
                and len(node.args) == 1 and not node.keywords):
            x = rec(node.args[0])
            if x.kind != "nat":
                raise TranslationError(where + ": factorial of a float")
            return SX("nat", "factorial " + x.p())
        if (isinstance(node.func, ast.Name) and node.func.id in ("cos", "sin", "sqrt", "exp") and node.func.id not in env
                and len(node.args) == 1 and not node.keywords):
            return SX("real", "%s %s" % (node.func.id, _coerce(rec(node.args[0])).p()))
        raise TranslationError(where + ": call outside the subset: " + ast.unparse(node)[:60])
    if isinstance(node, ast.BinOp):
        if isinstance(node.op, ast.Pow):
            a = rec(node.left)
            if (a.kind == "nat" and isinstance(node.right, ast.UnaryOp) and isinstance(node.right.op, ast.USub)):
                e = rec(node.right.operand)
                if e.kind != "nat":
                    raise TranslationError(where + ": int ** -float")
                return SX("real", "ofInt 1 / ofNat (%s ^ %s)" % (a.p(), e.p()))
            e = rec(node.right)
            if a.kind == "nat" and e.kind == "nat":
                return SX("nat", "%s ^ %s" % (a.p(), e.p()))
            return SX("real", "pow %s %s" % (_coerce(a).p(), _coerce(e).p()))
        ops = {ast.Add: "+", ast.Sub: "-", ast.Mult: "*", ast.Div: "/"}
        if type(node.op) not in ops:
            raise TranslationError(where + ": operator outside the subset: " + ast.unparse(node)[:60])
        a, b = rec(node.left), rec(node.right)
        if a.kind == "nat" and b.kind == "nat" and not isinstance(node.op, ast.Div):
            return SX("nat", "%s %s %s" % (a.p(), ops[type(node.op)], b.p()))
        return SX("real", "%s %s %s" % (_coerce(a).p(), ops[type(node.op)], _coerce(b).p()))
    raise TranslationError(where + ": expression outside the subset: " + ast.unparse(node)[:60])


def scalar_tail(stmts, env, where, pair):
    """straight-line `name = expr` statements and a final `return expr` -> the lines of a Lean `let` chain"""
    env = dict(env)
    lines = []
    if not stmts or not isinstance(stmts[-1], ast.Return) or stmts[-1].value is None:
        raise TranslationError(where + ": the body must end in `return <expression>`")
    for s in stmts[:-1]:
        if not (isinstance(s, ast.Assign) and len(s.targets) == 1 and isinstance(s.targets[0], ast.Name)):
            raise TranslationError(where + ": statement outside the subset: " + ast.unparse(s)[:60])
        nm = s.targets[0].id
        if nm in SCALAR_RESERVED or not nm.isidentifier() or not nm.isascii():
            raise TranslationError(where + ": local name " + nm)
        x = scalar_expr(s.value, env, where)
        lines.append("  let %s := %s" % (nm, x.text))
        env[nm] = SX(x.kind, nm, atom=True)
    r = stmts[-1].value
    if pair:
        if not (isinstance(r, ast.Tuple) and len(r.elts) == 2):
            raise TranslationError(where + ": the result must be a pair")
        a, b = (_coerce(scalar_expr(e, env, where)) for e in r.elts)
        lines.append("  (%s,\n   %s)" % (a.text, b.text))
    else:
        lines.append("  " + _coerce(scalar_expr(r, env, where)).text)
    return lines


def _strip_doc(body):
    body = list(body)
    if body and isinstance(body[0], ast.Expr) and isinstance(body[0].value, ast.Constant) and isinstance(body[0].value.value, str):
        body = body[1:]
    return body


def _src_doc(head, body):
    src = " ".join("; ".join(ast.unparse(s) for s in body).split())
    return "/-- `%s`: `%s` -/" % (head, src.replace("-/", "- /"))


ERB_KEYS = [("gm90", ".gm90"), ("mg83", ".mg83")]       # strategy key -> constructor of ALV.C13.ErbStrategy


def translate_erb(found, tree):
    """the strategies of `erb` (all of them, in the order of their registration: the first one is the default of a
    StrategyDict) -> `erb_<key>_tail` (the formula), `erb_<key>` (the call with the `Hz is None` branch),
    `erb_default`, `erb_call`"""
    out, infos = [], []
    regs = [(k, v) for k, v in found.items() if k[0] == "erb"]
    regs.sort(key=lambda kv: kv[1][0].lineno)
    if [k[1] for k, _ in regs] != [k for k, _ in ERB_KEYS]:
        raise TranslationError("lazy_auditory: the strategies of erb are %r, the model has %r (in this order; the first "
                               "is the default)" % ([k[1] for k, _ in regs], [k for k, _ in ERB_KEYS]))
    for (dname, key), (node, names) in regs:
        where = "lazy_auditory erb." + key
        decs = node.decorator_list
        a = node.args
        if (a.vararg or a.kwarg or a.kwonlyargs or a.posonlyargs or len(a.args) != 2 or len(a.defaults) != 1
                or not (isinstance(a.defaults[0], ast.Constant) and a.defaults[0].value is None)):
            raise TranslationError("%s: parameter list (%s) is not (freq, Hz=None)" % (where, ast.unparse(a)))
        freq, hz = (x.arg for x in a.args)
        if freq == hz or {freq, hz} & SCALAR_RESERVED:
            raise TranslationError(where + ": parameter names")
        if len(decs) != 3 or not (isinstance(decs[0], ast.Call) and isinstance(decs[0].func, ast.Attribute)
                                  and decs[0].func.attr == "strategy"):
            raise TranslationError(where + ": decorators must be strategy / elementwise / format_docstring")
        d1, d2 = decs[1], decs[2]
        if not (isinstance(d1, ast.Call) and isinstance(d1.func, ast.Name) and d1.func.id == "elementwise" and not d1.keywords
                and len(d1.args) == 2 and all(isinstance(x, ast.Constant) for x in d1.args)
                and d1.args[0].value == freq and d1.args[1].value == 0 and not isinstance(d1.args[1].value, bool)):
            raise TranslationError("%s: expected @elementwise(%r, 0), found %s" % (where, freq, ast.unparse(d1)[:60]))
        if not (isinstance(d2, ast.Call) and isinstance(d2.func, ast.Name) and d2.func.id == "format_docstring"):
            raise TranslationError("%s: decorator outside the subset: %s" % (where, ast.unparse(d2)[:60]))
        body = _strip_doc(node.body)
        # if Hz is None: if freq < K: raise ValueError(...); Hz = U
        g = body[0] if body else None
        ok = (isinstance(g, ast.If) and not g.orelse and isinstance(g.test, ast.Compare) and len(g.test.ops) == 1
              and isinstance(g.test.ops[0], ast.Is) and isinstance(g.test.left, ast.Name) and g.test.left.id == hz
              and isinstance(g.test.comparators[0], ast.Constant) and g.test.comparators[0].value is None
              and len(g.body) == 2)
        if not ok:
            raise TranslationError(where + ": the body must start with `if %s is None:` (two statements, no else)" % hz)
        r, asg = g.body
        ok = (isinstance(r, ast.If) and not r.orelse and len(r.body) == 1 and isinstance(r.body[0], ast.Raise)
              and isinstance(r.body[0].exc, ast.Call) and isinstance(r.body[0].exc.func, ast.Name)
              and r.body[0].exc.func.id == "ValueError" and r.body[0].cause is None
              and isinstance(r.test, ast.Compare) and len(r.test.ops) == 1 and isinstance(r.test.ops[0], (ast.Lt, ast.Gt)))
        if not ok:
            raise TranslationError(where + ": expected `if <a> < <b>: raise ValueError(...)` as the first statement of the "
                                           "None branch")
        env = {freq: SX("real", freq, atom=True)}
        lo, hi = r.test.left, r.test.comparators[0]
        if isinstance(r.test.ops[0], ast.Gt):
            lo, hi = hi, lo
        lo, hi = (_coerce(scalar_expr(x, env, where)) for x in (lo, hi))
        if not (isinstance(asg, ast.Assign) and len(asg.targets) == 1 and isinstance(asg.targets[0], ast.Name)
                and asg.targets[0].id == hz):
            raise TranslationError(where + ": expected `%s = <number>` as the second statement of the None branch" % hz)
        unit = _coerce(scalar_expr(asg.value, {}, where))
        env[hz] = SX("real", hz, atom=True)
        lines = scalar_tail(body[1:], env, where, pair=False)
        out.append("%s\ndef erb_%s_tail (%s %s : α) : α :=\n%s\n\n" % (
            _src_doc("erb.%s(%s) after the branch %s is None" % (key, ast.unparse(a), hz), body[1:]), key, freq, hz,
            "\n".join(lines)))
        out.append("%s\ndef erb_%s [LtTest α] (%s : α) (%s : Option α) : Except Unit α :=\n  match %s with\n"
                   "  | none => if LtTest.lt %s %s then .error () else .ok (erb_%s_tail %s %s)\n"
                   "  | some %s => .ok (erb_%s_tail %s %s)\n\n" % (
                       _src_doc("erb.%s(%s), the branch %s is None" % (key, ast.unparse(a), hz), [g]), key, freq, hz, hz,
                       lo.p(), hi.p(), key, freq, unit.p(), hz, key, freq, hz))
        infos.append({"function": "erb." + key, "lean": "ALV.Gen.C13.erb_%s / erb_%s_tail" % (key, key), "names": names})
    out.append("/-- the strategy table of `erb`, in the order of the registrations -/\n"
               "def erb_strategy [LtTest α] : ErbStrategy → α → Option α → Except Unit α\n"
               + "".join("  | %s => erb_%s\n" % (c, k) for k, c in ERB_KEYS) + "\n")
    out.append("/-- the default of a StrategyDict is the strategy registered first -/\n"
               "def erb_default : ErbStrategy := %s\n\n" % ERB_KEYS[0][1])
    out.append("/-- `erb[strategy](freq, Hz)` / `erb(freq, Hz)` -/\n"
               "def erb_call [LtTest α] (st : Option ErbStrategy) : α → Option α → Except Unit α :=\n"
               "  erb_strategy (st.getD erb_default)\n\n")
    return "".join(out), infos


def translate_erb_constants(tree):
    nodes = [n for n in tree.body if isinstance(n, ast.FunctionDef) and n.name == "gammatone_erb_constants"]
    where = "lazy_auditory gammatone_erb_constants"
    if len(nodes) != 1:
        raise TranslationError(where + ": %d definitions" % len(nodes))
    node = nodes[0]
    a = node.args
    if node.decorator_list or a.vararg or a.kwarg or a.kwonlyargs or a.posonlyargs or len(a.args) != 1 or a.defaults:
        raise TranslationError("%s: signature (%s) / decorators outside the subset" % (where, ast.unparse(a)))
    n = a.args[0].arg
    if n in SCALAR_RESERVED:
        raise TranslationError(where + ": parameter name")
    body = _strip_doc(node.body)
    lines = scalar_tail(body, {n: SX("nat", n, atom=True)}, where, pair=True)
    text = "%s\ndef gammatone_erb_constants (%s : Nat) : α × α :=\n%s\n\n" % (
        _src_doc("gammatone_erb_constants(%s)" % ast.unparse(a), body), n, "\n".join(lines))
    return text, [{"function": "gammatone_erb_constants", "lean": "ALV.Gen.C13.gammatone_erb_constants"}]


# ------------------------------------------------------------------------------------------------
# gammatone.sampled: scalars, polynomials in z ** -k (dense coefficient lists), the .diff call, the two gain
# normalisations, the cascade — in the vocabulary mk / diffNum / normalise of ALV/Model/C13.lean
# ------------------------------------------------------------------------------------------------
def _is_zpow(node):
    """`z ** -k` (k a non-negative int literal) -> k"""
    if (isinstance(node, ast.BinOp) and isinstance(node.op, ast.Pow) and isinstance(node.left, ast.Name) and node.left.id == "z"
            and isinstance(node.right, ast.UnaryOp) and isinstance(node.right.op, ast.USub)
            and isinstance(node.right.operand, ast.Constant) and type(node.right.operand.value) is int
            and node.right.operand.value >= 0):
        return node.right.operand.value
    return None


def poly_expr(node, env, where):
    """sums / differences of scalars and `scalar * z ** -k` terms -> {k: Lean text of the coefficient}; None when the
    expression has no z term (a plain scalar)"""
    if isinstance(node, ast.BinOp) and isinstance(node.op, (ast.Add, ast.Sub)):
        a, b = poly_expr(node.left, env, where), poly_expr(node.right, env, where)
        if isinstance(node.op, ast.Sub):
            b = {k: "-(%s)" % v for k, v in b.items()}
        if set(a) & set(b):
            raise TranslationError(where + ": two terms of the same delay in " + ast.unparse(node)[:60])
        a = dict(a)
        a.update(b)
        return a
    if isinstance(node, ast.BinOp) and isinstance(node.op, ast.Mult) and _is_zpow(node.right) is not None:
        return {_is_zpow(node.right): _coerce(scalar_expr(node.left, env, where)).text}
    if _is_zpow(node) is not None:
        return {_is_zpow(node): "ofInt 1"}
    return {0: _coerce(scalar_expr(node, env, where)).text}


def _dense_list(p):
    return "[" + ", ".join(p.get(k, "ofInt 0") for k in range(max(p) + 1)) + "]"


def translate_gammatone_sampled(found):
    where = "lazy_auditory gammatone.sampled"
    if ("gammatone", "sampled") not in found:
        raise TranslationError(where + ": not found")
    node, names = found[("gammatone", "sampled")]
    decs = node.decorator_list
    if len(decs) != 2 or not (isinstance(decs[1], ast.Call) and isinstance(decs[1].func, ast.Name)
                              and decs[1].func.id == "format_docstring"):
        raise TranslationError(where + ": decorators must be strategy / format_docstring")
    a = node.args
    if a.vararg or a.kwarg or a.kwonlyargs or a.posonlyargs or len(a.args) != 4 or len(a.defaults) != 2:
        raise TranslationError("%s: parameter list (%s) is not (freq, bandwidth, phase=<int>, eta=<int>)" % (where, ast.unparse(a)))
    freq, bw, phase, eta = (x.arg for x in a.args)
    if len({freq, bw, phase, eta}) != 4 or {freq, bw, phase, eta} & SCALAR_RESERVED:
        raise TranslationError(where + ": parameter names")
    dph, deta = a.defaults
    if not (isinstance(dph, ast.Constant) and type(dph.value) is int and dph.value >= 0
            and isinstance(deta, ast.Constant) and type(deta.value) is int and deta.value >= 1):
        raise TranslationError(where + ": defaults outside the subset: " + ast.unparse(a))
    body = _strip_doc(node.body)
    g = body[0] if body else None
    if not (isinstance(g, ast.Assert) and g.msg is None and ast.unparse(g.test) == eta + " >= 1"):
        raise TranslationError(where + ": the body must start with `assert %s >= 1` (the order is a Nat, `%s - 1` truncated)"
                               % (eta, eta))
    env = {freq: SX("real", freq, atom=True), bw: SX("real", bw, atom=True), phase: SX("real", phase, atom=True),
           eta: SX("nat", eta, atom=True)}
    kinds = {}          # local name -> "poly" | "diffed" | "filt"
    diffed = {}
    lines = []

    def fresh(nm):
        if nm in SCALAR_RESERVED or not nm.isidentifier() or not nm.isascii() or nm in (freq, bw, phase, eta):
            raise TranslationError(where + ": local name " + nm)

    def polyname(n):
        if not (isinstance(n, ast.Name) and kinds.get(n.id) == "poly"):
            raise TranslationError(where + ": expected a polynomial variable, found " + ast.unparse(n)[:40])
        return n.id

    stmts = body[1:]
    if not stmts or not isinstance(stmts[-1], ast.Return):
        raise TranslationError(where + ": the body must end in a return")
    for st in stmts[:-1]:
        if isinstance(st, ast.AugAssign):
            # f /= abs(f.freq_response(x))
            v = st.value
            ok = (isinstance(st.op, ast.Div) and isinstance(st.target, ast.Name) and kinds.get(st.target.id) == "filt"
                  and isinstance(v, ast.Call) and isinstance(v.func, ast.Name) and v.func.id == "abs" and len(v.args) == 1
                  and not v.keywords and isinstance(v.args[0], ast.Call) and isinstance(v.args[0].func, ast.Attribute)
                  and v.args[0].func.attr == "freq_response" and isinstance(v.args[0].func.value, ast.Name)
                  and v.args[0].func.value.id == st.target.id and len(v.args[0].args) == 1 and not v.args[0].keywords)
            if not ok:
                raise TranslationError(where + ": statement outside the subset: " + ast.unparse(st)[:70])
            x = scalar_expr(v.args[0].args[0], env, where)
            if x.kind != "real":
                raise TranslationError(where + ": freq_response of an int")
            lines.append("  let %s := normalise %s %s" % (st.target.id, st.target.id, x.p()))
            continue
        if not (isinstance(st, ast.Assign) and len(st.targets) == 1 and isinstance(st.targets[0], ast.Name)):
            raise TranslationError(where + ": statement outside the subset: " + ast.unparse(st)[:70])
        nm, v = st.targets[0].id, st.value
        fresh(nm)
        for d in (env, kinds):
            d.pop(nm, None)
        if (isinstance(v, ast.Call) and isinstance(v.func, ast.Attribute) and v.func.attr == "diff"):
            # (num / den).diff(n=<nat>, mul_after=-z)
            q = v.func.value
            kw = {k.arg: k.value for k in v.keywords}
            if not (not v.args and set(kw) == {"n", "mul_after"} and ast.unparse(kw["mul_after"]) == "-z"
                    and isinstance(q, ast.BinOp) and isinstance(q.op, ast.Div)):
                raise TranslationError(where + ": expected (<num> / <den>).diff(n=..., mul_after=-z)")
            n = scalar_expr(kw["n"], env, where)
            if n.kind != "nat":
                raise TranslationError(where + ": diff(n=<float>)")
            diffed[nm] = (polyname(q.left), polyname(q.right), n)
            kinds[nm] = "diffed"
            continue
        if isinstance(v, ast.BinOp) and isinstance(v.op, ast.Div) and isinstance(v.right, ast.Name) and kinds.get(v.right.id) == "poly":
            l = v.left
            if (isinstance(l, ast.Call) and isinstance(l.func, ast.Name) and l.func.id == "ZFilter" and len(l.args) == 1
                    and not l.keywords and isinstance(l.args[0], ast.Attribute) and l.args[0].attr == "numpoly"
                    and isinstance(l.args[0].value, ast.Name) and kinds.get(l.args[0].value.id) == "diffed"):
                dn, dd, n = diffed[l.args[0].value.id]
                lines.append("  let %s := mk (diffNum %s %s %s) %s" % (nm, dn, dd, n.p(), v.right.id))
            else:
                x = _coerce(scalar_expr(l, env, where))
                lines.append("  let %s := mk [%s] %s" % (nm, x.text, v.right.id))
            kinds[nm] = "filt"
            continue
        pz = poly_expr(v, env, where)
        if set(pz) == {0}:
            x = scalar_expr(v, env, where)
            lines.append("  let %s := %s" % (nm, x.text))
            env[nm] = SX(x.kind, nm, atom=True)
        else:
            lines.append("  let %s : List α := %s" % (nm, _dense_list(pz)))
            kinds[nm] = "poly"
    # return CascadeFilter([f0] + [fn] * (<nat>))
    r = stmts[-1].value
    ok = (isinstance(r, ast.Call) and isinstance(r.func, ast.Name) and r.func.id == "CascadeFilter" and len(r.args) == 1
          and not r.keywords and isinstance(r.args[0], ast.BinOp) and isinstance(r.args[0].op, ast.Add))
    if ok:
        l, m = r.args[0].left, r.args[0].right
        ok = (isinstance(l, ast.List) and len(l.elts) == 1 and isinstance(l.elts[0], ast.Name) and kinds.get(l.elts[0].id) == "filt"
              and isinstance(m, ast.BinOp) and isinstance(m.op, ast.Mult) and isinstance(m.left, ast.List) and len(m.left.elts) == 1
              and isinstance(m.left.elts[0], ast.Name) and kinds.get(m.left.elts[0].id) == "filt")
    if not ok:
        raise TranslationError(where + ": expected `return CascadeFilter([f0] + [fn] * (<count>))`")
    cnt = scalar_expr(m.right, env, where)
    if cnt.kind != "nat":
        raise TranslationError(where + ": list repeated a float number of times")
    lines.append("  %s :: List.replicate %s %s" % (l.elts[0].id, cnt.p(), m.left.elts[0].id))
    text = "%s\ndef gammatone_sampled [ZeroTest α] (%s %s %s : α) (%s : Nat) : List (Coefs α) :=\n%s\n\n" % (
        _src_doc("gammatone.sampled(%s)" % ast.unparse(a), body), freq, bw, phase, eta, "\n".join(lines))
    text += ("/-- the defaults of the `def` line: `%s` -/\n"
             "def gammatone_sampled_call [ZeroTest α] (%s %s : α) (%s : Option α) (%s : Option Nat) : List (Coefs α) :=\n"
             "  gammatone_sampled %s %s (%s.getD (ofInt %d)) (%s.getD %d)\n\n" % (
                 ast.unparse(a), freq, bw, phase, eta, freq, bw, phase, dph.value, eta, deta.value))
    return text, [{"function": "gammatone.sampled", "lean": "ALV.Gen.C13.gammatone_sampled / gammatone_sampled_call",
                   "names": names}]


SCALAR_HEAD = """
/-! ### scalar functions of lazy_auditory.py, in the vocabulary of ALV/Model/C13.lean and C13Call.lean
(generic over `[TrigField α]`; `Except.error ()` = the `ValueError`; `LtTest.lt` = Python's `<` on numbers) -/
section scalar
variable {α : Type} [TrigField α]
open ALV.TrigField

"""


def translate_scalar(found, tree):
    t1, i1 = translate_erb(found, tree)
    t2, i2 = translate_erb_constants(tree)
    t3, i3 = translate_gammatone_sampled(found)
    return SCALAR_HEAD + t1 + t2 + t3 + "end scalar\n", i1 + i2 + i3


HEADER = """/-
  GENERATED by harness/props/c13_tr.py from audiolazy/lazy_filters.py and audiolazy/lazy_auditory.py of the repo
  under test — do not edit; rewritten on every run of `./check C13`.

  One definition per thub-based strategy body, in the vocabulary of ALV/Model/C13Thub.lean (`b` = base of the
  hub identifiers of this call, `hK c` = copy `c` of the K-th hub the call makes).  ALV/Lemmas/C13Src.lean proves
  each of them equal to the hand transcription the C13 theorems are about (`src_*_is_model`).  At the end the
  scalar functions erb.gm90 / erb.mg83 / gammatone_erb_constants, in the vocabulary of ALV/Model/C13.lean.
-/
import ALV.Model.C13Thub
import ALV.Model.C13Call
namespace ALV.Gen.C13
open ALV.C13

"""


def translate(texts):
    """texts: {"lazy_filters": source, "lazy_auditory": source} -> (Lean text, info list)"""
    found = {}
    trees = {}
    for f in FILES:
        try:
            with warnings.catch_warnings():
                warnings.simplefilter("ignore")         # invalid escape sequences in the repo's docstrings
                tree = ast.parse(texts[f])
        except SyntaxError as e:
            raise TranslationError("%s: %s" % (f, e))
        found[f] = find_strategies(tree, f)
        trees[f] = tree
    out = [HEADER]
    infos = []
    known = {}
    for f, dname, key, lean, kinds, _, _ in TARGETS:
        if (dname, key) not in found[f]:
            raise TranslationError("%s: strategy %s.%s not found" % (f, dname, key))
        node, names = found[f][(dname, key)]
        text, info = translate_one(f, node, dname, key, lean, kinds, known)
        info["names"] = names
        known[(dname, key)] = (lean, kinds)
        out.append(text + "\n")
        infos.append(info)
    out.append("/-- the stream program of a design kind called with its arguments (`par 0`, `par 1`) -/\n"
               "def progOf : Kind → List SSec\n")
    for f, dname, key, lean, kinds, pat, d in TARGETS:
        args = " ".join(([d] if d else []) + ["(.par %d)" % i for i in range(sum(1 for k in kinds if k == "se"))])
        if dname == "gammatone":
            out.append("  | %s => %s %s\n" % (pat, lean, args))
        elif d:
            out.append("  | %s => [%s %s]\n" % (pat, lean, args))
        else:
            out.append("  | %s => [%s 0 %s]\n" % (pat, lean, args))
    st, si = translate_scalar(found["lazy_auditory"], trees["lazy_auditory"])
    out.append(st)
    infos.extend(si)
    out.append("\nend ALV.Gen.C13\n")
    return "".join(out), infos


def read_source(repo=None):
    repo = repo or common.REPO
    texts = {}
    for f, rel in FILES.items():
        with open(os.path.join(repo, rel), encoding="utf-8") as fh:
            texts[f] = fh.read()
    return texts


def committed_text():
    import subprocess
    good = subprocess.run(["git", "-C", common.VERIF, "show", "HEAD:lean/" + GEN_REL.replace(os.sep, "/")],
                          capture_output=True, text=True, timeout=30)
    return good.stdout if good.returncode == 0 and good.stdout else None


def regenerate(eng=None):
    """Rewrite lean/ALV/Gen/C13Src.lean from the repo under test.  On a translation failure the last COMMITTED
    translation is put back (the theorems then speak about the last translatable state) and the error propagates
    (= broken obligation)."""
    path = os.path.join(common.LEAN, GEN_REL)
    try:
        text, infos = translate(read_source())
    except Exception:
        try:
            good = committed_text()
            if good and (not os.path.exists(path) or open(path, encoding="utf-8").read() != good):
                with open(path, "w", encoding="utf-8") as f:
                    f.write(good)
        except Exception:
            pass
        raise
    if eng is not None:
        eng.extra["translated"] = {
            "translator": "harness/props/c13_tr.py -> lean/ALV/Gen/C13Src.lean (shallow: one Lean definition per strategy body, "
                          "SE expression programs of ALV/Model/C13Thub.lean; the scalar functions erb.gm90 / erb.mg83 / "
                          "gammatone_erb_constants as generic [TrigField] definitions in the vocabulary of "
                          "ALV/Model/C13.lean / C13Call.lean; theorems src_*_is_model)",
            "under_translator": infos,
            "not_translated": [{"function": a, "why": b} for a, b in NOT_TRANSLATED]}
    old = open(path, encoding="utf-8").read() if os.path.exists(path) else None
    if old != text:
        os.makedirs(os.path.dirname(path), exist_ok=True)
        with open(path, "w", encoding="utf-8") as f:
            f.write(text)
        return "rewritten (%d bytes, %d strategy bodies)" % (len(text), len(infos))
    return "unchanged (%d bytes, %d strategy bodies)" % (len(text), len(infos))


# ------------------------------------------------------------------------------------------------
# self test: edited copies of the source text
# ------------------------------------------------------------------------------------------------
# (name, file, old, new, occurrence [0-based among the matches in the file]): each must change the Gen text or raise
EDITS = [
    ("lowpass.pole: 2 - cos -> 2 + cos", "lazy_filters", "  x = 2 - cos(cutoff)\n", "  x = 2 + cos(cutoff)\n", 0),
    ("resonator.poles_exp: thub(R, 5) dropped", "lazy_filters", "  R = thub(R, 5)\n", "", 0),
    ("resonator.z_exp: cost / gain statements reordered", "lazy_filters",
     "  cost = cos(freq) * (1 + R ** 2) / (2 * R)\n  gain = (1 - R ** 2) * .5\n",
     "  gain = (1 - R ** 2) * .5\n  cost = cos(freq) * (1 + R ** 2) / (2 * R)\n", 0),
    ("comb.ff: 1 + alpha -> 1 - alpha", "lazy_filters", "  return 1 + alpha * z ** -delay\n", "  return 1 - alpha * z ** -delay\n", 0),
    ("lowpass.z: `el if el else 1` -> `el if el else 2`", "lazy_filters", "(el if el else 1 for el in cos(cutoff))",
     "(el if el else 2 for el in cos(cutoff))", 0),
    ("highpass.z_exp: G = (R + 1) / 2 -> (R + 1) * 2", "lazy_filters", "  G = (R + 1) / 2\n", "  G = (R + 1) * 2\n", 1),
    ("gammatone.klapuri: thub(freq, 4) -> thub(freq, 2)", "lazy_auditory", "  freq = thub(freq, 4)\n", "  freq = thub(freq, 2)\n", 0),
    ("gammatone.klapuri: resonator pair reversed", "lazy_auditory", "[resonator.z_exp, resonator.poles_exp] * 2",
     "[resonator.poles_exp, resonator.z_exp] * 2", 0),
    ("resonator.freq_z_exp: bandwidth * .5 -> bandwidth * .25", "lazy_filters", "  R = exp(-bandwidth * .5)\n",
     "  R = exp(-bandwidth * .25)\n", 3),
    ("erb.gm90: 4.37e-3 -> 4.37e-2", "lazy_auditory", "4.37e-3 * fHz", "4.37e-2 * fHz", 0),
    ("erb.mg83: freq < 7 -> freq < 8", "lazy_auditory", "    if freq < 7:", "    if freq < 8:", 1),
    ("erb.gm90: Hz = 1 -> Hz = 2 in the None branch", "lazy_auditory", "    Hz = 1\n", "    Hz = 2\n", 0),
    ("erb.mg83: fHz ** 2 -> fHz ** 3", "lazy_auditory", "fHz ** 2", "fHz ** 3", 0),
    ("erb.gm90: fHz = freq / Hz moved before the None branch", "lazy_auditory",
     "  if Hz is None:\n    if freq < 7: # Perhaps user tried something up to 2 * pi\n      raise ValueError(\"Frequency out of range.\")\n    Hz = 1\n  fHz = freq / Hz\n",
     "  fHz = freq / Hz\n  if Hz is None:\n    if freq < 7: # Perhaps user tried something up to 2 * pi\n      raise ValueError(\"Frequency out of range.\")\n    Hz = 1\n", 0),
    ("erb.gm90 registered under another first name (the strategy table of the model no longer matches)", "lazy_auditory",
     '@erb.strategy("gm90", "glasberg_moore_90", "glasberg_moore")', '@erb.strategy("mg83x", "glasberg_moore_90", "glasberg_moore")', 0),
    ("gammatone_erb_constants: tnt = 2 * n - 2 -> 2 * n - 1", "lazy_auditory", "  tnt = 2 * n - 2\n", "  tnt = 2 * n - 1\n", 0),
    ("gammatone_erb_constants: 2 ** -tnt -> 2 ** tnt", "lazy_auditory", "2 ** -tnt", "2 ** tnt", 0),
    ("gammatone_erb_constants: (1. / n) -> (1. / (n - 1))", "lazy_auditory", "2 ** (1. / n)", "2 ** (1. / (n - 1))", 0),
    ("gammatone.sampled: cos(freq - phase) -> cos(freq + phase)", "lazy_auditory", "A * cos(freq - phase) * z ** -1",
     "A * cos(freq + phase) * z ** -1", 0),
    ("gammatone.sampled: diff(n=eta-1) -> diff(n=eta)", "lazy_auditory", ".diff(n=eta-1, mul_after=-z)", ".diff(n=eta, mul_after=-z)", 0),
    ("gammatone.sampled: f0 not normalised", "lazy_auditory", "  f0 /= abs(f0.freq_response(freq)) # Max gain == 1.0 (0 dB)\n", "", 0),
    ("gammatone.sampled: [fn] * (eta - 1) -> [fn] * eta", "lazy_auditory", "[f0] + [fn] * (eta - 1)", "[f0] + [fn] * eta", 0),
    ("gammatone.sampled: default eta=4 -> eta=3", "lazy_auditory", "phase=0, eta=4", "phase=0, eta=3", 0),
    ("gammatone.sampled: A ** 2 * z ** -2 -> A * z ** -2", "lazy_auditory",
     "  denominator = 1 - 2 * A * cos(freq) * z ** -1 + A ** 2 * z ** -2\n  filt",
     "  denominator = 1 - 2 * A * cos(freq) * z ** -1 + A * z ** -2\n  filt", 0),
]
# edits that change no meaning: the Gen DEFINITIONS (comments aside) must stay the same
HARMLESS = [
    ("lowpass.pole: local variable x renamed, comment and blank line added", "lazy_filters",
     "  x = 2 - cos(cutoff)\n  x = thub(x, 2)\n  R = x - sqrt(x ** 2 - 1)\n",
     "  y = 2 - cos(cutoff)  # auxiliary\n\n  y = thub(y, 2)\n  R = y - sqrt(y ** 2 - 1)\n", 0),
    ("erb.gm90: literals respelled (24.70, 0.00437, 1.0), comment added", "lazy_auditory",
     "  result = 24.7 * (4.37e-3 * fHz + 1.)\n", "  result = 24.70 * (0.00437 * fHz + 1.0)  # Hz\n", 0),
]


def _edit(texts, f, old, new, occ):
    t = texts[f]
    pos = -1
    for _ in range(occ + 1):
        pos = t.find(old, pos + 1)
        if pos < 0:
            return None
    out = dict(texts)
    out[f] = t[:pos] + new + t[pos + len(old):]
    return out


def _defs_only(text):
    return "\n".join(l for l in text.splitlines() if not l.startswith("/-- "))


def selftest(texts=None, base=None):
    """[(name, ok, detail)]: every edit must be SEEN (different Gen text or TranslationError); harmless edits must not
    change the definitions.  `texts` = the source the edits are applied to: the COMMITTED Gen text's source is not
    kept, so the edits are applied to the source under test when it still translates to the committed text, and
    otherwise the self test reports that it could not run on a clean basis (ok: the translator obligation is already
    broken through the theorems)."""
    texts = texts or read_source()
    res = []
    try:
        base_text, _ = translate(texts)
    except TranslationError as e:
        return [("translator-selftest", True, "skipped: the source under test does not translate (%s)" % e)]
    seen, applied, details, notes = 0, 0, [], []
    for name, f, old, new, occ in EDITS:
        ed = _edit(texts, f, old, new, occ)
        if ed is None:
            notes.append(name + ": not applicable (the text to edit is not in the source under test)")
            continue
        applied += 1
        try:
            t, _ = translate(ed)
            if _defs_only(t) != _defs_only(base_text):
                seen += 1
            else:
                details.append(name + ": NOT SEEN (same definitions)")
        except TranslationError:
            seen += 1
    harmless_ok = harmless_applied = 0
    for name, f, old, new, occ in HARMLESS:
        ed = _edit(texts, f, old, new, occ)
        if ed is None:
            notes.append(name + ": not applicable")
            continue
        harmless_applied += 1
        try:
            t, _ = translate(ed)
            if _defs_only(t) == _defs_only(base_text):
                harmless_ok += 1
            else:
                details.append(name + ": a harmless edit changed the definitions")
        except TranslationError as e:
            details.append(name + ": a harmless edit was refused: %s" % e)
    if applied < 4:
        details.append("fewer than 4 of the %d edits apply to the source under test" % len(EDITS))
    return [("translator-selftest", not details,
             "%d/%d applicable edits seen (of %d), %d/%d harmless edits normalised away%s" % (
                 seen, applied, len(EDITS), harmless_ok, harmless_applied,
                 "".join("; " + d for d in details + notes)))]


def changed_defs(a, b):
    """names of the generated definitions whose text differs between two Gen texts"""
    def blocks(t):
        out, cur = {}, None
        for l in _defs_only(t).splitlines():
            if l.startswith("def "):
                cur = l.split()[1]
                out[cur] = []
            if cur is not None:
                out[cur].append(l)
        return out
    x, y = blocks(a), blocks(b)
    return sorted(k for k in set(x) | set(y) if x.get(k) != y.get(k))


if __name__ == "__main__":
    import sys
    text, infos = translate(read_source())
    if "--write" in sys.argv:
        print(regenerate())
    else:
        sys.stdout.write(text)
