"""C18 — the file life-cycle of WavStream observed on REAL handles (entry "res"), and RIFF files
written by this harness' own writer (extra chunks, odd sizes, extensible format, declared sizes that
lie), used by the "wav" and "res" entries alike.

A res case = one WavStream over one file, handed over as a name (`str`, `bytes`, path-like), as an OS
file object of the caller (buffered / raw) or as `io.BytesIO`, then a history of events: "n" = one
`next()`, "c" = the last references are dropped and the garbage is collected.  After the construction
and after every event the process is looked at:
  * /proc/self/fd: descriptors whose target is the wave file, minus the caller's own;
  * with "spy": every file object `builtins.open` created on that path (a BufferedReader subclass that
    counts `close()` calls; the harness keeps it alive, so "still open when the stream object is gone"
    is reported as abandoned);
  * without "spy": nothing is patched; ResourceWarnings naming the path are collected (abandoned);
  * the caller's own handles (the file object given, and unrelated files it holds): still open, never closed;
  * `Wave_read.getfp()`.
The Lean machine `ALV.C18.rTrace` predicts every one of these snapshots.
"""
import builtins, gc, io, os, struct, sys, warnings, wave, pathlib
from fractions import Fraction

SOURCES = ["str", "bytes", "pathlike", "fileobj", "fileobj_raw", "bytesio"]
MODEL_SRC = {"str": "name", "bytes": "refused", "pathlike": "refused", "fileobj": "fileobj",
             "fileobj_raw": "fileobj", "bytesio": "memory"}
BADS = ["notriff", "notwave", "empty", "nofmt", "nodata", "shortfmt", "zerochannels", "zerowidth", "badtag"]
PCM_GUID = b"\x01\x00\x00\x00\x00\x00\x10\x00\x80\x00\x00\xaa\x00\x38\x9b\x71"


def pcm_bytes(bits, samples):
    w = (bits + 7) // 8
    if w == 1:
        return bytes(s & 0xFF for s in samples)
    return b"".join(int(s).to_bytes(w, "little", signed=True) for s in samples)


def _chunk(name, body, declared=None, pad=True):
    size = len(body) if declared is None else declared
    out = name + struct.pack("<L", size) + body
    if pad and len(body) % 2:
        out += b"\x00"
    return out


def riff_bytes(c):
    """the complete file, by this harness' own RIFF writer; c["riff"] holds the deviations from the plain
    44-byte-header file: pre/mid/post = lists of [name, length] extra chunks, ext = WAVE_FORMAT_EXTENSIBLE,
    fmt_extra = trailing bytes of the fmt chunk (cbSize), data_delta = declared data size minus the real one,
    riff_delta = the same for the outer RIFF size, bad = a file the header parser must refuse"""
    r = c.get("riff") or {}
    bits, ch, rate = c["bits"], c["channels"], c["rate"]
    w = (bits + 7) // 8
    data = pcm_bytes(bits, c["samples"])
    if c.get("cut"):
        data = data[: max(0, len(data) - c["cut"])]
    bad = c.get("bad")
    if bad == "empty":
        return b""
    if bad == "zerochannels":
        ch = 0
    fbits = 0 if bad == "zerowidth" else bits
    tag = 0xFFFE if r.get("ext") else 1
    if bad == "badtag":
        tag = 3                                            # IEEE float: not PCM
    fmt = struct.pack("<HHLLHH", tag, ch, rate, (rate * ch * w) & 0xFFFFFFFF, ch * w, fbits)
    if r.get("ext"):
        fmt += struct.pack("<HHL", 22, fbits, 3 if ch == 2 else 4) + PCM_GUID
    fmt += bytes(r.get("fmt_extra", 0))
    if bad == "shortfmt":
        fmt = fmt[:10]

    def extras(lst):
        return b"".join(_chunk(n.encode("ascii"), bytes((7 * i + k) & 0xFF for k in range(ln)))
                        for i, (n, ln) in enumerate(lst))
    body = b"WAVE" if bad != "notwave" else b"WAVX"
    body += extras(r.get("pre", []))
    if bad != "nofmt":
        body += _chunk(b"fmt ", fmt)
    body += extras(r.get("mid", []))
    if bad != "nodata":
        body += _chunk(b"data", data, declared=max(0, len(data) + r.get("data_delta", 0)),
                       pad=not r.get("no_data_pad"))
    body += extras(r.get("post", []))
    head = b"RIFF" if bad != "notriff" else b"RIFX"
    return head + struct.pack("<L", max(0, len(body) + r.get("riff_delta", 0))) + body


# ----------------------------------------------------------------------------------------------
def fd_targets():
    out = {}
    for f in os.listdir("/proc/self/fd"):
        try:
            out[int(f)] = os.readlink("/proc/self/fd/" + f)
        except OSError:
            pass                                           # the descriptor of this very listing
    return out


class SpyReader(io.BufferedReader):
    """what builtins.open(path, 'rb') returns, counting close() calls"""
    def __init__(self, raw):
        io.BufferedReader.__init__(self, raw)
        self.close_calls = 0

    def close(self):
        self.close_calls += 1
        io.BufferedReader.close(self)


class SpyRaw(io.FileIO):
    def __init__(self, *a):
        io.FileIO.__init__(self, *a)
        self.close_calls = 0

    def close(self):
        self.close_calls += 1
        io.FileIO.close(self)


class _PathLike(object):
    def __init__(self, p):
        self.p = p

    def __fspath__(self):
        return self.p


_COUNTER = [0]


def impl_res(c, tmpdir, kind_of, enc):
    from audiolazy import WavStream
    blob = riff_bytes(c)
    _COUNTER[0] += 1
    path = os.path.realpath(os.path.join(tmpdir, "r%d.wav" % _COUNTER[0]))
    with open(path, "wb") as f:
        f.write(blob)
    spy = c.get("spy", True)
    source = c["source"]
    spies, others, mine = [], [], None
    real_open = builtins.open

    def spy_open(file, mode="r", *a, **k):
        try:
            same = isinstance(file, (str, bytes, os.PathLike)) and \
                os.path.realpath(os.fsdecode(file)) == path
        except Exception:
            same = False
        if same and mode == "rb" and not a and not k:
            fo = SpyReader(io.FileIO(file, "r"))
            spies.append(fo)
            return fo
        return real_open(file, mode, *a, **k)

    def snapshot(ws_alive, after_collect):
        fds = fd_targets()
        caller_fds = set()
        caller_ok = True
        for fo in others + ([mine] if mine is not None and hasattr(mine, "fileno") and source != "bytesio" else []):
            if fo.closed or getattr(fo, "close_calls", 0):
                caller_ok = False
            else:
                caller_fds.add(fo.fileno())
                if fo.fileno() not in fds:
                    caller_ok = False
        if source == "bytesio" and mine is not None and mine.closed:
            caller_ok = False
        spy_fds = set()
        s = {"caller_ok": caller_ok}
        if spy:
            hs = []
            for fo in spies:
                ab = after_collect and not fo.closed          # its owner is gone: only the harness holds it
                hs.append({"open": (not fo.closed) and not ab, "closes": fo.close_calls, "abandoned": ab})
                if not fo.closed:
                    spy_fds.add(fo.fileno())
            s["handles"] = hs
        # descriptors on the wave file that are not the caller's: what the stream holds
        held = sorted(fd for fd, t in fds.items() if t == path and fd not in caller_fds)
        s["fds"] = len([fd for fd in held if not (after_collect and fd in spy_fds)])
        s["fp"] = (ws_alive._file.getfp() is not None) if ws_alive is not None else None
        return s

    obs = {"trace": []}
    ws = it = None
    rec = []
    try:
        for _ in range(c.get("others", 0)):
            others.append(real_open(os.devnull, "rb"))
        if source == "fileobj":
            mine = SpyReader(io.FileIO(path, "r"))
        elif source == "fileobj_raw":
            mine = SpyRaw(path, "r")
        elif source == "bytesio":
            mine = io.BytesIO(blob)
        arg = {"str": path, "bytes": os.fsencode(path),
               "pathlike": pathlib.Path(path) if c.get("pathkind", "pathlib") == "pathlib" else _PathLike(path)
               }.get(source, mine)
        obs["fds_before"] = snapshot(None, False)["fds"]
        with warnings.catch_warnings(record=True) as rec:
            warnings.simplefilter("always")
            if spy:
                builtins.open = spy_open
            try:
                try:
                    shape = c.get("keep_shape", "pos")
                    # `keep` is a flag: any truthy / falsy spelling of it
                    kv = {"int": 1 if c["keep"] else 0, "obj": "yes" if c["keep"] else None,
                          "float": 0.5 if c["keep"] else 0.0}.get(c.get("keep_spell"), c["keep"])
                    if shape == "kw":
                        ws = WavStream(arg, keep=kv)
                    elif shape == "allkw":
                        ws = WavStream(wave_file=arg, keep=kv)
                    elif shape == "omit" and not c["keep"]:
                        ws = WavStream(arg)
                    else:
                        ws = WavStream(arg, kv)
                except Exception as e:
                    obs["open"] = "error"
                    obs["open_err"] = kind_of(e)
                else:
                    obs["open"] = "ok"
                    obs["hdr"] = [ws.rate, ws.channels, ws.bits]
                arg = None
                obs["after_open"] = snapshot(ws, False)
                if ws is not None:
                    it = iter(ws)
                    collected = False
                    for ev in c["events"]:
                        step = {"ev": ev}
                        if ev == "n":
                            if collected:
                                step["obs"] = None
                            else:
                                try:
                                    x = next(it)
                                    step["obs"] = {"item": enc(x)}
                                    step["type"] = type(x).__name__
                                    del x
                                except StopIteration:
                                    step["obs"] = "stop"
                                except Exception as e:
                                    step["obs"] = kind_of(e)
                        else:
                            step["obs"] = None
                            if not collected:
                                ws = it = None
                                step["fds_before_gc"] = snapshot(None, False)["fds"]
                                gc.collect(1)
                                if snapshot(None, True)["fds"]:
                                    gc.collect()
                                collected = True
                        step.update(snapshot(ws, collected))
                        obs["trace"].append(step)
            finally:
                builtins.open = real_open
            ws = it = None
        obs["warnings"] = sum(1 for w in rec if issubclass(w.category, ResourceWarning) and path in str(w.message))
        return obs
    finally:
        builtins.open = real_open
        ws = it = None
        with warnings.catch_warnings():
            warnings.simplefilter("ignore")
            for fo in spies + others + ([mine] if mine is not None else []):
                try:
                    if isinstance(fo, SpyReader):
                        io.BufferedReader.close(fo)
                    elif isinstance(fo, SpyRaw):
                        io.FileIO.close(fo)
                    else:
                        fo.close()
                except Exception:
                    pass
            gc.collect(1)
        try:
            os.remove(path)
        except OSError:
            pass


# ----------------------------------------------------------------------------------------------
def n_pre(c):
    return c.get("others", 0) + (1 if c["source"] in ("fileobj", "fileobj_raw") else 0)


def _match_handles(step, mstep, spy):
    """real snapshot against the model's handle table"""
    mh = [h for h in mstep["handles"] if h["owner"] == "stream"]
    mc = [h for h in mstep["handles"] if h["owner"] == "caller"]
    bad = []
    if any((not h["open"]) or h["closes"] or h["abandoned"] for h in mc) != (not step["caller_ok"]):
        bad.append("caller's handles: impl ok=%s" % step["caller_ok"])
    if step["fds"] != sum(1 for h in mh if h["open"]):
        bad.append("descriptors held on the file: impl=%d model=%d" % (step["fds"], sum(1 for h in mh if h["open"])))
    if spy:
        got = [[h["open"], h["closes"], h["abandoned"]] for h in step["handles"]]
        want = [[h["open"], h["closes"], h["abandoned"]] for h in mh]
        if got != want:
            bad.append("file objects opened on the path [open, close() calls, abandoned]: impl=%s model=%s" % (got, want))
    if step.get("fp") is not None and "fp" in mstep and step["fp"] != mstep["fp"]:
        bad.append("getfp() is not None: impl=%s model=%s" % (step["fp"], mstep["fp"]))
    return bad


def _against(c, o, m):
    """all differences between the real run and ONE model prediction"""
    spy = c.get("spy", True)
    bad = []
    if o["open"] != m["open"]:
        return ["constructor: impl=%s%s model=%s" % (o["open"], "/" + o.get("open_err", "") if o["open"] == "error" else "",
                                                    m["open"])]
    if m["open"] == "error":
        if m.get("parse_err") and o.get("open_err") != m["parse_err"] and c["source"] not in ("bytes", "pathlike"):
            bad.append("constructor raised %s, the Lean RIFF reader says %s" % (o.get("open_err"), m["parse_err"]))
        return bad + ["after the failed constructor: " + d for d in _match_handles(o["after_open"], {"handles": m["handles"]}, spy)]
    bad += ["after the constructor: " + d for d in _match_handles(o["after_open"], m, spy)]
    if o["hdr"] != [m["hdr"]["rate"], m["hdr"]["channels"], m["hdr"]["bits"]]:
        bad.append("rate/channels/bits: impl=%s model=%s" % (o["hdr"], m["hdr"]))
    if len(o["trace"]) != len(m["trace"]):
        return bad + ["trace lengths differ"]
    ab = 0
    for t, (step, ms) in enumerate(zip(o["trace"], m["trace"])):
        if step["obs"] != ms["obs"]:
            bad.append("event %d (%s): impl shows %s, model %s" % (t, step["ev"], step["obs"], ms["obs"]))
        elif isinstance(step["obs"], dict) and step.get("type") != m["kind"]:
            bad.append("event %d: item of type %s, model %s" % (t, step.get("type"), m["kind"]))
        bad += ["after event %d (%s): %s" % (t, step["ev"], d) for d in _match_handles(step, ms, spy)]
        ab = sum(1 for h in ms["handles"] if h["abandoned"])
    if not spy and o.get("warnings", 0) != ab:
        bad.append("ResourceWarnings about the file: impl=%d model=%d" % (o.get("warnings", 0), ab))
    if m.get("expect") is not None and [s["obs"] for s in o["trace"]] != m["expect"]:
        bad.append("next() results differ from expectObs (theorem res_next_values): impl=%s model=%s" % (
            [s["obs"] for s in o["trace"]], m["expect"]))
    return bad


def in_property(c):
    r = c.get("riff") or {}
    return (not c.get("bad") and not c.get("cut") and c["bits"] in (8, 16, 24, 32) and c["channels"] in (1, 2)
            and not r.get("data_delta") and not r.get("riff_delta"))


def spec_values(c, enc):
    bits = c["bits"]
    if c["keep"]:
        return [enc(s) for s in c["samples"]], "int"
    d = 1 << (bits - 1)
    return [enc(Fraction((s - 128) if bits == 8 else s, d)) for s in c["samples"]], "float"


def compare_res(c, o, drv, enc, dec):
    out = []
    cands = [drv["main"], drv["alt"]] if "alt" in drv else [drv]
    diffs = [_against(c, o, m) for m in cands]
    if all(diffs):
        pick = min(diffs, key=len)
        out.append(("model", "file life-cycle differs from the model (source %s): %s" % (c["source"], "; ".join(pick[:4]))))
    # ---- the property in its own words -----------------------------------------------------------
    spy = c.get("spy", True)

    def leaked(step):
        if step["fds"]:
            return "%d descriptor(s) of the process still on the file" % step["fds"]
        if spy and any(h["open"] or h["abandoned"] for h in step["handles"]):
            return "a file object opened on the path is not closed: %s" % (step["handles"],)
        return None
    if o["open"] == "error":
        lk = leaked(o["after_open"])
        if lk and not c["source"] in ("fileobj", "fileobj_raw"):
            out.append(("spec", "the constructor raised %s and left the file open: %s" % (o.get("open_err"), lk)))
        if not o["after_open"]["caller_ok"]:
            out.append(("spec", "the failed constructor closed a handle of the caller"))
        return out
    if not in_property(c):
        # outside the property's quantifier the handles of the CALLER are still his
        if any(not s["caller_ok"] for s in o["trace"]):
            out.append(("spec", "a handle of the caller was closed"))
        return out
    if o["hdr"] != [c["rate"], c["channels"], c["bits"]]:
        out.append(("spec", "rate/channels/bits do not mirror the header: %r" % (o["hdr"],)))
    want, kind = spec_values(c, enc)
    items = [s for s in o["trace"] if isinstance(s["obs"], dict)]
    got = [s["obs"]["item"] for s in items]
    if got != want[: len(got)] or any(s.get("type") != kind for s in items):
        out.append(("spec", "samples differ from the spec: impl=%s spec=%s" % (got[:12], want[:12])))
    if not c["keep"] and any(not (-1 <= dec(x) < 1) for x in got):
        out.append(("spec", "normalised sample outside [-1,1)"))
    seen_end = False
    for t, s in enumerate(o["trace"]):
        if s["ev"] == "n" and s["obs"] is not None and not isinstance(s["obs"], dict):
            if s["obs"] != "stop" and not seen_end:
                out.append(("spec", "next() raised %s on a well-formed file" % (s["obs"],)))
            seen_end = True
        if not s["caller_ok"]:
            out.append(("spec", "a handle of the caller was closed (event %d)" % t))
            break
        if seen_end and s["ev"] == "n":
            lk = leaked(s)
            if lk:
                out.append(("spec", "file still open after the stream was exhausted (event %d of %s, stream object "
                            "alive, source %s): %s" % (t, "".join(e["ev"] for e in o["trace"]), c["source"], lk)))
                break
    if not spy and o.get("warnings"):
        out.append(("spec", "ResourceWarning: the file was left to the runtime to close"))
    return out
