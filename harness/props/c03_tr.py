"""C03 — translator of the method bodies of `Stream` / `StreamTeeHub` (audiolazy/lazy_stream.py).

Reads the SOURCE TEXT with `ast` (nothing is imported from the repo) and writes `lean/ALV/Gen/C03Src.lean`: for
every translated method a value of the program type of `lean/ALV/Model/C03Src.lean` (`ALV.C03.Src.Body` /
`HubBody`: a deep embedding of the Python subset the bodies are written in) plus the table of signatures.
`Props/C03.lean` proves `src_<method>_is_model`: the interpretation (`ALV.C03.Src.stepP`, `takeP`, `copyP`, `wrapP`)
of the regenerated program is the hand-written model function (`ALV.C03.step` on that operation).

Accepted subset (anything else inside a translated function is a TranslationError = broken obligation):

  statements   docstring | `if COND: return RET` | `if COND: n = CE` | `a, b = it.tee(IE)` | `self._data = IE` |
               `return RET` | `raise Name(...)` | a nested generator `def g(p)` that matches the skipper template
               (`for _ in xrange(CE): try: next(p) except StopIteration: return` then `for v in p: yield v`)
  COND         `n is None` | `isinf(n)` | `n > 0` | `isinstance(n, float)` | `COND and COND`
  CE           `n` | int literal | `None` | `rint(CE)` | `round(CE)` | `int(CE)` | `max(CE, CE)` | `CE if COND else CE`
  IE           `self._data` | tee-bound local | `it.islice(IE, CE)` | `it.chain(IE, IE)` | `xmap(func, IE)` |
               `xfilter(func, IE)` | `g(IE)` (the nested generator) | `Stream(*other)._data`
  RET          `next(IE)` | `constructor(IE)` | `self` | `Stream(IE)` | `self.copy().take(n=CE, constructor=constructor)`
  Stream.__init__  a tree of `if C: … elif C: … else: …` with ONE statement per arm; C = `len(dargs) == k` |
               `isinstance(dargs[0], Iterable)` | `all(isinstance(v, Iterable) for v in dargs)` |
               `not any(isinstance(v, Iterable) for v in dargs)`; leaves `raise Name(...)` | `self._data = ` `iter(dargs[0])` |
               `it.repeat(dargs[0])` | `it.chain(*[iter(v) for v in dargs])` | `it.cycle(dargs)`
  thub         `return ARM if isinstance(name, name) else ARM`, ARM = `data` | `StreamTeeHub(names)`
  hub __init__ `super(StreamTeeHub, self).__init__(names)` | `v = super(StreamTeeHub, self).__iter__()` |
               `self._iters = list(it.tee(name, name))`
  tee          `if isinstance(name, (names)): return ARM` `else: return ARM` (or fall-through), ARM =
               `tuple(Stream(v) for v in it.tee(name, name))` | `tuple(name for v in xrange(name))`
  hub methods  `name = wraps(Stream.name)(lambda self, PARAMS: Stream(self).METH(ARGS))` |
               `if self._iters:` BODY-with-`self._iters[0]`-as-data-slot, then `iter(self)` |
               `try: return self._iters.pop()  except IndexError: raise Name(...)` | a plain body

Normalised away: whitespace, comments, docstrings, the names of tee-bound locals (renamed t0, t1, … in binding
order; locals of StreamTeeHub.__init__: v0, v1, …), the generator variables of tee and of Stream.__init__, the name of the nested generator and of its loop variables, the message of a `raise`.
"""
import ast
import os

import common

GEN_REL = os.path.join("ALV", "Gen", "C03Src.lean")
SRC_REL = os.path.join("audiolazy", "lazy_stream.py")

STREAM_METHODS = ("take", "copy", "peek", "skip", "limit", "append", "map", "filter")
HUB_DEFS = ("take", "copy", "__iter__")
HUB_LAMBDAS = ("limit", "skip", "append", "map", "filter")
# anchored functions that stay hand-modelled (reported in the evidence)
NOT_TRANSLATED = {
    "Stream.__iter__": "`return self._data`: the object plumbing of the history model (pool of objects), no body to translate",
    "StreamTeeHub.__del__": "object-lifetime effect outside the Lean model (behavioural extra check)",
    "count spellings (elabTake / elabLimit / elabSkip)": "what CPython's isinf / round / islice accept for bool, Fraction, huge ints: "
                                                        "semantics of builtins, not source text of the repo",
}


class TranslationError(Exception):
    pass


def _fail(node, what):
    raise TranslationError("line %s: %s: %s" % (getattr(node, "lineno", "?"), what, ast.unparse(node)[:100]))


ISRC_REL = os.path.join("audiolazy", "lazy_itertools.py")


def read_isource():
    with open(os.path.join(common.REPO, ISRC_REL)) as f:
        return f.read()


def read_source():
    with open(os.path.join(common.REPO, SRC_REL)) as f:
        return f.read()


# ------------------------------------------------------------------------------------------------
# expressions
# ------------------------------------------------------------------------------------------------
def _is_name(node, name):
    return isinstance(node, ast.Name) and node.id == name


def _plain_call(node, nargs):
    return (isinstance(node, ast.Call) and not node.keywords and len(node.args) == nargs
            and not any(isinstance(a, ast.Starred) for a in node.args))


def _is_self_attr(node, attr):
    return isinstance(node, ast.Attribute) and node.attr == attr and _is_name(node.value, "self")


def _is_it(node, attr):
    return isinstance(node, ast.Attribute) and node.attr == attr and _is_name(node.value, "it")


def cond(node):
    if isinstance(node, ast.Compare) and len(node.ops) == 1 and _is_name(node.left, "n"):
        op, rhs = node.ops[0], node.comparators[0]
        if isinstance(op, ast.Is) and isinstance(rhs, ast.Constant) and rhs.value is None:
            return ".isNone"
        if isinstance(op, ast.Gt) and isinstance(rhs, ast.Constant) and type(rhs.value) is int and rhs.value == 0:
            return ".pos"
        _fail(node, "comparison outside the subset (`n is None`, `n > 0`)")
    if (isinstance(node, ast.Compare) and len(node.ops) == 1 and isinstance(node.ops[0], ast.Lt)
            and isinstance(node.left, ast.Constant) and type(node.left.value) is int and node.left.value == 0
            and _is_name(node.comparators[0], "n")):
        return ".pos"                                        # `0 < n`
    if _plain_call(node, 1) and _is_name(node.func, "isinf") and _is_name(node.args[0], "n"):
        return ".isInf"
    if (_plain_call(node, 2) and _is_name(node.func, "isinstance") and _is_name(node.args[0], "n")
            and _is_name(node.args[1], "float")):
        return ".isFloat"
    if isinstance(node, ast.BoolOp) and isinstance(node.op, ast.And):
        out = cond(node.values[-1])
        for v in reversed(node.values[:-1]):
            out = "(.and %s %s)" % (cond(v), out)
        return out
    _fail(node, "condition outside the subset")


def ce(node):
    if _is_name(node, "n"):
        return ".n"
    if isinstance(node, ast.Constant):
        if node.value is None:
            return ".none"
        if type(node.value) is int:
            return "(.lit (%d))" % node.value
        _fail(node, "constant outside the subset (int, None)")
    if isinstance(node, ast.UnaryOp) and isinstance(node.op, ast.USub) and isinstance(node.operand, ast.Constant) \
            and type(node.operand.value) is int:
        return "(.lit (%d))" % -node.operand.value
    if isinstance(node, ast.Call) and isinstance(node.func, ast.Name) and not node.keywords:
        f = node.func.id
        if f in ("rint", "round", "int") and _plain_call(node, 1):
            return "(.%s %s)" % (f, ce(node.args[0]))
        if f == "max" and _plain_call(node, 2):
            return "(.max %s %s)" % (ce(node.args[0]), ce(node.args[1]))
    if isinstance(node, ast.IfExp):
        return "(.ite %s %s %s)" % (cond(node.test), ce(node.body), ce(node.orelse))
    _fail(node, "count expression outside the subset")


class Scope:
    """what the translator knows inside one method body"""

    def __init__(self, data_slot):
        self.data_slot = data_slot      # predicate: is this node the data slot (`self._data` / `self._iters[0]`)?
        self.locals = {}                # tee-bound local -> normalised name
        self.gens = {}                  # nested generator name -> CE of its count


def _is_data(node):
    return _is_self_attr(node, "_data")


def _is_iters0(node):
    return (isinstance(node, ast.Subscript) and _is_self_attr(node.value, "_iters")
            and isinstance(node.slice, ast.Constant) and type(node.slice.value) is int and node.slice.value == 0)


def ie(node, sc):
    if sc.data_slot(node):
        return ".data"
    if isinstance(node, ast.Name) and node.id in sc.locals:
        return '(.var "%s")' % sc.locals[node.id]
    if isinstance(node, ast.Attribute) and node.attr == "_data":
        v = node.value
        if (isinstance(v, ast.Call) and _is_name(v.func, "Stream") and not v.keywords and len(v.args) == 1
                and isinstance(v.args[0], ast.Starred) and _is_name(v.args[0].value, "other")):
            return ".others"
    if isinstance(node, ast.Call) and not node.keywords:
        f = node.func
        if _is_it(f, "islice") and _plain_call(node, 2):
            return "(.islice %s %s)" % (ie(node.args[0], sc), ce(node.args[1]))
        if _is_it(f, "chain") and _plain_call(node, 2):
            return "(.chain %s %s)" % (ie(node.args[0], sc), ie(node.args[1], sc))
        if isinstance(f, ast.Name) and f.id in ("xmap", "xfilter") and _plain_call(node, 2) \
                and _is_name(node.args[0], "func"):
            return "(.%s %s)" % (f.id, ie(node.args[1], sc))
        if isinstance(f, ast.Name) and f.id in sc.gens and _plain_call(node, 1):
            return "(.skipper %s %s)" % (sc.gens[f.id], ie(node.args[0], sc))
    _fail(node, "iterator expression outside the subset")


def ret(node, sc):
    if node is None:
        _fail(ast.Constant(None), "bare return")
    if _is_name(node, "self"):
        return ".self"
    if isinstance(node, ast.Call):
        f = node.func
        if _is_name(f, "next") and _plain_call(node, 1):
            return "(.next %s)" % ie(node.args[0], sc)
        if _is_name(f, "constructor") and _plain_call(node, 1):
            return "(.ctor %s)" % ie(node.args[0], sc)
        if _is_name(f, "Stream") and _plain_call(node, 1):
            return "(.stream %s)" % ie(node.args[0], sc)
        # self.copy().take(n=CE, constructor=constructor)
        if (isinstance(f, ast.Attribute) and f.attr == "take" and isinstance(f.value, ast.Call)
                and not f.value.args and not f.value.keywords and isinstance(f.value.func, ast.Attribute)
                and f.value.func.attr == "copy" and _is_name(f.value.func.value, "self") and not node.args):
            kws = {k.arg: k.value for k in node.keywords}
            if None in kws or len(kws) != len(node.keywords) or not set(kws) <= {"n", "constructor"}:
                _fail(node, "keywords of take outside the subset")
            if "constructor" not in kws or not _is_name(kws["constructor"], "constructor"):
                _fail(node, "peek must hand its constructor to take")
            return "(.copyTake %s)" % ("(some %s)" % ce(kws["n"]) if "n" in kws else "none")
    _fail(node, "return value outside the subset")


# ------------------------------------------------------------------------------------------------
# statements
# ------------------------------------------------------------------------------------------------
def _skipper_template(fn):
    """nested generator -> CE of its count, or TranslationError"""
    a = fn.args
    if (fn.decorator_list or a.vararg or a.kwarg or a.kwonlyargs or a.defaults or getattr(a, "posonlyargs", None)
            or len(a.args) != 1):
        _fail(fn, "nested function outside the skipper template (signature)")
    p = a.args[0].arg
    body = [s for s in fn.body if not _is_doc(s)]
    if len(body) != 2 or not all(isinstance(s, ast.For) and not s.orelse for s in body):
        _fail(fn, "nested function outside the skipper template (two for loops)")
    l1, l2 = body
    if not (isinstance(l1.target, ast.Name) and _plain_call(l1.iter, 1) and _is_name(l1.iter.func, "xrange")):
        _fail(l1, "skipper template: first loop must run over xrange(count)")
    count = ce(l1.iter.args[0])
    ok = (len(l1.body) == 1 and isinstance(l1.body[0], ast.Try) and not l1.body[0].orelse and not l1.body[0].finalbody
          and len(l1.body[0].body) == 1 and isinstance(l1.body[0].body[0], ast.Expr)
          and _plain_call(l1.body[0].body[0].value, 1) and _is_name(l1.body[0].body[0].value.func, "next")
          and _is_name(l1.body[0].body[0].value.args[0], p)
          and len(l1.body[0].handlers) == 1 and _is_name(l1.body[0].handlers[0].type, "StopIteration")
          and l1.body[0].handlers[0].name is None and len(l1.body[0].handlers[0].body) == 1
          and isinstance(l1.body[0].handlers[0].body[0], ast.Return) and l1.body[0].handlers[0].body[0].value is None)
    if not ok:
        _fail(l1, "skipper template: loop body must be `try: next(%s)` / `except StopIteration: return`" % p)
    ok = (isinstance(l2.target, ast.Name) and _is_name(l2.iter, p) and len(l2.body) == 1
          and isinstance(l2.body[0], ast.Expr) and isinstance(l2.body[0].value, ast.Yield)
          and _is_name(l2.body[0].value.value, l2.target.id))
    if not ok:
        _fail(l2, "skipper template: second loop must be `for v in %s: yield v`" % p)
    return count


def _is_doc(s):
    return isinstance(s, ast.Expr) and isinstance(s.value, ast.Constant) and isinstance(s.value.value, str)


def _raise_kind(s):
    e = s.exc
    if s.cause is not None or e is None:
        _fail(s, "raise outside the subset")
    if isinstance(e, ast.Call) and isinstance(e.func, ast.Name):
        return e.func.id
    if isinstance(e, ast.Name):
        return e.id
    _fail(s, "raise outside the subset")


def stmts(body, sc, set_slot):
    """list of ast statements -> list of Lean `Stmt` terms"""
    out = []
    for s in body:
        if _is_doc(s):
            continue
        if isinstance(s, ast.FunctionDef):
            sc.gens[s.name] = _skipper_template(s)
            continue
        if isinstance(s, ast.If):
            if s.orelse or len(s.body) != 1:
                _fail(s, "if statement outside the subset (one statement, no else)")
            b = s.body[0]
            if isinstance(b, ast.Return):
                out.append("(.ifRet %s %s)" % (cond(s.test), ret(b.value, sc)))
            elif isinstance(b, ast.Assign) and len(b.targets) == 1 and _is_name(b.targets[0], "n"):
                out.append("(.ifSetN %s %s)" % (cond(s.test), ce(b.value)))
            else:
                _fail(s, "if body outside the subset")
            continue
        if isinstance(s, ast.Assign) and len(s.targets) == 1:
            t = s.targets[0]
            if (isinstance(t, ast.Tuple) and len(t.elts) == 2 and all(isinstance(e, ast.Name) for e in t.elts)
                    and _plain_call(s.value, 1) and _is_it(s.value.func, "tee")):
                src = ie(s.value.args[0], sc)
                names = []
                for e in t.elts:
                    sc.locals[e.id] = "t%d" % len(sc.locals) if e.id not in sc.locals else sc.locals[e.id]
                    names.append(sc.locals[e.id])
                out.append('(.tee2 "%s" "%s" %s)' % (names[0], names[1], src))
                continue
            if set_slot(t):
                out.append("(.setData %s)" % ie(s.value, sc))
                continue
            _fail(s, "assignment outside the subset")
        if isinstance(s, ast.Return):
            out.append("(.ret %s)" % ret(s.value, sc))
            continue
        if isinstance(s, ast.Raise):
            out.append('(.raise "%s")' % _raise_kind(s))
            continue
        _fail(s, "statement outside the subset")
    return out


def _lean_list(items):
    return "[" + ", ".join(items) + "]"


def body_of(fn):
    sc = Scope(_is_data)
    return _lean_list(stmts(fn.body, sc, _is_data))


def _sig(fn_or_lambda):
    a = fn_or_lambda.args
    if a.kwonlyargs or getattr(a, "posonlyargs", None):
        _fail(fn_or_lambda, "signature outside the subset")
    nd = len(a.defaults)
    out = []
    for i, p in enumerate(a.args):
        k = i - (len(a.args) - nd)
        out.append((p.arg, ast.unparse(a.defaults[k]) if k >= 0 else None))
    if a.vararg:
        out.append(("*" + a.vararg.arg, None))
    if a.kwarg:
        out.append(("**" + a.kwarg.arg, None))
    return out


# ------------------------------------------------------------------------------------------------
# hub methods
# ------------------------------------------------------------------------------------------------
def hub_lambda(name, value):
    """`wraps(Stream.<name>)(lambda self, PARAMS: Stream(self).METH(ARGS))`"""
    ok = (_plain_call(value, 1) and _plain_call(value.func, 1) and _is_name(value.func.func, "wraps")
          and isinstance(value.func.args[0], ast.Attribute) and value.func.args[0].attr == name
          and _is_name(value.func.args[0].value, "Stream") and isinstance(value.args[0], ast.Lambda))
    if not ok:
        _fail(value, "hub override outside the subset (wraps(Stream.%s)(lambda ...))" % name)
    lam = value.args[0]
    sig = _sig(lam)
    if not sig or sig[0] != ("self", None) or any(d is not None for _, d in sig):
        _fail(lam, "hub override: lambda parameters outside the subset")
    call = lam.body
    ok = (isinstance(call, ast.Call) and not call.keywords and isinstance(call.func, ast.Attribute)
          and _plain_call(call.func.value, 1) and _is_name(call.func.value.func, "Stream")
          and _is_name(call.func.value.args[0], "self"))
    if not ok:
        _fail(lam, "hub override: body must be Stream(self).METH(ARGS)")
    args = []
    for x in call.args:
        if isinstance(x, ast.Starred) and isinstance(x.value, ast.Name):
            args.append("*" + x.value.id)
        elif isinstance(x, ast.Name):
            args.append(x.id)
        else:
            _fail(x, "hub override: argument outside the subset")
    q = lambda names: _lean_list('"%s"' % n for n in names)
    return '(.viaStream "%s" %s %s)' % (call.func.attr, q([p for p, _ in sig[1:]]), q(args)), sig


def hub_def(fn):
    body = [s for s in fn.body if not _is_doc(s)]
    # try: return self._iters.pop()  except IndexError: raise K(...)
    if len(body) == 1 and isinstance(body[0], ast.Try):
        t = body[0]
        ok = (not t.orelse and not t.finalbody and len(t.body) == 1 and isinstance(t.body[0], ast.Return)
              and _plain_call(t.body[0].value, 0) and isinstance(t.body[0].value.func, ast.Attribute)
              and t.body[0].value.func.attr == "pop" and _is_self_attr(t.body[0].value.func.value, "_iters")
              and len(t.handlers) == 1 and _is_name(t.handlers[0].type, "IndexError") and t.handlers[0].name is None
              and len(t.handlers[0].body) == 1 and isinstance(t.handlers[0].body[0], ast.Raise))
        if not ok:
            _fail(t, "try statement outside the subset (return self._iters.pop() / except IndexError: raise)")
        return '(.popOr "%s")' % _raise_kind(t.handlers[0].body[0])
    # if self._iters: BODY ; iter(self)
    if len(body) == 2 and isinstance(body[0], ast.If) and _is_self_attr(body[0].test, "_iters"):
        tail = body[1]
        ok = (not body[0].orelse and isinstance(tail, ast.Expr) and _plain_call(tail.value, 1)
              and _is_name(tail.value.func, "iter") and _is_name(tail.value.args[0], "self"))
        if not ok:
            _fail(fn, "hub copy outside the subset (if self._iters: ... ; iter(self))")
        sc = Scope(_is_iters0)
        return "(.ifIters %s)" % _lean_list(stmts(body[0].body, sc, _is_iters0))
    sc = Scope(_is_data)
    return "(.plain %s)" % _lean_list(stmts(body, sc, _is_data))


# ------------------------------------------------------------------------------------------------
# thub / StreamTeeHub.__init__
# ------------------------------------------------------------------------------------------------
def _names(args, node):
    if not all(isinstance(a, ast.Name) for a in args):
        _fail(node, "arguments outside the subset (plain names)")
    return _lean_list('"%s"' % a.id for a in args)


def thub_def(fn):
    """`return StreamTeeHub(data, n) if isinstance(data, Iterable) else data`"""
    body = [s for s in fn.body if not _is_doc(s)]
    if fn.decorator_list or len(body) != 1 or not isinstance(body[0], ast.Return) or not isinstance(body[0].value, ast.IfExp):
        _fail(fn, "thub outside the subset (one `return A if isinstance(x, K) else B`)")
    e = body[0].value
    t = e.test
    if not (_plain_call(t, 2) and _is_name(t.func, "isinstance") and all(isinstance(a, ast.Name) for a in t.args)):
        _fail(t, "thub: test outside the subset (isinstance(name, name))")

    def arm(node):
        if _is_name(node, "data"):
            return ".data"
        if isinstance(node, ast.Call) and _is_name(node.func, "StreamTeeHub") and not node.keywords:
            return "(.mkHub %s)" % _names(node.args, node)
        _fail(node, "thub: arm outside the subset (`data` | `StreamTeeHub(names)`)")
    return '{ test := ("%s", "%s"), thenR := %s, elseR := %s }' % (t.args[0].id, t.args[1].id, arm(e.body), arm(e.orelse))


def _super_call(node, attr):
    """`super(StreamTeeHub, self).<attr>(...)` -> its argument list, or None"""
    if not (isinstance(node, ast.Call) and not node.keywords and isinstance(node.func, ast.Attribute)
            and node.func.attr == attr):
        return None
    sup = node.func.value
    if not (_plain_call(sup, 2) and _is_name(sup.func, "super") and _is_name(sup.args[0], "StreamTeeHub")
            and _is_name(sup.args[1], "self")):
        return None
    return node.args


def hub_init(fn):
    if fn.decorator_list:
        _fail(fn, "decorated method")
    loc, out = {}, []
    ref = lambda n: loc.get(n.id, n.id)
    for s in fn.body:
        if _is_doc(s):
            continue
        if isinstance(s, ast.Expr):
            args = _super_call(s.value, "__init__")
            if args is not None:
                out.append("(.superInit %s)" % _names(args, s))
                continue
        if isinstance(s, ast.Assign) and len(s.targets) == 1:
            t, v = s.targets[0], s.value
            if isinstance(t, ast.Name) and _super_call(v, "__iter__") == []:
                loc.setdefault(t.id, "v%d" % len(loc))
                out.append('(.bindSuperIter "%s")' % loc[t.id])
                continue
            if (_is_self_attr(t, "_iters") and _plain_call(v, 1) and _is_name(v.func, "list") and _plain_call(v.args[0], 2)
                    and _is_it(v.args[0].func, "tee") and all(isinstance(a, ast.Name) for a in v.args[0].args)):
                a, b = v.args[0].args
                out.append('(.setIters "%s" "%s")' % (ref(a), ref(b)))
                continue
        _fail(s, "StreamTeeHub.__init__: statement outside the subset")
    return _lean_list(out)


# ------------------------------------------------------------------------------------------------
# Stream.__init__
# ------------------------------------------------------------------------------------------------
def stream_init(fn):
    """the if / elif / else tree over `*dargs` -> an `ITree` term"""
    a = fn.args
    if fn.decorator_list or a.vararg is None or a.kwarg or a.kwonlyargs or a.defaults or len(a.args) != 1:
        _fail(fn, "Stream.__init__: signature outside the subset (self, *args)")
    da = a.vararg.arg

    def arg0(node):
        return (isinstance(node, ast.Subscript) and _is_name(node.value, da) and isinstance(node.slice, ast.Constant)
                and type(node.slice.value) is int and node.slice.value == 0)

    def each_iterable(node, fname):
        """`fname(isinstance(v, Iterable) for v in dargs)`"""
        if not (_plain_call(node, 1) and _is_name(node.func, fname) and isinstance(node.args[0], ast.GeneratorExp)):
            return False
        g = node.args[0]
        if len(g.generators) != 1:
            return False
        c = g.generators[0]
        return (not c.ifs and not c.is_async and isinstance(c.target, ast.Name) and _is_name(c.iter, da)
                and _plain_call(g.elt, 2) and _is_name(g.elt.func, "isinstance") and _is_name(g.elt.args[0], c.target.id)
                and _is_name(g.elt.args[1], "Iterable"))

    def icond(node):
        if (isinstance(node, ast.Compare) and len(node.ops) == 1 and isinstance(node.ops[0], ast.Eq)
                and _plain_call(node.left, 1) and _is_name(node.left.func, "len") and _is_name(node.left.args[0], da)
                and isinstance(node.comparators[0], ast.Constant) and type(node.comparators[0].value) is int
                and node.comparators[0].value >= 0):
            return "(.lenEq %d)" % node.comparators[0].value
        if _plain_call(node, 2) and _is_name(node.func, "isinstance") and arg0(node.args[0]) \
                and _is_name(node.args[1], "Iterable"):
            return ".isIter0"
        if each_iterable(node, "all"):
            return ".allIter"
        if isinstance(node, ast.UnaryOp) and isinstance(node.op, ast.Not) and each_iterable(node.operand, "any"):
            return ".noneIter"
        _fail(node, "Stream.__init__: condition outside the subset")

    def idata(node):
        if _plain_call(node, 1) and _is_name(node.func, "iter") and arg0(node.args[0]):
            return ".iter0"
        if _plain_call(node, 1) and _is_it(node.func, "repeat") and arg0(node.args[0]):
            return ".repeat0"
        if _plain_call(node, 1) and _is_it(node.func, "cycle") and _is_name(node.args[0], da):
            return ".cycleArgs"
        if (isinstance(node, ast.Call) and _is_it(node.func, "chain") and not node.keywords and len(node.args) == 1
                and isinstance(node.args[0], ast.Starred) and isinstance(node.args[0].value, ast.ListComp)):
            lc = node.args[0].value
            c = lc.generators[0] if len(lc.generators) == 1 else None
            if (c is not None and not c.ifs and not c.is_async and isinstance(c.target, ast.Name) and _is_name(c.iter, da)
                    and _plain_call(lc.elt, 1) and _is_name(lc.elt.func, "iter") and _is_name(lc.elt.args[0], c.target.id)):
                return ".chainIters"
        _fail(node, "Stream.__init__: data expression outside the subset")

    def block(body):
        body = [s for s in body if not _is_doc(s)]
        if len(body) != 1:
            _fail(fn if not body else body[0], "Stream.__init__: one statement per arm")
        s = body[0]
        if isinstance(s, ast.Raise):
            return '(.raise "%s")' % _raise_kind(s)
        if isinstance(s, ast.Assign) and len(s.targets) == 1 and _is_data(s.targets[0]):
            return "(.setData %s)" % idata(s.value)
        if isinstance(s, ast.If):
            if not s.orelse:
                _fail(s, "Stream.__init__: an `if` without `else` (the data slot may stay unset)")
            return "(.ite %s %s %s)" % (icond(s.test), block(s.body), block(s.orelse))
        _fail(s, "Stream.__init__: statement outside the subset")
    return block(fn.body)


# ------------------------------------------------------------------------------------------------
# lazy_itertools.tee
# ------------------------------------------------------------------------------------------------
def _tuple_genexp(node):
    """`tuple(ELT for v in ITER)` -> (ELT, v, ITER) or None"""
    if not (_plain_call(node, 1) and _is_name(node.func, "tuple") and isinstance(node.args[0], ast.GeneratorExp)):
        return None
    g = node.args[0]
    if len(g.generators) != 1:
        return None
    c = g.generators[0]
    if c.ifs or c.is_async or not isinstance(c.target, ast.Name):
        return None
    return g.elt, c.target.id, c.iter


def tee_def(fn):
    """`if isinstance(data, (K, ...)): return tuple(Stream(cp) for cp in it.tee(data, n))` /
       `else: return tuple(data for unused in xrange(n))` (the else may be spelled as the statement after the if)"""
    body = [s for s in fn.body if not _is_doc(s)]
    if fn.decorator_list or not body or not isinstance(body[0], ast.If) or len(body[0].body) != 1:
        _fail(fn, "tee outside the subset (if isinstance(...): return ... else: return ...)")
    i = body[0]
    rest = i.orelse if i.orelse else body[1:]
    if (i.orelse and len(body) != 1) or len(rest) != 1 or not isinstance(i.body[0], ast.Return) \
            or not isinstance(rest[0], ast.Return):
        _fail(fn, "tee outside the subset (one return per arm)")
    t = i.test
    if not (_plain_call(t, 2) and _is_name(t.func, "isinstance") and isinstance(t.args[0], ast.Name)):
        _fail(t, "tee: test outside the subset")
    k = t.args[1]
    ks = k.elts if isinstance(k, ast.Tuple) else [k]
    if not all(isinstance(x, ast.Name) for x in ks):
        _fail(t, "tee: classes outside the subset (names)")

    def arm(r):
        got = _tuple_genexp(r.value) if r.value is not None else None
        if got is None:
            _fail(r, "tee: arm outside the subset (tuple(generator expression))")
        elt, v, src = got
        if (_plain_call(elt, 1) and _is_name(elt.func, "Stream") and _is_name(elt.args[0], v) and _plain_call(src, 2)
                and _is_it(src.func, "tee") and all(isinstance(a, ast.Name) and a.id != v for a in src.args)):
            return '(.streamsOfTee "%s" "%s")' % (src.args[0].id, src.args[1].id)
        if (isinstance(elt, ast.Name) and elt.id != v and _plain_call(src, 1) and _is_name(src.func, "xrange")
                and isinstance(src.args[0], ast.Name) and src.args[0].id != v):
            return '(.repeatOf "%s" "%s")' % (elt.id, src.args[0].id)
        _fail(r, "tee: arm outside the subset")
    return '{ test := ("%s", %s), thenR := %s, elseR := %s }' % (
        t.args[0].id, _lean_list('"%s"' % x.id for x in ks), arm(i.body[0]), arm(rest[0]))


# ------------------------------------------------------------------------------------------------
# the whole file
# ------------------------------------------------------------------------------------------------
def _class(tree, name):
    found = [n for n in tree.body if isinstance(n, ast.ClassDef) and n.name == name]
    if len(found) != 1:
        raise TranslationError("class %s: found %d times" % (name, len(found)))
    return found[0]


def _members(cls):
    """name -> list of defining nodes (FunctionDef, or the value of `name = value`)"""
    out = {}
    for s in cls.body:
        if isinstance(s, ast.FunctionDef):
            out.setdefault(s.name, []).append(s)
        elif isinstance(s, ast.Assign):
            for t in s.targets:
                if isinstance(t, ast.Name):
                    out.setdefault(t.id, []).append(s.value)
    return out


def _one(members, cls, name, kind):
    got = members.get(name, [])
    if len(got) != 1 or not isinstance(got[0], kind):
        raise TranslationError("%s.%s: expected exactly one definition of the expected form, found %d"
                               % (cls, name, len(got)))
    return got[0]


def parse(text, itext=None):
    """-> (progs [(field, lean term)], sigs [(qualified name, [(param, default|None)])]);
    `text`: lazy_stream.py, `itext`: lazy_itertools.py (read from the repo under test when not given)"""
    tree = ast.parse(text)
    itree = ast.parse(read_isource() if itext is None else itext)
    sm, hm = _members(_class(tree, "Stream")), _members(_class(tree, "StreamTeeHub"))
    progs, sigs = [], []
    for m in STREAM_METHODS:
        fn = _one(sm, "Stream", m, ast.FunctionDef)
        if fn.decorator_list:
            _fail(fn, "decorated method")
        progs.append((m, body_of(fn)))
        sigs.append(("Stream." + m, _sig(fn)))
    field = {"take": "hubTake", "copy": "hubCopy", "__iter__": "hubIter"}
    for m in HUB_DEFS:
        fn = _one(hm, "StreamTeeHub", m, ast.FunctionDef)
        if fn.decorator_list:
            _fail(fn, "decorated method")
        progs.append((field[m], hub_def(fn)))
        sigs.append(("StreamTeeHub." + m, _sig(fn)))
    for m in HUB_LAMBDAS:
        term, sig = hub_lambda(m, _one(hm, "StreamTeeHub", m, ast.Call))
        progs.append(("hub" + m.capitalize(), term))
        sigs.append(("StreamTeeHub." + m, sig))
    fn = _one(hm, "StreamTeeHub", "__init__", ast.FunctionDef)
    init_term, init_sig = hub_init(fn), ("StreamTeeHub.__init__", _sig(fn))
    found = [n for n in tree.body if isinstance(n, ast.FunctionDef) and n.name == "thub"]
    if len(found) != 1:
        raise TranslationError("thub: found %d times" % len(found))
    progs.append(("thub", thub_def(found[0])))
    progs.append(("hubInit", init_term))
    sigs += [init_sig, ("thub", _sig(found[0]))]
    fn = _one(sm, "Stream", "__init__", ast.FunctionDef)
    progs.append(("init", stream_init(fn)))
    sigs.append(("Stream.__init__", _sig(fn)))
    found = [n for n in itree.body if isinstance(n, ast.FunctionDef) and n.name == "tee"]
    if len(found) != 1:
        raise TranslationError("lazy_itertools.tee: found %d times" % len(found))
    progs.append(("tee", tee_def(found[0])))
    sigs.append(("lazy_itertools.tee", _sig(found[0])))
    # a StreamTeeHub method that is translated for Stream and silently overridden otherwise would escape: refuse
    extra = sorted(set(hm) & set(STREAM_METHODS) - set(HUB_DEFS) - set(HUB_LAMBDAS))
    if extra:
        raise TranslationError("StreamTeeHub overrides %s: not in the translated set" % extra)
    return progs, sigs


def _lean_str(s):
    if '"' in s or "\\" in s or "\n" in s:
        raise TranslationError("string outside the subset: %r" % (s,))
    return '"%s"' % s


def translate(text, itext=None):
    progs, sigs = parse(text, itext)
    lines = ["/- GENERATED by harness/props/c03_tr.py from audiolazy/lazy_stream.py (method bodies and signatures of",
             "   Stream / StreamTeeHub, thub) and audiolazy/lazy_itertools.py (tee), read with `ast`.",
             "   Do not edit: rewritten on every check. -/",
             "import ALV.Model.C03Src", "namespace ALV.Gen.C03", "open ALV.C03.Src", ""]
    for name, term in progs:
        ty = {"thub": "ThubBody", "hubInit": "List HIStmt", "tee": "TeeBody", "init": "ITree"}.get(name, "HubBody" if name.startswith("hub") else "Body")
        lines += ["def %s : %s :=" % (name if name != "filter" else "filter", ty), "  " + term, ""]
    lines += ["def progs : Progs :=",
              "  { " + ", ".join("%s := %s" % (n, n) for n, _ in progs if n != "init") + " }", "",
              "/-- (qualified name, parameters with the source text of their default) -/",
              "def sigs : List (String × List (String × Option String)) := ["]
    rows = []
    for q, ps in sigs:
        pl = ", ".join("(%s, %s)" % (_lean_str(n), "none" if d is None else "some " + _lean_str(d)) for n, d in ps)
        rows.append("  (%s, [%s])" % (_lean_str(q), pl))
    lines += [",\n".join(rows) + "]", "", "end ALV.Gen.C03", ""]
    return "\n".join(lines)


def regenerate(eng=None):
    """Rewrite lean/ALV/Gen/C03Src.lean from the repo under test.  On a translation failure the last COMMITTED file is
    put back (so that the build speaks about the last translatable state) and the error propagates (= broken obligation)."""
    path = os.path.join(common.LEAN, GEN_REL)
    try:
        text = translate(read_source())
    except Exception:
        try:
            import subprocess
            good = subprocess.run(["git", "-C", common.VERIF, "show", "HEAD:lean/" + GEN_REL.replace(os.sep, "/")],
                                  capture_output=True, text=True, timeout=30)
            if good.returncode == 0 and good.stdout and (not os.path.exists(path) or open(path).read() != good.stdout):
                with open(path, "w") as f:
                    f.write(good.stdout)
        except Exception:
            pass
        raise
    old = open(path).read() if os.path.exists(path) else None
    if old != text:
        os.makedirs(os.path.dirname(path), exist_ok=True)
        with open(path, "w") as f:
            f.write(text)
        return "rewritten (%d bytes)" % len(text)
    return "unchanged (%d bytes)" % len(text)


# ------------------------------------------------------------------------------------------------
# self test: edited copies of the source text must translate to something else (or not at all)
# ------------------------------------------------------------------------------------------------
EDITS = [
    ("take: `n > 0` of the inf test dropped", "if isinf(n) and n > 0:", "if isinf(n):"),
    ("take: rint replaced by round", "n = rint(n) if n > 0 else 0", "n = round(n) if n > 0 else 0"),
    ("take: max(n, 0) dropped", "constructor(it.islice(self._data, max(n, 0)))", "constructor(it.islice(self._data, n))"),
    ("take: the two early returns reordered",
     "    if n is None:\n      return next(self._data)\n    if isinf(n) and n > 0:\n      return constructor(self._data)\n",
     "    if isinf(n) and n > 0:\n      return constructor(self._data)\n    if n is None:\n      return next(self._data)\n"),
    ("copy: self._data not rebound", "    self._data = a\n    return Stream(b)", "    return Stream(b)"),
    ("peek: count not handed on", "self.copy().take(n=n, constructor=constructor)", "self.copy().take(constructor=constructor)"),
    ("skip: int(round(n)) replaced by rint(n)", "for _ in xrange(int(round(n))):", "for _ in xrange(rint(n)):"),
    ("skip: StopIteration handler swallows instead of returning",
     "        except StopIteration: # Fewer than n items: nothing left to yield\n          return",
     "        except StopIteration:\n          pass"),
    ("limit: constant 0 changed", "it.islice(self._data, max(int(round(n)), 0))", "it.islice(self._data, max(int(round(n)), 1))"),
    ("append: operands of chain swapped", "it.chain(self._data, Stream(*other)._data)", "it.chain(Stream(*other)._data, self._data)"),
    ("filter: xfilter replaced by xmap", "self._data = xfilter(func, self._data)", "self._data = xmap(func, self._data)"),
    ("hub take: other exception", 'raise AttributeError("Use peek or cast to Stream.")', 'raise TypeError("Use peek or cast to Stream.")'),
    ("hub copy: first copy not rebound", "      self._iters[0] = a\n      return Stream(b)", "      return Stream(b)"),
    ("hub skip: goes to limit", "lambda self, n: Stream(self).skip(n)", "lambda self, n: Stream(self).limit(n)"),
    ("hub map: Stream(self) dropped", "lambda self, func: Stream(self).map(func))", "lambda self, func: Stream.map(self, func))"),
    ("thub: arms of the conditional swapped", "return StreamTeeHub(data, n) if isinstance(data, Iterable) else data",
     "return data if isinstance(data, Iterable) else StreamTeeHub(data, n)"),
    ("thub: Iterator instead of Iterable", "isinstance(data, Iterable) else data", "isinstance(data, Iterator) else data"),
    ("thub: arguments of StreamTeeHub swapped", "return StreamTeeHub(data, n) if", "return StreamTeeHub(n, data) if"),
    ("hub init: tee over data instead of the hub's own iterator", "list(it.tee(iter_self, n))", "list(it.tee(data, n))"),
    ("hub init: constant number of copies", "list(it.tee(iter_self, n))", "list(it.tee(iter_self, 2))"),
    ("hub init: iterator asked before Stream.__init__ has run",
     "    super(StreamTeeHub, self).__init__(data)\n    iter_self = super(StreamTeeHub, self).__iter__()\n",
     "    iter_self = super(StreamTeeHub, self).__iter__()\n    super(StreamTeeHub, self).__init__(data)\n"),
    ("hub init: parameters swapped", "def __init__(self, data, n):\n    super(StreamTeeHub", "def __init__(self, n, data):\n    super(StreamTeeHub"),
    ("tee: Stream dropped from the isinstance test", "if isinstance(data, (Stream, Iterator)):", "if isinstance(data, Iterator):"),
    ("tee: the copies are not wrapped in Stream", "return tuple(Stream(cp) for cp in it.tee(data, n))",
     "return tuple(cp for cp in it.tee(data, n))"),
    ("tee: arms swapped", "    return tuple(Stream(cp) for cp in it.tee(data, n))\n  else:\n    return tuple(data for unused in xrange(n))",
     "    return tuple(data for unused in xrange(n))\n  else:\n    return tuple(Stream(cp) for cp in it.tee(data, n))"),
    ("tee: default of n changed", "def tee(data, n=2):", "def tee(data, n=3):"),
    ("init: no-argument error kind", 'raise TypeError("Missing argument(s)")', 'raise ValueError("Missing argument(s)")'),
    ("init: one-argument arms swapped", "        self._data = iter(dargs[0])\n      else:\n        self._data = it.repeat(dargs[0])",
     "        self._data = it.repeat(dargs[0])\n      else:\n        self._data = iter(dargs[0])"),
    ("init: all replaced by any", "if all(isinstance(arg, Iterable) for arg in dargs):", "if any(isinstance(arg, Iterable) for arg in dargs):"),
    ("init: mixed arguments cycle instead of raising", "elif not any(isinstance(arg, Iterable) for arg in dargs):\n        self._data = it.cycle(dargs)\n      else:\n        raise TypeError(",
     "else:\n        self._data = it.cycle(dargs)\n        raise TypeError("),
    ("init: iterators of the chain asked lazily", "it.chain(*[iter(arg) for arg in dargs])", "it.chain(*dargs)"),
    ("init: len test 1 -> 2", "elif len(dargs) == 1:", "elif len(dargs) == 2:"),
    ("take: default of n changed", "def take(self, n=None, constructor=list):", "def take(self, n=1, constructor=list):"),
]
IHARMLESS = [
    ("tee: generator variables renamed, else spelled as fall-through",
     "    return tuple(Stream(cp) for cp in it.tee(data, n))\n  else:\n    return tuple(data for unused in xrange(n))",
     "    return tuple(Stream(c) for c in it.tee(data, n))\n  return tuple(data for _ in xrange(n))"),
]
HARMLESS = [
    ("init: generator variables renamed, comment dropped",
     "      if all(isinstance(arg, Iterable) for arg in dargs):", "      if all(isinstance(a, Iterable) for a in dargs):",
     "        self._data = it.chain(*[iter(arg) for arg in dargs])", "        self._data = it.chain(*[iter(x) for x in dargs])",
     "      elif not any(isinstance(arg, Iterable) for arg in dargs):\n        self._data = it.cycle(dargs)",
     "      elif not any(isinstance(y, Iterable) for y in dargs):\n\n        self._data = it.cycle(dargs)"),
    ("hub init: local renamed", "    iter_self = super(StreamTeeHub, self).__iter__()\n    self._iters = list(it.tee(iter_self, n))",
     "    mine = super(StreamTeeHub, self).__iter__()\n    self._iters = list(it.tee(mine, n))"),
    ("comments / blank lines / docstring", "    a, b = it.tee(self._data) # 2 generators, not thread-safe",
     "    a, b = it.tee(self._data)\n\n    # two generators"),
    ("tee locals renamed", "    a, b = it.tee(self._data) # 2 generators, not thread-safe\n    self._data = a\n    return Stream(b)",
     "    mine, theirs = it.tee(self._data)\n    self._data = mine\n    return Stream(theirs)"),
    ("skipper renamed, loop variables renamed",
     "    def skipper(data):\n      for _ in xrange(int(round(n))):",
     "    def dropper(data):\n      for unused in xrange(int(round(n))):",
     "self._data = skipper(self._data)", "self._data = dropper(self._data)",
     "      for el in data:\n        yield el", "      for item in data:\n        yield item"),
]


def selftest(text=None, committed=None, itext=None):
    """-> list of (name, ok, detail)"""
    text = read_source() if text is None else text
    itext = read_isource() if itext is None else itext
    out = []
    try:
        base = translate(text, itext)
    except Exception as e:
        return [("translator-selftest", False, "the unchanged source does not translate: %s" % e)]
    if committed is not None:
        # the committed file is the translation of the reference repo; for a scratch copy (VERIF_REPO) a different text
        # is no failure by itself: the theorems are re-checked against the regenerated file by the build
        out.append(("translator-reproduces-committed-file", base == committed or common.REPO != "/repo",
                    "lean/%s: %d bytes generated, %d committed" % (GEN_REL, len(base), len(committed))))
    missed, inapplicable, how = [], [], {}
    for name, old, new in EDITS:
        if name.startswith("tee:"):                          # an edit of lazy_itertools.py
            if itext.count(old) != 1:
                inapplicable.append(name)
                continue
            try:
                got = translate(text, itext.replace(old, new))
                how[name] = "different text" if got != base else "SAME TEXT"
                if got == base:
                    missed.append(name)
            except TranslationError:
                how[name] = "TranslationError"
            except SyntaxError:
                missed.append(name + " (edit does not parse)")
            continue
        if text.count(old) != 1 and not name.startswith("hub"):
            inapplicable.append(name)
            continue
        if text.count(old) < 1:
            inapplicable.append(name)
            continue
        # hub lambdas / the hub's raise: the LAST occurrence is the StreamTeeHub one
        k = text.rfind(old)
        edited = text[:k] + new + text[k + len(old):]
        try:
            got = translate(edited, itext)
            how[name] = "different text" if got != base else "SAME TEXT"
            if got == base:
                missed.append(name)
        except TranslationError as e:
            how[name] = "TranslationError"
        except SyntaxError as e:
            missed.append(name + " (edit does not parse)")
    # an edit whose anchor text is gone (that very line was rewritten in the source under test) says nothing about the
    # translator; the self test needs enough of them to be meaningful
    out.append(("translator-selftest(%d edits)" % len(EDITS), not missed and len(how) >= 6,
                "missed %r; edits whose anchor text is not in the source under test (not applied) %r; %r"
                % (missed, inapplicable, how)))
    noisy = []
    for name, old, new in IHARMLESS:
        if itext.count(old) == 1:
            try:
                if translate(text, itext.replace(old, new)) != base:
                    noisy.append(name)
            except Exception as e:
                noisy.append("%s (%s)" % (name, e))
    for name, *pairs in HARMLESS:
        edited = text
        for old, new in zip(pairs[0::2], pairs[1::2]):
            if edited.count(old) != 1:
                edited = None
                break
            edited = edited.replace(old, new)
        if edited is None:
            continue
        try:
            if translate(edited, itext) != base:
                noisy.append(name)
        except Exception as e:
            noisy.append("%s (%s)" % (name, e))
    out.append(("translator-normalises-harmless-rewrites(%d)" % (len(HARMLESS) + len(IHARMLESS)), not noisy, "changed the output: %r" % (noisy,)))
    return out


if __name__ == "__main__":
    import sys
    if len(sys.argv) > 1 and sys.argv[1] == "write":
        print(regenerate())
    else:
        sys.stdout.write(translate(read_source()))
