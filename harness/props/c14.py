"""C14 — window functions (window / wsymm strategy dictionaries of lazy_analysis).

Translator T2 (`regenerate`): the window formulas and the two code templates of
/repo/audiolazy/lazy_analysis.py are *data made for exec*.  They are parsed with `ast`
from the source file (the repo is not imported by the translator) and emitted as
lean/ALV/Gen/Windows.lean: one generic `[TrigField α]` definition per strategy, the two
list builders (`periodicT`, `symmT`) and the strategy table.  The C14 theorems are about
these generated definitions.

Tie: the driver evaluates the generated definitions at `Float` through the hand-written
model of `_generate_window_strategies` (registry, aliases, defaults) and sends the exact
binary values; they are compared with the lists the real strategies return.

T2 regenerates ALL the data `exec` consumes: per table row the names / aliases, the `distinct` flag, the parameter list
its `params_def` text adds (names, exact default values, int or float literal), the formula; per code template the
body in three modes (size an index / a number without `__index__` / no number) AND its signature (`size` first,
where `{params_def}` is spliced in); the module-level dictionary links.  The Props file proves, by `decide` over these
tables, what the property says about them (`table_names`, `signatures`, `template_signatures`, `alpha_default_values`,
`dict_links_table`, `defaults`, `default_route`, `link_routes`, `function_links`).

Translator T2b (`c14_tr.py`): the text of the loop `_generate_window_strategies` itself is read with `ast` on every run and
emitted as a program VALUE (`ALV.C14.Loop.Prog`, deep embedding with an interpreter on the model's state) into
lean/ALV/Gen/C14Src.lean, together with the imports its global names come from and the number of module-level calls.
`src_generate_window_strategies_is_model` (rfl against `Loop.model`), `src_generate_window_strategies_row` (every
iteration = the hand-written `genStep`, all states and rows) and `src_generated_is_model` (interpreter on the regenerated
table = `generated`, by `decide`) replace the former sha1 pin of the loop's AST.

Call layer (entry "pycall"): a call as the caller WRITES it — access route (`sd[name]`, `sd.name`, `sd(...)`,
`sd.default(...)`, `sd.symm[name]`, `sd[name].periodic`, ...), positional / keyword / omitted arguments, the Python
value of each argument (int, bool, float, Fraction, None, str) — goes through the model of the call layer
(`ALV.C14.pyCall`: binding against the regenerated signature, the regenerated template for the kind of value `size`
is, TypeError for a non-numeric alpha exactly when a sample uses it) and, reduced by the DOCUMENTED rules
(`_spec_call`), through the specification.  Entry "scan": facts about the real float lists for all sizes of a range,
compared with NO tolerance (range [0,1], length, periodic prefix) or the few-ulp bound of the trigonometric windows
(symmetry; bit-exact for rect / bartlett / triangular).

Histories (entry "history"): the property fixes `window.X(size)` / `wsymm.X(size)` as a function of
the arguments of EACH call.  A history is 1..4 calls to the same and to related strategies (aliases,
`.periodic` / `.symm` links, window vs wsymm, same size / size+1, other spelling of alpha) between
which the CALLER changes, in place, the lists it received (`p.append(p[0])` — the recipe of the
periodic windows' own docstring —, scale, sort, clear, NaN, ...).  Every call is compared with the
Lean model/spec of that call alone (the model of a history, `ALV.C14.runHistory`, answers each call by
`call` of its own arguments and allocates a new object per call: `Props.C14.history_outcomes`,
`history_fresh_objects`), plus identity checks: two calls never return the same list object, no call
changes a list handed out earlier, no returned list stays referenced by / reachable from the strategy
function (closure, defaults, attributes, globals).  Histories run on a NEW instance of
`lazy_analysis` (world "new": the source exec'ed into a second module object) or, world "imported",
on the imported `audiolazy.window` / `wsymm` objects in a child of a forked copy of the process made
before any strategy was called: always from the state the import leaves (reproducible by --replay),
and nothing a history does reaches the other cases.
"""
import ast, collections, gc, json, os, re, sys, types, warnings
from fractions import Fraction

import common
from common import err_kind, enc, dec
from props import c14_tr

ID = "C14"

# =============================================================================================
# Translator T2
# =============================================================================================
GEN_REL = os.path.join("ALV", "Gen", "Windows.lean")
SRC_REL = os.path.join("audiolazy", "lazy_analysis.py")
LEAN_KEYWORDS = {"def", "fun", "let", "in", "if", "then", "else", "at", "from", "have", "show", "do",
                 "end", "open", "where", "with", "match", "theorem", "namespace", "section", "variable",
                 "import", "instance", "class", "structure", "Type", "Prop", "Sort", "by", "size", "n",
                 "alpha", "f", "xrange", "xrangeFrom", "periodicT", "symmT", "table", "Entry"}
FUNCS = {"cos": "TrigField.cos", "sin": "TrigField.sin", "abs": "TrigField.abs"}
BINOPS = {ast.Add: "+", ast.Sub: "-", ast.Mult: "*", ast.Div: "/"}


class TranslationError(Exception):
    pass


def _num_literal(v):
    """Python numeric literal -> Lean term of type α (exact decimal value of the literal)."""
    if isinstance(v, bool) or not isinstance(v, (int, float)):
        raise TranslationError("unsupported constant %r" % (v,))
    if isinstance(v, float):
        if v != v or v in (float("inf"), float("-inf")):
            raise TranslationError("non-finite literal")
        q = Fraction(repr(v))           # shortest round-trip decimal = the literal's decimal value class
        if float(q) != v:               # (the double nearest to q is v again, by round-trip)
            raise TranslationError("literal %r does not round-trip" % v)
    else:
        q = Fraction(v)
    if q.denominator == 1:
        return "TrigField.ofInt (%d)" % q.numerator
    if abs(q.numerator) >= 2 ** 53 or q.denominator >= 2 ** 53:
        raise TranslationError("literal %r too long for an exact quotient" % v)
    return "TrigField.ofRat (%d) %d" % (q.numerator, q.denominator)


def tr_formula(node, env):
    """float-valued Python expression -> Lean term of type α.  env: python name -> Lean term (type α)."""
    if isinstance(node, ast.Expression):
        return tr_formula(node.body, env)
    if isinstance(node, ast.Constant):
        return _num_literal(node.value)
    if isinstance(node, ast.Name):
        if node.id in env:
            return env[node.id]
        if node.id == "pi":
            return "TrigField.pi"
        raise TranslationError("unknown name %r in formula" % node.id)
    if isinstance(node, ast.BinOp):
        a, b = tr_formula(node.left, env), tr_formula(node.right, env)
        if type(node.op) in BINOPS:
            return "(%s %s %s)" % (a, BINOPS[type(node.op)], b)
        if isinstance(node.op, ast.Pow):
            return "(TrigField.pow %s %s)" % (a, b)
        raise TranslationError("unsupported operator %s" % type(node.op).__name__)
    if isinstance(node, ast.UnaryOp):
        a = tr_formula(node.operand, env)
        if isinstance(node.op, ast.USub):
            return "(-%s)" % a
        if isinstance(node.op, ast.UAdd):
            return a
        raise TranslationError("unsupported unary operator %s" % type(node.op).__name__)
    if isinstance(node, ast.Call):
        if (isinstance(node.func, ast.Name) and node.func.id in FUNCS and len(node.args) == 1
                and not node.keywords and node.func.id not in env):
            return "(%s %s)" % (FUNCS[node.func.id], tr_formula(node.args[0], env))
        raise TranslationError("unsupported call %s" % ast.dump(node.func))
    raise TranslationError("unsupported syntax %s" % type(node).__name__)


class _PyRaises(Exception):
    """an expression of a template that raises this Python exception whenever it is evaluated (statically known from
    the KIND of the value `size` stands for: `xrange(4.0)`, `None - 1`)"""


class _Tmpl:
    """Compiler of the tiny statement language of the two code templates into one Lean term, with
    `f : α → α → α` standing for the `{formula}` hole.  Three modes, by the kind of Python value `size` is:

    * "int"    — an object with `__index__` (int, bool): `size : Int`, result `List α` (the mode the theorems about
                 windows are stated in);
    * "num"    — a number WITHOUT `__index__` (float, Fraction) of exact value `size : Rat`: `size == 1` is decided on
                 the value, arithmetic stays a number, `xrange(<number>)` raises TypeError; result `Except String (List α)`;
    * "opaque" — None / str: `==` is False, `!=` True, arithmetic / ordering / `xrange` raise TypeError; result
                 `Except String (List α)`."""

    HOLE = "FORMULA__HOLE"
    PARAMS = "PARAMS__DEF"

    def __init__(self, mode="int"):
        self.count = {}
        self.mode = mode
        self.exc = mode != "int"

    def fresh(self, name):
        if not re.fullmatch(r"[A-Za-z_][A-Za-z0-9_]*", name):
            raise TranslationError("bad variable name %r" % name)
        k = self.count.get(name, 0)
        self.count[name] = k + 1
        lean = name if k == 0 else "%s_%d" % (name, k)
        if k == 0 and name in LEAN_KEYWORDS and name not in ("size", "n"):
            lean = name + "_0"
        return lean

    # --- arithmetic on int / number / opaque values -------------------------------------------
    @staticmethod
    def _rat(kind, term):
        return term if kind == "num" else "((%s : Int) : Rat)" % term

    def arith(self, node, env):
        """-> (kind, Lean term); kind "int" (term : Int) or "num" (term : Rat); an operation on an opaque value raises"""
        if isinstance(node, ast.Constant) and isinstance(node.value, int) and not isinstance(node.value, bool):
            return "int", "(%d : Int)" % node.value
        if isinstance(node, ast.Name) and env.get(node.id, (None,))[0] in ("int", "num", "opaque"):
            return env[node.id]
        if isinstance(node, ast.BinOp) and type(node.op) in (ast.Add, ast.Sub, ast.Mult):
            (ka, a), (kb, b) = self.arith(node.left, env), self.arith(node.right, env)
            if "opaque" in (ka, kb):
                raise _PyRaises("TypeError")
            if ka == kb == "int":
                return "int", "(%s %s %s)" % (a, BINOPS[type(node.op)], b)
            return "num", "(%s %s %s)" % (self._rat(ka, a), BINOPS[type(node.op)], self._rat(kb, b))
        if isinstance(node, ast.UnaryOp) and isinstance(node.op, ast.USub):
            k, a = self.arith(node.operand, env)
            if k == "opaque":
                raise _PyRaises("TypeError")
            return k, "(-%s)" % a
        raise TranslationError("unsupported integer expression %s" % ast.dump(node)[:80])

    def int_expr(self, node, env):
        k, t = self.arith(node, env)
        if k != "int":
            raise _PyRaises("TypeError")          # a float / Fraction / None where an index is needed
        return t

    def range_expr(self, node, env):
        if isinstance(node, ast.Name) and env.get(node.id, (None,))[0] == "range":
            return env[node.id][1]
        if (isinstance(node, ast.Call) and isinstance(node.func, ast.Name) and node.func.id in ("xrange", "range")
                and not node.keywords and node.func.id not in env):
            if len(node.args) == 1:
                return "(xrange %s)" % self.int_expr(node.args[0], env)
            if len(node.args) == 2:
                return "(xrangeFrom %s %s)" % (self.int_expr(node.args[0], env), self.int_expr(node.args[1], env))
        raise TranslationError("unsupported iterable %s" % ast.dump(node)[:80])

    CMP = {ast.Eq: "=", ast.NotEq: "≠", ast.Lt: "<", ast.LtE: "≤", ast.Gt: ">", ast.GtE: "≥"}

    def bool_expr(self, node, env):
        if isinstance(node, ast.Compare) and len(node.ops) == 1 and type(node.ops[0]) in self.CMP:
            (ka, a), (kb, b) = self.arith(node.left, env), self.arith(node.comparators[0], env)
            op = type(node.ops[0])
            if "opaque" in (ka, kb):
                if op is ast.Eq:
                    return "False"
                if op is ast.NotEq:
                    return "True"
                raise _PyRaises("TypeError")
            if ka == kb == "int":
                return "(%s %s %s)" % (a, self.CMP[op], b)
            return "(%s %s %s)" % (self._rat(ka, a), self.CMP[op], self._rat(kb, b))
        if isinstance(node, ast.BoolOp):
            op = " ∧ " if isinstance(node.op, ast.And) else " ∨ "
            return "(" + op.join(self.bool_expr(v, env) for v in node.values) + ")"
        if isinstance(node, ast.UnaryOp) and isinstance(node.op, ast.Not):
            return "(¬ %s)" % self.bool_expr(node.operand, env)
        raise TranslationError("unsupported condition %s" % ast.dump(node)[:80])

    # --- list expressions -------------------------------------------------------------------
    def to_float(self, v):
        kind, term = v
        if kind == "int":
            return "(TrigField.ofInt %s)" % term
        if kind == "num":
            return "(TrigField.ofQ %s)" % term
        raise _PyRaises("TypeError")

    def float_env(self, env):
        return {k: self.to_float(v) for k, v in env.items() if v[0] in ("int", "num")}

    def elt_expr(self, node, env):
        if isinstance(node, ast.Name) and node.id == self.HOLE:
            # the formula's free variables `size` and `n` resolve in the template's scope here
            for v in ("size", "n"):
                if env.get(v, (None,))[0] not in ("int", "num", "opaque"):
                    raise TranslationError("template does not bind a number %r at the formula" % v)
            return "f %s %s" % (self.to_float(env["size"]), self.to_float(env["n"]))
        if any(isinstance(x, ast.Name) and x.id == self.HOLE for x in ast.walk(node)):
            raise TranslationError("formula hole inside a larger expression")
        return tr_formula(node, self.float_env(env))

    def list_expr(self, node, env):
        if isinstance(node, ast.List):
            return "[" + ", ".join(self.elt_expr(e, env) for e in node.elts) + "]"
        if isinstance(node, ast.ListComp) and len(node.generators) == 1:
            g = node.generators[0]
            if g.ifs or g.is_async or not isinstance(g.target, ast.Name):
                raise TranslationError("unsupported comprehension")
            rng = self.range_expr(g.iter, env)
            v = self.fresh(g.target.id)
            env2 = dict(env)
            env2[g.target.id] = ("int", v)
            return "%s.map (fun %s => %s)" % (rng, v, self.elt_expr(node.elt, env2))
        raise TranslationError("unsupported list expression %s" % type(node).__name__)

    # --- statements -----------------------------------------------------------------------------
    def block(self, stmts, env, ind):
        pad = "  " * ind
        if not stmts:
            raise TranslationError("template path without return")
        s, rest = stmts[0], stmts[1:]
        try:
            return self.stmt(s, rest, env, ind)
        except _PyRaises as e:
            if not self.exc:
                raise TranslationError("integer mode of a template raises %s" % e)
            return '%s.error "%s"' % (pad, e)

    def stmt(self, s, rest, env, ind):
        pad = "  " * ind
        if isinstance(s, ast.Expr) and isinstance(s.value, ast.Constant) and isinstance(s.value.value, str):
            return self.block(rest, env, ind)
        if isinstance(s, ast.Pass):
            return self.block(rest, env, ind)
        if isinstance(s, ast.Return):
            if s.value is None:
                raise TranslationError("return without value")
            return pad + (".ok (%s)" if self.exc else "%s") % self.list_expr(s.value, env)
        if isinstance(s, ast.If):
            if not s.body or not isinstance(s.body[-1], ast.Return):
                raise TranslationError("if-branch that does not return")
            c = self.bool_expr(s.test, env)
            a = self.block(s.body, env, ind + 1)
            b = self.block(list(s.orelse) + rest, env, ind + 1)
            return "%sif %s then\n%s\n%selse\n%s" % (pad, c, a, pad, b)
        if isinstance(s, ast.Assign) and len(s.targets) == 1:
            t = s.targets[0]
            if isinstance(t, ast.Tuple) and isinstance(s.value, ast.Tuple) and len(t.elts) == len(s.value.elts):
                pairs = list(zip(t.elts, s.value.elts))
            elif isinstance(t, ast.Name):
                pairs = [(t, s.value)]
            else:
                raise TranslationError("unsupported assignment")
            new, lines = {}, []
            for tv, val in pairs:            # right-hand sides see the OLD bindings, evaluated left to right
                if not isinstance(tv, ast.Name):
                    raise TranslationError("unsupported assignment target")
                try:
                    kind, term = self.arith(val, env)
                except TranslationError:
                    kind, term = "range", self.range_expr(val, env)
                lean = self.fresh(tv.id)
                new[tv.id] = (kind, lean)
                ty = {"int": "Int", "num": "Rat", "range": "List Int"}[kind]
                lines.append("%slet %s : %s := %s" % (pad, lean, ty, term))
            env2 = dict(env)
            env2.update(new)
            return "\n".join(lines) + "\n" + self.block(rest, env2, ind)
        raise TranslationError("unsupported statement %s" % type(s).__name__)

    def parse(self, template):
        """-> (signature items, body statements); an item is ("param", name, default-literal | None) or ("params_def",)"""
        try:
            code = template.format(sname="F__", params_def=", %s=0" % self.PARAMS, formula=self.HOLE)
            fn = ast.parse(code).body
        except (KeyError, IndexError, SyntaxError, ValueError) as e:
            raise TranslationError("template does not format/parse: %s" % e)
        if len(fn) != 1 or not isinstance(fn[0], ast.FunctionDef):
            raise TranslationError("template is not one function definition")
        fn = fn[0]
        a = fn.args
        if a.vararg or a.kwarg or a.kwonlyargs or a.posonlyargs:
            raise TranslationError("template signature has */**/keyword-only/positional-only parameters")
        if any(isinstance(x, ast.Name) and x.id == self.PARAMS for x in ast.walk(ast.Module(fn.body, []))):
            raise TranslationError("{params_def} used outside the signature")
        names = [x.arg for x in a.args]
        defaults = [None] * (len(names) - len(a.defaults)) + list(a.defaults)
        if names.count(self.PARAMS) != 1:
            raise TranslationError("template signature does not contain {params_def} exactly once")
        sig = []
        for nm, d in zip(names, defaults):
            if nm == self.PARAMS:
                sig.append(("params_def",))
            else:
                sig.append(("param", nm, None if d is None else _lit(d)))
        return sig, fn.body

    def compile(self, template):
        sig, body = self.parse(template)
        names = [x[1] for x in sig if x[0] == "param"]
        if "size" not in names:
            raise TranslationError("template has no parameter `size`")
        self.count = {"size": 1}
        return self.block(body, {"size": (self.mode, "size")}, 1)


def _lit(node):
    """numeric literal of a signature default -> (numerator, denominator, is an int literal)"""
    neg = False
    if isinstance(node, ast.UnaryOp) and isinstance(node.op, (ast.USub, ast.UAdd)):
        neg = isinstance(node.op, ast.USub)
        node = node.operand
    if not isinstance(node, ast.Constant):
        raise TranslationError("default %s is not a numeric literal" % ast.dump(node)[:60])
    v = node.value
    _num_literal(v)                                  # (same acceptance rule as inside the formulas)
    q = Fraction(repr(v)) if isinstance(v, float) else Fraction(v)
    q = -q if neg else q
    return q.numerator, q.denominator, isinstance(v, int)


def _lean_lit(l):
    return "none" if l is None else "some { num := %d, den := %d, isInt := %s }" % (l[0], l[1], "true" if l[2] else "false")


def _lean_param(name, l):
    return '{ name := "%s", dflt := %s }' % (name, _lean_lit(l))


_src = {}


def read_source(path=None):
    """-> (entries, {dict name: template string}); entries = the literal keywords of each table row"""
    path = path or os.path.join(common.REPO, SRC_REL)
    with warnings.catch_warnings():
        warnings.simplefilter("ignore")
        tree = ast.parse(open(path, encoding="utf-8").read())
    table, templates = None, {}
    for node in tree.body:
        if not (isinstance(node, ast.Assign) and len(node.targets) == 1):
            continue
        t = node.targets[0]
        if not (isinstance(t, ast.Attribute) and isinstance(t.value, ast.Name)):
            continue
        if t.value.id == "window" and t.attr == "_content_generation_table":
            table = node.value
        if t.attr == "_code_template" and t.value.id in ("window", "wsymm"):
            try:
                templates[t.value.id] = ast.literal_eval(node.value)
            except ValueError:
                raise TranslationError("%s._code_template is not a string literal" % t.value.id)
    if table is None or set(templates) != {"window", "wsymm"}:
        raise TranslationError("table or templates not found in " + path)
    # `window.symm = wsymm.symm = wsymm`, `window.periodic = wsymm.periodic = window` (module level, chained)
    links = []
    for node in tree.body:
        if (isinstance(node, ast.Assign) and isinstance(node.value, ast.Name) and node.value.id in ("window", "wsymm")
                and all(isinstance(t, ast.Attribute) and isinstance(t.value, ast.Name) and t.value.id in ("window", "wsymm")
                        and t.attr in ("symm", "periodic") for t in node.targets)):
            links += [(t.value.id, t.attr, node.value.id) for t in node.targets]
    _src["links"] = links
    _src["loop"] = next((n for n in tree.body if isinstance(n, ast.FunctionDef) and n.name == "_generate_window_strategies"), None)
    if not isinstance(table, ast.List):
        raise TranslationError("_content_generation_table is not a list literal")
    entries = []
    for row in table.elts:
        if isinstance(row, ast.Call) and isinstance(row.func, ast.Name) and row.func.id == "dict" and not row.args:
            kws = [(k.arg, k.value) for k in row.keywords]
        elif isinstance(row, ast.Dict):
            kws = [(ast.literal_eval(k), v) for k, v in zip(row.keys, row.values)]
        else:
            raise TranslationError("table row is not dict(...)")
        d = {}
        for k, v in kws:
            try:
                d[k] = ast.literal_eval(v)
            except ValueError:
                if k in ("names", "formula", "params_def", "distinct"):
                    raise TranslationError("table field %s is not a literal" % k)
        entries.append(d)
    return entries, templates


def translate(entries, templates):
    """-> text of Gen/Windows.lean"""
    out = []
    w = out.append
    w("/-\n  GENERATED by harness/props/c14.py (translator T2) from audiolazy/lazy_analysis.py:\n"
      "  `window._content_generation_table` (formulas), `window._code_template`, `wsymm._code_template`.\n"
      "  Regenerated on every `./check C14 …`; do not edit by hand.\n-/")
    w("import ALV.Common.TrigField")
    w("namespace ALV.Gen.Windows")
    w("open ALV")
    w("set_option linter.unusedVariables false")
    w("variable {α : Type} [TrigField α]\n")
    w("/-- `xrange(k)` -/\ndef xrange (k : Int) : List Int := (List.range k.toNat).map Int.ofNat\n")
    w("/-- `xrange(a, b)` -/\ndef xrangeFrom (a b : Int) : List Int := (List.range (b - a).toNat).map (fun i => a + Int.ofNat i)\n")
    w("/-- a numeric literal: exact value `num/den`, and whether it is written as an `int` -/\n"
      "structure Lit where\n  num : Int\n  den : Nat\n  isInt : Bool\n  deriving Repr, DecidableEq\n")
    w("/-- a parameter of a generated function: its name and its default (`none` = required) -/\n"
      "structure Param where\n  name : String\n  dflt : Option Lit\n  deriving Repr, DecidableEq\n")
    w("/-- the signature of a code template: parameters, and the place where `{params_def}` is spliced in -/\n"
      "inductive SigItem where\n  | param (p : Param)\n  | paramsDef\n  deriving Repr, DecidableEq\n")
    w("/-- one row of `window._content_generation_table`: the names, the `distinct` flag and the parameters its\n"
      "    `params_def` text adds to the signature -/\n"
      "structure Row where\n  names : List String\n  distinct : Bool\n  params : List Param\n  deriving Repr, DecidableEq\n")
    seen, rows, defaults, forms = set(), [], [], []
    for e in entries:
        names = e.get("names")
        if (not isinstance(names, tuple) or not names or
                not all(isinstance(x, str) and re.fullmatch(r"[A-Za-z_][A-Za-z0-9_]*", x) for x in names)):
            raise TranslationError("bad names %r" % (names,))
        sname = names[0]
        if sname in seen or sname in LEAN_KEYWORDS - {"cos"} or sname in ("sin", "abs", "pi"):
            raise TranslationError("strategy name %r clashes" % sname)
        seen.add(sname)
        formula = e.get("formula")
        if not isinstance(formula, str):
            raise TranslationError("formula of %s is not a string" % sname)
        distinct = e.get("distinct", True)
        if not isinstance(distinct, bool):
            raise TranslationError("distinct of %s is not a bool" % sname)
        pdef = e.get("params_def", "")
        try:
            sig = ast.parse("def F__(size%s): pass" % pdef).body[0].args
            ftree = ast.parse(formula.strip(), mode="eval")
        except SyntaxError as ex:
            raise TranslationError("%s: %s" % (sname, ex))
        pnames = [a.arg for a in sig.args][1:]
        if sig.vararg or sig.kwarg or sig.kwonlyargs or sig.posonlyargs or len(set(pnames)) != len(pnames) or "size" in pnames:
            raise TranslationError("%s: unsupported parameters %r" % (sname, pdef))
        pdefaults = [None] * (len(pnames) - len(sig.defaults)) + list(sig.defaults)
        plist = [(nm, None if d is None else _lit(d)) for nm, d in zip(pnames, pdefaults[len(pdefaults) - len(pnames):])]
        params = ["alpha"] if "alpha" in pnames else []      # the formula's own extra variable
        env = {"size": "size", "n": "n"}
        default = "none"
        if params:
            env["alpha"] = "alpha"
            d = dict(zip(pnames, pdefaults[len(pdefaults) - len(pnames):]))["alpha"]
            default = "none" if d is None else "some (%s)" % tr_formula(d, {})
        body = tr_formula(ftree, env)
        args = "(size n alpha : α)" if params else "(size n : α)"
        w("/-- formula of %s: `%s` -/" % (", ".join(names), formula.strip()))
        w("def %s %s : α :=\n  %s\n" % (sname, args, body))
        fn = "fun size n alpha => %s size n alpha" % sname if params else "fun size n _ => %s size n" % sname
        forms.append('  | "%s" => some (%s)' % (sname, fn))
        if params:
            defaults.append('  | "%s" => %s' % (sname, default))
        rows.append('  { names := [%s], distinct := %s, params := [%s] }' % (
            ", ".join('"%s"' % x for x in names), "true" if distinct else "false",
            ", ".join(_lean_param(nm, l) for nm, l in plist)))
    w("/-- `window._code_template`: %s -/" % " ⏎ ".join(l.strip() for l in templates["window"].strip().splitlines()))
    w("def periodicT (f : α → α → α) (size : Int) : List α :=\n%s\n" % _Tmpl().compile(templates["window"]))
    w("/-- `wsymm._code_template`: %s -/" % " ⏎ ".join(l.strip() for l in templates["wsymm"].strip().splitlines()))
    w("def symmT (f : α → α → α) (size : Int) : List α :=\n%s\n" % _Tmpl().compile(templates["wsymm"]))
    for dn, tn in (("window", "periodic"), ("wsymm", "symm")):
        w("/-- `%s._code_template` called with a `size` that is a number WITHOUT `__index__` (float, Fraction) of exact\n"
          "    value `size`: `xrange(size)` raises TypeError, `size == 1` is decided on the value -/" % dn)
        w("def %sN (f : α → α → α) (size : Rat) : Except String (List α) :=\n%s\n" % (tn, _Tmpl("num").compile(templates[dn])))
        w("/-- `%s._code_template` called with a `size` that is no number at all (None, str): `==` is False, arithmetic and\n"
          "    `xrange` raise TypeError -/" % dn)
        w("def %sO (f : α → α → α) : Except String (List α) :=\n%s\n" % (tn, _Tmpl("opaque").compile(templates[dn])))
        sig, _body = _Tmpl().parse(templates[dn])
        w("/-- signature of `%s._code_template` (`def {sname}(...)`) -/" % dn)
        w("def %sSig : List SigItem := [%s]\n" % (dn, ", ".join(
            ".paramsDef" if it[0] == "params_def" else ".param " + _lean_param(it[1], it[2]) for it in sig)))
    w("/-- the module-level attribute assignments `window.symm = wsymm.symm = wsymm` and\n"
      "    `window.periodic = wsymm.periodic = window`: (object, attribute, value) -/")
    w("def dictLinks : List (String × String × String) := [%s]\n" % ", ".join(
        '("%s", "%s", "%s")' % l for l in _src.get("links", [])))
    w("/-- `window._content_generation_table`: names, `distinct` flags and parameters, in table order -/")
    w("def rows : List Row := [\n%s]\n" % ",\n".join(rows))
    w("/-- default of the extra parameter (`params_def`) of the row whose first name is `sname` -/")
    w("def alphaDefault (sname : String) : Option α :=\n  match sname with\n%s\n" % "\n".join(defaults + ["  | _ => none"]))
    w("/-- the `{formula}` of the row whose first name is `sname`, as a function of (size, n, alpha) -/")
    w("def formula (sname : String) : Option (α → α → α → α) :=\n  match sname with\n%s\n" % "\n".join(forms + ["  | _ => none"]))
    w("end ALV.Gen.Windows")
    return "\n".join(out) + "\n"


def regenerate(eng=None):
    """Both translators: T2 (table, templates -> Gen/Windows.lean) and T2b (the loop -> Gen/C14Src.lean).  Each keeps its
    last committed file on a failure; the first failure is re-raised after both ran (= broken obligation)."""
    out, first = [], None
    for name, fn in (("T2", regenerate_t2), ("T2b", c14_tr.regenerate)):
        try:
            out.append("%s %s" % (name, fn(eng)))
        except Exception as e:
            out.append("%s FAILED" % name)
            _last["failed_" + name] = True
            if first is None:
                first = e
    if first is not None:
        if isinstance(first, (TranslationError, c14_tr.TranslationError)):
            raise TranslationError("%s [%s]" % (first, "; ".join(out)))
        raise first
    return "; ".join(out)


def regenerate_t2(eng=None):
    """Rewrite lean/ALV/Gen/Windows.lean from the repo under test.  On a translation failure the
    previous (compilable) file is left in place and the error propagates (= broken obligation)."""
    path = os.path.join(common.LEAN, GEN_REL)
    try:
        text = translate(*read_source())
    except Exception:
        # leave the last COMMITTED translation in place (not whatever an earlier run on another copy of the repo wrote):
        # the driver and the theorems then speak about the last state of the repo that could be translated
        try:
            import subprocess
            good = subprocess.run(["git", "-C", common.VERIF, "show", "HEAD:lean/" + GEN_REL.replace(os.sep, "/")],
                                  capture_output=True, text=True, timeout=30)
            if good.returncode == 0 and good.stdout and (not os.path.exists(path) or open(path).read() != good.stdout):
                with open(path, "w") as f:
                    f.write(good.stdout)
        except Exception:
            pass
        raise
    old = open(path).read() if os.path.exists(path) else None
    if old != text:
        os.makedirs(os.path.dirname(path), exist_ok=True)
        with open(path, "w") as f:
            f.write(text)
        return "rewritten (%d bytes)" % len(text)
    return "unchanged (%d bytes)" % len(text)


# =============================================================================================
# The tie
# =============================================================================================
RULE = ("every (dictionary, name/alias, size) for sizes 0..96 plus sampled sizes up to 256 (quick) / 4096 "
        "(thorough), blackman/cos over an alpha grid (int and float alphas, defaults), several access routes; "
        "a small malformed stream (unknown names, alpha for strategies without one, negative alpha for cos, "
        "negative sizes); plus the documented closed form (docstring `.. math::`) of every strategy evaluated by a small "
        "LaTeX evaluator; plus HISTORIES of 1..4 calls (same call repeated, aliases, access routes, other dictionary, "
        "the window(size)/wsymm(size+1) prefix pair, size+-1, other alpha / other spelling of the same alpha, other "
        "strategy) with the caller changing the returned lists in place between the calls (append first sample, scale, "
        "sort, clear, NaN, decrement last, pop, double, nothing): exhaustive over (dictionary, name, size 1/4, mutation) "
        "for call-mutate-call, the docstring recipe for every strategy, random ones; plus CALLS AS WRITTEN (pycall): every "
        "strategy x every call shape ((size), (size, alpha), (size, alpha=), (size=), (size=, alpha=), (alpha=, size=) and 7 "
        "malformed ones) x 23 alpha spellings (0 / 0.0 / Fraction(0) / False, the defaults as int / float / Fraction / bool, "
        "the ends of the documented range, negative, 10**6, None, a str) at sizes 1 and 4/5, every strategy name x 17 size "
        "spellings (0, 1, 2, 3, 8, True, False, 4.0, 1.0, 2.5, Fraction(4), Fraction(1), Fraction(7,2), -1, -5, None, str), "
        "6 access routes x 3 shapes x 3 sizes, cos with alpha = 0 in 4 spellings x 9 sizes, random mixes; plus SCANS of all "
        "sizes 0..200 (quick) / 0..3000 (thorough; given alphas to half of that) per strategy and alpha grid with exact "
        "float comparisons; each call against the model/spec of "
        "that call alone + object identity checks.  Non-trivial: the impl returns a list of at least 2 samples (history: "
        "at least 2 calls, one with 2 samples); distinct = distinct JSON case")
TRUSTED = [
    "translator T2 (harness/props/c14.py: ast -> lean/ALV/Gen/Windows.lean), cross-checked on every run: the generated "
    "definitions are evaluated at Float by the driver and compared with the lists the real strategies return; the "
    "regenerated signatures / dictionary links are compared with inspect.signature / the attributes of the running objects",
    "model of Python's argument binding for `def f(p1, p2=d)` (ALV.C14.bind) and of the kinds of values (`__index__` only "
    "for int / bool; None and str support no arithmetic; `==` between a number and 1 by value): modelled, tied by the pycall "
    "cases; `f(*pos, **kw)` is how every case calls (so `*args` of any length is the positional form)",
    "a float argument is given to the model by its exact rational value (float size: only `== 1` and the TypeError matter; "
    "float alpha: p/q with p, q < 2^53 * 2^k converts back to the same double); inf / nan / complex arguments and ints "
    "beyond float range are not modelled",
    "translator T2b (harness/props/c14_tr.py: ast -> lean/ALV/Gen/C14Src.lean) reads `_generate_window_strategies` as a program "
    "of ALV.C14.Loop (13 statement forms; anything else is a TranslationError); it trusts: CPython's `ast`; the statement "
    "recognisers (local variables bound by role: a renamed variable is the same program); the Python semantics the "
    "interpreter lean/ALV/Model/C14Loop.lean gives each form — chained assignment evaluates the value first and assigns the "
    "targets left to right, `for` over a list display, `break` leaves the inner loop only, `d.get(k, dflt)`, `d.setdefault`, "
    "`reduce(lambda f, d: d(f), decs, f0)` applies the decorators in list order, `exec(code, ns, ns)` of a template that is one "
    "`def {sname}` leaves one new function object at ns[sname]; and the vocabulary mapping: `sdict.strategy(*names)(f)` is "
    "`sdict[names] = f` (returns the dictionary), `format_docstring(...)(f)` returns f, `StrategyDict.__setitem__` / "
    "`__getitem__` / `default` are `SDict.setKeys` / `get` / `default` (modelled, not verified: MultiKeyDict internals), "
    "function attributes are per-object maps; module context: `from X import n` binds n to X.n (one binding per name checked), "
    "the function is called at module level after the table and templates exist; a function object is identified with (row, "
    "template it was exec'ed from), which is object identity as long as each template is exec'ed at most once per row (true of "
    "the loop as written; on a mutant that execs window's template twice the interpreter cannot tell the two objects apart).  "
    "Cross-checked on every run: the state the "
    "interpreter computes from the REGENERATED program and table is compared with the registry, identities and attributes of "
    "the running module (extra_checks `... = regenerated loop`), so the interpreter's reading is tied also on mutated loops",
    "hand-written Lean model ALV/Model/C14.lean (`genStep`, `generated`, `call`): now proved equal to the run of the regenerated "
    "loop (`src_generate_window_strategies_row`, `src_generated_is_model`), no longer pinned by a hash",
    "Float instance of TrigField (libm cos/sin/pow through the Lean runtime) is only used on the correspondence side; "
    "the theorems are over the reals",
    "integer-typed sub-expressions of a formula such as (size + 2) are computed in the number class (exact below 2^53)",
    "histories: CPython object identity (`is`), sys.getrefcount / gc.get_referrers and a bounded walk over the strategy "
    "function's closure, defaults, attributes and globals are the observations of aliasing; histories of world 'new' run "
    "on a second instance of audiolazy.lazy_analysis (same source, exec'ed into a new module object), world 'imported' on "
    "the imported objects in a child of a forked copy of the harness process made before any strategy call",
]
ASSUMPTIONS = [
    "theorems are over R (Mathlib).  On the impl: model (Float twin) vs impl within 1e-12 (bit-exact in practice, see "
    "histogram py_float_twin); range [0,1] with NO tolerance (a sample outside by <= 1e-12 is reported under the clause "
    "range-float-noise(...), by more under range); periodic prefix and wsymm.X(1) == [1.0] bit-exact; symmetry bit-exact "
    "for rect / bartlett / triangular (`abs(n - size/2.0)` is exact), within 4e-15 for hann / hamming / blackman / cos, "
    "whose two mirrored arguments of cos/sin are rounded separately (largest difference seen up to size 4096: 7.8e-16), "
    "scaled by |alpha| and conditioning-aware for cos with 0 < alpha < 1",
    "the [0,1] clause is read literally on floats: window.blackman(size, alpha)[0] == -2**-54 for some alphas in the "
    "documented range (not the default) is recorded as a known finding with a proposed fix, not absorbed by a tolerance",
    "sizes: the property quantifies over integer sizes; what the code does with other values is modelled and tied but not "
    "specified: float / Fraction / None / str sizes raise TypeError, except that the symmetric template returns [1.0] for "
    "any number EQUAL to 1 (wsymm.hann(1.0), wsymm.hann(Fraction(1))); bool is an int; sizes <= 0 give []",
    "range [0,1]: blackman for alpha in [-1/4, 1/4], cos for alpha >= 0 (outside, the closed forms really leave [0,1])",
    "a strategy is specified as a function of the arguments of each call: the caller owns the returned list (the "
    "docstring of every periodic window tells it to append the first sample), so a history in which an earlier result "
    "was changed in place must give the same samples as the call alone, in a new list object",
    "wsymm lacks the aliases 'dirichlet'/'rectangular' of the shared rect strategy (DESIGN.md section 8: observation, "
    "not counted as a violation); the tie accepts KeyError or the rect list there and counts it in the histogram",
]
MANIFEST = {"technique": "Lean 4 proofs over definitions regenerated from the repo's formula table, parameter lists, code "
                         "templates (body and signature) and dictionary links (translator T2) and over the loop "
                         "_generate_window_strategies regenerated as a program value with an interpreter (translator T2b, "
                         "harness/props/c14_tr.py; src_*_is_model theorems) + model of the Python call "
                         "layer + Float twin differential correspondence + exact float scans",
            "note": "65 theorems: the regenerated loop = the model (program equality by rfl; every iteration = genStep for all "
                    "states and rows; run on the regenerated table = `generated` by decide); registry / links / defaults / signatures by decide over the regenerated tables; call layer "
                    "(positional = keyword, omitted = default, bool = int, spelling-independence over R, rejected sizes, "
                    "alpha=None, malformed shapes); closed forms, prefix, symmetry, range, COLA for all sizes over R; "
                    "histories.  Known finding: blackman end sample -2**-54 for some alphas."}

TRANSLATED = {
    "translator": "harness/props/c14_tr.py -> lean/ALV/Gen/C14Src.lean (T2b, deep: program value of ALV.C14.Loop.Prog + interpreter "
                  "Model/C14Loop.lean); harness/props/c14.py::regenerate_t2 -> lean/ALV/Gen/Windows.lean (T2, shallow: generic Lean "
                  "definitions)",
    "under_translator": {
        "lazy_analysis._generate_window_strategies": "T2b deep: every statement of the loop, the imports of pi/sin/cos/xrange/"
            "reduce/format_docstring, the single module-level call; theorems src_generate_window_strategies_is_model, "
            "src_generate_window_strategies_row, src_generate_window_strategies_table, src_generated_is_model",
        "window._content_generation_table / window._code_template / wsymm._code_template / module-level dictionary links": "T2 "
            "(since round 2): formulas, parameter lists, template bodies in three modes and signatures, links",
    },
    "not_translated": {
        "lazy_core.StrategyDict.strategy / __setitem__ / __getitem__ / __call__ / default (and MultiKeyDict)": "class machinery "
            "with `super()`, `vars(self)`, `setattr`, deletion of keys: outside the small subset; the vocabulary `SDict.setKeys` / "
            "`get` / `default` stays hand-modelled and tied by the registry / identity checks (that slice of lazy_core belongs to "
            "the StrategyDict property)",
        "lazy_text.format_docstring": "only changes __doc__; modelled as the identity on function objects (the docstrings' math "
            "is checked separately by the docmath cases)",
        "window._doc_kwargs (the lambda that builds the docstrings)": "text only, no effect on the registry or the samples",
        "Python's argument binding (ALV.C14.bind / pyCall)": "interpreter semantics, not a function of the repo",
    },
}
TOL = Fraction(1, 10 ** 12)
# symmetry of the trigonometric windows on floats: cos(2 pi n / N) against cos(2 pi (N - n) / N) — the two arguments are
# rounded separately, the samples differ by a few units in the last place (largest seen for sizes up to 4096: 7.8e-16)
SYM_TOL = Fraction(4, 10 ** 15)
ALPHA_KINDS = ("blackman", "cos")
ROUTES = ("item", "attr", "dictlink", "funclink")
_last = {}


def _alpha_grid(kind):
    if kind == "blackman":
        return [None, 0.16, 0, 0.25, -0.25, 0.1, 2.0 * 1430 / 18608, 0.2, 1, -1, 0.5]
    return [None, 1, 2, 0, 0.5, 1.5, 3, 0.25, 2.0, 7]


def _mk(dict_, name, size, alpha=None, route="item", kw=False):
    c = {"entry": "call", "dict": dict_, "name": name, "size": size, "alpha": None, "route": route}
    if alpha is not None:
        c["alpha"] = enc(alpha)
        c["alpha_int"] = isinstance(alpha, int)
        c["alpha_kw"] = bool(kw)
    return c


def _names():
    """names per dictionary from the SPEC side (documented aliases), not from the impl"""
    kinds = [("hann", ["hann", "hanning"]), ("hamming", ["hamming"]), ("rect", ["rect", "dirichlet", "rectangular"]),
             ("bartlett", ["bartlett"]), ("triangular", ["triangular", "triangle"]), ("blackman", ["blackman"]),
             ("cos", ["cos"])]
    return kinds


def generate(rng, tier, scale=1):
    cases = []
    quick = tier == "quick"
    dense = 96 if quick else 200
    top = 256 if quick else 4096
    nsamp = (14 if quick else 60) * scale
    nalpha = (30 if quick else 120) * scale
    for dict_ in ("window", "wsymm"):
        for kind, names in _names():
            for name in names:
                sizes = list(range(0, dense + 1)) if scale == 1 else []
                sizes += [rng.randint(dense + 1, top) for _ in range(nsamp)]
                if dict_ == "wsymm" and name in ("dirichlet", "rectangular"):
                    sizes = sizes[:6]          # observation O1 (aliases missing in wsymm): a few probes suffice
                if scale == 1:
                    sizes += [top, top - 1] if name == names[0] else []
                for size in sizes:
                    route = ROUTES[(size + len(name)) % 4] if size % 3 else "item"
                    cases.append(_mk(dict_, name, size, route=route))
            if kind in ALPHA_KINDS:
                grid = _alpha_grid(kind)
                for a in grid[1:]:
                    for size in ([1, 2, 3, 4, 5, 8, 12, 14, 16, 27, 31, 32] if scale == 1 else []):
                        cases.append(_mk(dict_, kind, size, a, kw=(size % 2 == 0)))
                for _ in range(nalpha):
                    a = rng.choice(grid[1:] + [rng.randint(-25, 25) / 100.0 if kind == "blackman"
                                               else rng.randint(0, 400) / 100.0])
                    size = rng.choice([rng.randint(1, 64), rng.randint(1, top), 4 * rng.randint(1, 64)])
                    cases.append(_mk(dict_, kind, size, a, route=rng.choice(ROUTES), kw=rng.random() < 0.5))
        # the documented closed forms (docstring math) of every strategy
        if scale == 1:
            for kind, names in _names():
                for size in (2, 3, 4, 5, 8, 9, 16, 33):
                    for a in ([None, 0.25, 2] if kind in ALPHA_KINDS else [None]):
                        d = _mk(dict_, kind, size, a)
                        d["entry"] = "docmath"
                        cases.append(d)
        # the dictionary called directly: the default strategy
        for size in ([0, 1, 2, 3, 4, 7, 8, 16, 33] if scale == 1 else [rng.randint(0, top)]):
            cases.append(_mk(dict_, None, size))
        # malformed stream
        if scale == 1:
            for name in ("hann", "bartlett", "rect"):
                cases.append(_mk(dict_, name, 5, 0.5))                 # no alpha parameter: TypeError
            for size in (0, 1, 2, 5):
                cases.append(_mk(dict_, "cos", size, -1))              # 0.0 ** -1: ZeroDivisionError
                cases.append(_mk(dict_, "cos", size, -0.5, kw=True))
            for name in ("hannn", "kaiser", "Hann", ""):
                cases.append(_mk(dict_, name, 4))                      # KeyError
            for size in (-1, -7):
                cases.append(_mk(dict_, "hamming", size))              # xrange(negative): empty list
    return cases + _gen_pycalls(rng, tier, scale) + _gen_scans(rng, tier, scale) + _gen_histories(rng, tier, scale)


# ---------------------------------------------------------------------------------------------
# histories: generation
# ---------------------------------------------------------------------------------------------
MUTS = ("append0", "scale", "sort", "clear", "nan", "dec", "pop", "double", "none")
MUT_TEXT = {"append0": "{p}.append({p}[0])", "scale": "{p}[:] = [2 * x for x in {p}]", "sort": "{p}.sort()",
            "clear": "del {p}[:]", "nan": "{p}[len({p}) // 2] = nan", "dec": "{p}[-1] -= 1", "pop": "{p}.pop()",
            "double": "{p} += list({p})", "none": "nothing"}
RELATIONS = ("same", "same", "alias", "alias", "route", "otherdict", "prefixpair", "prefixpair", "size+1", "size-1",
             "alpha-spelling", "other-alpha", "default", "other-strategy")
ALPHA_DEFAULT = {"blackman": 0.16, "cos": 1}          # documented defaults (spec side)


def _step(dict_, name, size, alpha=None, route="item", kw=False, mut="none"):
    s = _mk(dict_, name, size, alpha, route, kw)
    del s["entry"]
    s["mut"] = mut
    return s


def _hist(steps, world="new"):
    return {"entry": "history", "world": world, "steps": [dict(s) for s in steps]}


def _kind_of(name):
    if name is None:
        return "hann"                                    # documented default strategy of both dictionaries
    for kind, names in _names():
        if name in names:
            return kind
    return None


def _wsymm_name(name):
    """observation O1: wsymm knows the shared rect strategy only as 'rect'"""
    return "rect" if name in ("dirichlet", "rectangular") else name


def _related(rng, st, rel):
    """a call related to the call `st` (mutation not set)"""
    d = dict(st)
    kind = _kind_of(st["name"])
    names = dict(_names()).get(kind, [st["name"]])
    other = "wsymm" if st["dict"] == "window" else "window"
    if rel == "alias":
        d["name"] = rng.choice(names)
    elif rel == "route":
        d["route"] = rng.choice(ROUTES)
    elif rel == "otherdict":
        d["dict"] = other
    elif rel == "prefixpair":
        d["dict"] = other
        d["size"] = st["size"] + 1 if other == "wsymm" else max(st["size"] - 1, 0)
    elif rel == "size+1":
        d["size"] = st["size"] + 1
    elif rel == "size-1":
        d["size"] = max(st["size"] - 1, 0)
    elif rel == "alpha-spelling" and kind in ALPHA_KINDS and st["name"] is not None:
        a = _alpha_of(st)
        if a is None:                                     # the default, spelled out (int / float, positional / keyword)
            a = ALPHA_DEFAULT[kind] if rng.random() < 0.7 else float(ALPHA_DEFAULT[kind])
            d = _step(st["dict"], st["name"], st["size"], a, st.get("route", "item"), rng.random() < 0.5)
        elif float(a) == float(ALPHA_DEFAULT[kind]) and rng.random() < 0.5:
            d = _step(st["dict"], st["name"], st["size"], None, st.get("route", "item"))
        else:
            d["alpha_kw"] = not st.get("alpha_kw")
    elif rel == "other-alpha" and kind in ALPHA_KINDS and st["name"] is not None:
        a = rng.choice([x for x in _alpha_grid(kind)[1:] if kind != "cos" or x >= 0])
        d = _step(st["dict"], st["name"], st["size"], a, st.get("route", "item"), rng.random() < 0.5)
    elif rel == "default" and kind == "hann":
        d = _step(st["dict"], None if st["name"] is not None else "hann", st["size"])
    elif rel == "other-strategy":
        k2, n2 = rng.choice(_names())
        d = _step(st["dict"], rng.choice(n2), st["size"], route=st.get("route", "item"))
    if d["dict"] == "wsymm":
        d["name"] = _wsymm_name(d["name"])
    if d["name"] is None:
        d["route"] = "item"
    d["mut"] = "none"
    return d


def _rand_history(rng, top, world="new"):
    dict_ = rng.choice(("window", "wsymm"))
    kind, names = rng.choice(_names())
    name = rng.choice(names)
    size = rng.choice([0, 1, 1, 2, 2, 3, 4, 5, 8, rng.randint(0, 16), rng.randint(0, 16), rng.randint(0, 64),
                       4 * rng.randint(1, 16), rng.randint(0, top)])
    alpha = None
    if kind in ALPHA_KINDS and rng.random() < 0.5:
        alpha = rng.choice([x for x in _alpha_grid(kind)[1:] if kind != "cos" or x >= 0] + [ALPHA_DEFAULT[kind]])
    steps = [_step(dict_, _wsymm_name(name) if dict_ == "wsymm" else name, size, alpha, rng.choice(ROUTES),
                   rng.random() < 0.5)]
    for _ in range(rng.choice((1, 1, 2, 2, 2, 3, 3)) if size <= 64 else 1):
        steps.append(_related(rng, rng.choice(steps[-2:]), rng.choice(RELATIONS)))
    for i, s in enumerate(steps):
        last = i == len(steps) - 1
        s["mut"] = rng.choice(MUTS[:-1] + MUTS[:5]) if rng.random() < (0.3 if last else 0.85) else "none"
    return _hist(steps, world)


def _gen_histories(rng, tier, scale):
    _pristine_copy()             # (made now: no strategy has been called yet in this process)
    quick = tier == "quick"
    top = 256 if quick else 4096
    out = []
    if scale == 1:
        for dict_ in ("window", "wsymm"):
            for kind, names in _names():
                for name in names:
                    if dict_ == "wsymm" and name != _wsymm_name(name):
                        continue
                    # call, caller changes ITS list, the same call again: every mutation, a size with one sample
                    # and one with several (thorough: a few more)
                    for size in ((1, 4) if quick else (0, 1, 2, 4, 5, 9)):
                        for mut in MUTS[:-1]:
                            out.append(_hist([_step(dict_, name, size, mut=mut), _step(dict_, name, size)]))
                    # nothing changed: two calls still return two objects (and a later call with other arguments
                    # does not rewrite the list of the first)
                    for size in (0, 1, 3):
                        out.append(_hist([_step(dict_, name, size), _step(dict_, name, size), _step(dict_, name, size + 2)]))
                # the warm case: the second call may come from a store the first call filled
                out.append(_hist([_step(dict_, kind, 6), _step(dict_, kind, 6, mut="scale"), _step(dict_, kind, 6)]))
                out.append(_hist([_step(dict_, kind, 1), _step(dict_, kind, 1, mut="dec"), _step(dict_, kind, 1)]))
        for kind, names in _names():
            for size in (1, 2, 5, 8, 12):
                for name in names[:1] if quick and size > 2 else names:
                    # the recipe of the periodic windows' docstring: "append the first sample at the end to get a
                    # size + 1 symmetric window", then a gain applied in place to the symmetric one, then both again
                    out.append(_hist([_step("window", name, size, mut="append0"),
                                      _step("wsymm", _wsymm_name(name), size + 1, mut="scale"),
                                      _step("window", name, size),
                                      _step("wsymm", _wsymm_name(name), size + 1)]))
                # symmetric first, periodic afterwards (and back)
                out.append(_hist([_step("wsymm", kind, size + 1, mut=MUTS[size % 8]), _step("window", kind, size),
                                  _step("wsymm", kind, size + 1)]))
            # wsymm.X(1) is [1.0] whatever was done to the [1.0] of X and of the OTHER strategies
            ks = [k for k, _n in _names()]
            i = ks.index(kind)
            out.append(_hist([_step("wsymm", kind, 1, mut="dec"), _step("wsymm", ks[(i + 1) % len(ks)], 1, mut="nan"),
                              _step("wsymm", ks[(i + 2) % len(ks)], 1, mut="clear"), _step("wsymm", kind, 1)]))
            out.append(_hist([_step("wsymm", kind, 1, mut="append0"), _step("window", ks[(i + 3) % len(ks)], 1)]))
            # alpha spelled in the three ways
            if kind in ALPHA_KINDS:
                a = ALPHA_DEFAULT[kind]
                for dict_ in ("window", "wsymm"):
                    out.append(_hist([_step(dict_, kind, 5, mut="sort"), _step(dict_, kind, 5, a, mut="append0"),
                                      _step(dict_, kind, 5, a, kw=True, mut="clear"), _step(dict_, kind, 5)]))
                    out.append(_hist([_step(dict_, kind, 4, 2, mut="double"), _step(dict_, kind, 4, 2.0, mut="nan"),
                                      _step(dict_, kind, 4, 2, kw=True)]))
        main = MUTS[:5]
        for kind, names in _names():
            # aliases: one strategy under two names
            for dict_ in ("window", "wsymm"):
                ns = names if dict_ == "window" else sorted({_wsymm_name(n) for n in names}, key=names.index)
                for n1 in ns:
                    for n2 in ns:
                        if n1 != n2:
                            for size in (1, 4):
                                for mut in main:
                                    out.append(_hist([_step(dict_, n1, size, mut=mut), _step(dict_, n2, size)]))
                # the four access routes to one strategy
                for i, r1 in enumerate(ROUTES):
                    r2 = ROUTES[(i + 1 + len(kind)) % 4] if ROUTES[(i + 1 + len(kind)) % 4] != r1 else ROUTES[(i + 1) % 4]
                    out.append(_hist([_step(dict_, kind, 5, route=r1, mut=MUTS[(i + len(kind)) % 8]),
                                      _step(dict_, names[-1] if dict_ == "window" else kind, 5, route=r2)]))
        for dict_ in ("window", "wsymm"):
            for mut in MUTS[:-1]:
                # the dictionary called directly = its default strategy (hann)
                out.append(_hist([_step(dict_, None, 4, mut=mut), _step(dict_, "hann", 4)]))
                out.append(_hist([_step(dict_, "hanning", 3, mut=mut), _step(dict_, None, 3)]))
        for name in dict(_names())["rect"]:
            for mut in main:
                # rect: ONE function object in both dictionaries
                out.append(_hist([_step("window", name, 3, mut=mut), _step("wsymm", "rect", 3)]))
                out.append(_hist([_step("wsymm", "rect", 2, mut=mut), _step("window", name, 2)]))
        # an exception in between (no alpha parameter, 0.0 ** -1) leaves nothing behind
        for dict_ in ("window", "wsymm"):
            out.append(_hist([_step(dict_, "cos", 3, mut="scale"), _step(dict_, "cos", 3, -1), _step(dict_, "cos", 3)]))
            out.append(_hist([_step(dict_, "hann", 3, mut="clear"), _step(dict_, "hann", 3, 0.5), _step(dict_, "hann", 3)]))
            out.append(_hist([_step(dict_, None, 4, mut="append0"), _step(dict_, "hann", 4, mut="pop"), _step(dict_, None, 4)]))
    nrand = (260 if quick else 2600) * scale
    nlive = (90 if quick else 600) * scale
    for _ in range(nrand):
        out.append(_rand_history(rng, top))
    for _ in range(nlive):
        out.append(_rand_history(rng, min(top, 64), "imported"))
    if scale == 1:
        # the docstring recipe once more on the imported objects themselves
        for kind, _names_ in _names():
            out.append(_hist([_step("window", kind, 5, mut="append0"), _step("wsymm", kind, 6, mut="scale"),
                              _step("window", kind, 5), _step("wsymm", kind, 6)], "imported"))
            out.append(_hist([_step("wsymm", kind, 1, mut="dec"), _step("wsymm", kind, 1)], "imported"))
    return out


# ---------------------------------------------------------------------------------------------
# "each sample equals the documented closed form": the `.. math::` line of a strategy's docstring
# ---------------------------------------------------------------------------------------------
class _LatexError(Exception):
    pass


_TOK = re.compile(r"\s*(\\[a-zA-Z]+|\d*\.\d+|\d+|[a-zA-Z]+|[-+^{}()\[\]|])")
_CLOSE = {"(": ")", "[": "]", "|": "|"}


def _latex_tokens(text):
    pos, out = 0, []
    text = text.strip()
    while pos < len(text):
        m = _TOK.match(text, pos)
        if not m:
            raise _LatexError("bad character at %d" % pos)
        out.append(m.group(1))
        pos = m.end()
    return out


class _LatexParser:
    """expr := ['-'] term (('+'|'-') term)* ; term := factor+ (juxtaposition = product) ;
    factor := atom ['^' group] ; atom := number | n | size | \\alpha | \\pi | \\frac group group |
    \\cos factor | \\sin factor | \\left( expr \\right) | \\left[ expr \\right] | \\left| expr \\right| | group"""

    def __init__(self, toks):
        self.t, self.i = toks, 0

    def peek(self):
        return self.t[self.i] if self.i < len(self.t) else None

    def take(self, want=None):
        tok = self.peek()
        if tok is None or (want is not None and tok != want):
            raise _LatexError("expected %r, got %r" % (want, tok))
        self.i += 1
        return tok

    def expr(self, stop):
        neg = False
        if self.peek() == "-":
            self.take()
            neg = True
        v = self.term(stop)
        if neg:
            v = ("neg", v)
        while self.peek() in ("+", "-"):
            op = self.take()
            v = (op, v, self.term(stop))
        return v

    def term(self, stop):
        v = self.factor()
        while self.peek() is not None and self.peek() not in ("+", "-", "}", "\\right") + tuple(stop):
            v = ("*", v, self.factor())
        return v

    def group(self):
        self.take("{")
        v = self.expr(())
        self.take("}")
        return v

    def factor(self):
        v = self.atom()
        if self.peek() == "^":
            self.take()
            v = ("pow", v, self.group())
        return v

    def atom(self):
        tok = self.take()
        if re.fullmatch(r"\d*\.\d+|\d+", tok):
            return ("num", float(tok))
        if tok in ("n", "size"):
            return ("var", tok)
        if tok == "\\alpha":
            return ("var", "alpha")
        if tok == "\\pi":
            return ("pi",)
        if tok == "\\frac":
            a = self.group()
            return ("/", a, self.group())
        if tok in ("\\cos", "\\sin"):
            return (tok[1:], self.factor())
        if tok == "\\left":
            d = self.take()
            if d not in _CLOSE:
                raise _LatexError("delimiter %r" % d)
            v = self.expr(())
            self.take("\\right")
            self.take(_CLOSE[d])
            return ("abs", v) if d == "|" else v
        if tok == "{":
            self.i -= 1
            return self.group()
        raise _LatexError("unexpected %r" % tok)


def _latex_parse(text):
    p = _LatexParser(_latex_tokens(text))
    v = p.expr(())
    if p.peek() is not None:
        raise _LatexError("trailing %r" % p.peek())
    return v


def _latex_eval(t, env):
    import math
    k = t[0]
    if k == "num":
        return t[1]
    if k == "var":
        return float(env[t[1]])
    if k == "pi":
        return math.pi
    if k == "neg":
        return -_latex_eval(t[1], env)
    if k in ("cos", "sin", "abs"):
        return {"cos": math.cos, "sin": math.sin, "abs": abs}[k](_latex_eval(t[1], env))
    a, b = _latex_eval(t[1], env), _latex_eval(t[2], env)
    return {"+": a + b, "-": a - b, "*": a * b, "/": (a / b) if k == "/" else None,
            "pow": (a ** b) if k == "pow" else None}[k]


def _impl_docmath(c):
    """the documented closed form of sd[name], evaluated at n = 0..size-1"""
    from audiolazy import window, wsymm
    import inspect
    try:
        f = (window if c["dict"] == "window" else wsymm)[c["name"]]
    except KeyError:
        return {"doc": "no-such-strategy"}
    m = re.search(r"\.\. math:: (.*)", f.__doc__ or "")
    if not m:
        return {"doc": None}
    a = _alpha_of(c)
    if a is None:
        d = inspect.signature(f).parameters.get("alpha")
        a = d.default if d is not None else None
    try:
        tree = _latex_parse(m.group(1))
        env = {"size": c["size"], "alpha": a}
        vals = []
        for n in range(c["size"]):
            env["n"] = n
            vals.append(_latex_eval(tree, env))
        return {"doc": [enc(float(v)) for v in vals], "math": m.group(1)}
    except (_LatexError, KeyError, TypeError, ZeroDivisionError, ValueError, OverflowError) as e:
        return {"doc": "unparsed", "why": "%s: %s" % (type(e).__name__, e), "math": m.group(1)}


def _alpha_of(c):
    if c.get("alpha") is None:
        return None
    v = dec(c["alpha"])
    return int(v) if c.get("alpha_int") else float(v)


def _lookup(c, ws=None):
    if ws is None:
        from audiolazy import window, wsymm
    else:
        window, wsymm = ws
    sd, other = (window, wsymm) if c["dict"] == "window" else (wsymm, window)
    name, route = c["name"], c.get("route", "item")
    if name is None:
        return sd
    if route == "attr" and name:
        try:
            return getattr(sd, name)
        except AttributeError:
            raise KeyError(name)
    if route == "dictlink":                      # window.symm is wsymm, wsymm.periodic is window
        via = other.symm if c["dict"] == "wsymm" else other.periodic
        return via[name]
    if route == "funclink":                      # wsymm.X.periodic is window.X, window.X.symm is wsymm.X
        f = other[name] if name in _keys(other) and name in _keys(sd) else None
        if f is not None:
            return f.symm if c["dict"] == "wsymm" else f.periodic
    return sd[name]


def _keys(sd):
    return {k for ks in sd.keys() for k in ks}


def _invoke(f, args, kw):
    """-> (result, its reference count straight after the call)"""
    out = f(*args, **kw)
    return out, sys.getrefcount(out)


_rc0 = []


def _refcount_of_a_new_list():
    if not _rc0:
        _rc0.append(_invoke(lambda *a, **k: [0.5, float(len(a))], (2,), {})[1])
    return _rc0[0]


def _call_obs(c, ws=None):
    """one call -> (observation, returned object | None, references to it held elsewhere, function | None)"""
    f = out = None
    extra = 0
    try:
        f = _lookup(c, ws)
        a = _alpha_of(c)
        args, kw = (c["size"],), {}
        if a is not None:
            if c.get("alpha_kw"):
                kw["alpha"] = a
            else:
                args += (a,)
        out, rc = _invoke(f, args, kw)
        extra = rc - _refcount_of_a_new_list()
        if isinstance(out, list):
            cx = [i for i, x in enumerate(out) if type(x) is complex]
            if cx:                    # Python 3: negative ** non-integer is a complex number
                return ({"err": "ComplexSample", "index": cx[0], "value": repr(out[cx[0]]), "len": len(out)},
                        out, extra, f)
        if not isinstance(out, list) or not all(type(x) is float for x in out):
            return {"err": "OTHER:not-a-list-of-floats", "repr": repr(out)[:200]}, out, extra, f
        obs = {"out": [enc(x) for x in out]}
        if c["dict"] == "window" and c["name"] is not None and c["size"] >= 0:
            # "equals the first size samples of wsymm.X(size+1) exactly"
            try:
                args2 = (c["size"] + 1,) + args[1:]
                longer = f.symm(*args2, **kw)
                obs["prefix_exact"] = bool(len(longer) == c["size"] + 1 and longer[:c["size"]] == out)
            except Exception as e:
                obs["prefix_exact"] = "err:" + err_kind(e)
        return obs, out, extra, f
    except Exception as e:
        return {"err": err_kind(e)}, None, 0, f


def impl(c):
    if c["entry"] == "docmath":
        return _impl_docmath(c)
    if c["entry"] == "history":
        return _impl_history(c)
    if c["entry"] == "pycall":
        return _impl_pycall(c)
    if c["entry"] == "scan":
        return _impl_scan(c)
    if c["entry"] != "call":
        return {"err": "OTHER:entry"}
    return _call_obs(c)[0]


# ---------------------------------------------------------------------------------------------
# histories: running them on the real code
# ---------------------------------------------------------------------------------------------
def _mutate(p, kind):
    """what a caller does, in place, with a list it received"""
    nan = float("nan")
    if kind == "append0":
        p.append(p[0] if p else 0.0)
    elif kind == "scale":
        p[:] = [2 * x for x in p]
    elif kind == "sort":
        p.sort()
    elif kind == "clear":
        del p[:]
    elif kind == "nan":
        if p:
            p[len(p) // 2] = nan
        else:
            p.append(nan)
    elif kind == "dec":
        if p:
            p[-1] -= 1
        else:
            p.append(-1.0)
    elif kind == "pop":
        if p:
            p.pop()
    elif kind == "double":
        p += list(p)
    elif kind != "none":
        raise ValueError("unknown mutation %r" % kind)


def _same_items(a, b):
    return len(a) == len(b) and all(x == y or (x != x and y != y) for x, y in zip(a, b))


def _floats_text(xs, n=6):
    s = ", ".join(repr(x) for x in xs[:n])
    return "[%s%s]" % (s, ", ... (%d items)" % len(xs) if len(xs) > n else "")


_fresh = {}


def _fresh_world():
    """A second instance of audiolazy.lazy_analysis: the same source exec'ed into a new module object, so that
    whatever state the window machinery keeps (in the module, in closures, on the functions) is new."""
    import audiolazy.lazy_analysis as live
    if "code" not in _fresh:
        path = live.__file__
        with warnings.catch_warnings():
            warnings.simplefilter("ignore")
            _fresh["code"] = compile(open(path, encoding="utf-8").read(), path, "exec")
        _fresh["path"] = path
    m = types.ModuleType(live.__name__)
    m.__file__ = _fresh["path"]
    m.__package__ = live.__package__
    with warnings.catch_warnings():
        warnings.simplefilter("ignore")
        exec(_fresh["code"], m.__dict__)
    return m.window, m.wsymm


def _reachable(root, limit=1500, depth=6):
    """(path, object) for the containers / functions reachable from a strategy function: closure cells, defaults,
    attributes, wrapped functions, globals — bounded walk"""
    import builtins
    atoms = (float, int, str, bytes, bool, complex, type(None), types.ModuleType, type,
             types.BuiltinFunctionType, types.CodeType)
    seen = {id(root), id(builtins.__dict__)}
    todo = collections.deque([("", root, 0)])       # breadth first: the function's own cells / defaults / attributes first
    n = 0
    while todo and n < limit:
        path, o, d = todo.popleft()
        n += 1
        kids = []
        if isinstance(o, types.FunctionType):
            kids += [(".__closure__[%d]" % i, cell) for i, cell in enumerate(o.__closure__ or ())]
            kids += [(".__defaults__", o.__defaults__), (".__kwdefaults__", o.__kwdefaults__),
                     (".__dict__", o.__dict__), (".__globals__", o.__globals__)]
        elif isinstance(o, types.CellType):
            try:
                kids.append((".cell_contents", o.cell_contents))
            except ValueError:
                pass
        elif isinstance(o, dict):
            for k, v in list(o.items())[:512]:
                kids.append(("[%s]" % (repr(k)[:40],), v))
                if isinstance(k, tuple):
                    kids.append((".key(%s)" % (repr(k)[:40],), k))
        elif isinstance(o, (list, tuple, set, frozenset)):
            kids += [("[%d]" % i, v) for i, v in enumerate(list(o)[:512])]
        else:
            for attr in ("__dict__", "__wrapped__", "func", "args", "keywords", "__self__", "__func__"):
                try:
                    v = getattr(o, attr, None)
                except Exception:
                    v = None
                if v is not None:
                    kids.append(("." + attr, v))
        for p, k in kids:
            if isinstance(k, atoms) or id(k) in seen:
                continue
            seen.add(id(k))
            yield path + p, k
            if d + 1 < depth:
                todo.append((path + p, k, d + 1))


def _referrers(obj, mine):
    """who else holds `obj` (gc): short descriptions"""
    out = []
    for r in gc.get_referrers(obj):
        if any(r is m for m in mine) or isinstance(r, types.FrameType):
            continue
        if isinstance(r, dict):
            k = next((k for k, v in r.items() if v is obj), None)
            out.append("a dict, key %s" % repr(k)[:60])
        elif isinstance(r, types.CellType):
            out.append("a closure cell")
        else:
            out.append("a %s" % type(r).__name__)
    return out[:4]


def _run_history(c, ws):
    held, obs_steps, funcs = [], [], []
    ident = {"shared": [], "changed": [], "retained": [], "reachable": []}
    mine = [held]
    for k, st in enumerate(c["steps"]):
        obs, out, extra, f = _call_obs(st, ws)
        obs_steps.append(obs)
        if f is not None and not any(f is g for _k, g in funcs):
            funcs.append((k, f))
        # the lists handed out earlier belong to the caller: this call must not have changed them
        for i, h in enumerate(held):
            if h is not None and not _same_items(h[0], h[1]):
                ident["changed"].append({"earlier": i, "by": k, "now": _floats_text(h[0]), "was": _floats_text(h[1])})
                h[1] = list(h[0])
        if isinstance(out, list):
            twins = [i for i, h in enumerate(held) if h is not None and h[0] is out]
            if twins:
                ident["shared"].append({"earlier": twins[0], "later": k})
            elif extra > 0:
                # (gc.get_referrers walks the whole heap: only for the first one of a history)
                who = _referrers(out, mine) if not ident["retained"] else ["see call %d" % (ident["retained"][0]["step"] + 1)]
                ident["retained"].append({"step": k, "refs": extra, "by": who})
            h = [out, None]
            mine.append(h)
            _mutate(out, st.get("mut", "none"))
            h[1] = list(out)
            for i in twins:
                held[i][1] = list(out)
            held.append(h)
        else:
            held.append(None)
    # after all the changes: no list of the caller is reachable from a strategy function
    ids = {}
    for i, h in enumerate(held):
        if h is not None:
            ids.setdefault(id(h[0]), i)
    for k, f in funcs:
        if not ids:
            break
        for path, o in _reachable(f):
            if id(o) in ids and isinstance(o, list):
                ident["reachable"].append({"step": ids.pop(id(o)), "from_call": k, "path": path[-160:]})
                if not ids:
                    break
    return {"steps": obs_steps, "identity": ident}


def _write_all(fd, data):
    while data:
        data = data[os.write(fd, data):]


def _read_all(fd):
    chunks = []
    while True:
        b = os.read(fd, 1 << 16)
        if not b:
            return b"".join(chunks)
        chunks.append(b)


_zyg = {}


def _pristine_copy():
    """A forked copy of this process made before any strategy was called.  A history of world "imported" runs in a
    child of that copy: on the imported `audiolazy.window` / `wsymm` objects themselves, always from the state the
    import leaves (reproducible by `./check --replay`), and nothing it does reaches the other cases."""
    if "w" in _zyg or _zyg.get("failed"):
        return _zyg
    try:
        import audiolazy  # noqa: F401  (imported by the parent, inherited by the copy)
        down_r, down_w = os.pipe()
        up_r, up_w = os.pipe()
        pid = os.fork()
    except Exception as e:           # no fork here: the histories run in-process instead
        _zyg["failed"] = "%s: %s" % (type(e).__name__, e)
        return _zyg
    if pid == 0:
        try:
            os.close(down_w)
            os.close(up_r)
            fin = os.fdopen(down_r, "rb")
            while True:
                line = fin.readline()
                if not line:
                    break
                r, w = os.pipe()
                g = os.fork()
                if g == 0:
                    try:
                        os.close(r)
                        try:
                            case = json.loads(line.decode())
                            ws = _fresh_world() if case.get("world", "new") == "new" else None
                            data = json.dumps(dict(_run_history(case, ws), separate_process=True))
                        except BaseException as e:      # reported by the parent as an unmapped outcome
                            data = json.dumps({"err": "UNMAPPED:" + err_kind(e), "trace": repr(e)[:300]})
                        _write_all(w, data.encode())
                    finally:
                        os._exit(0)
                os.close(w)
                data = _read_all(r)
                os.close(r)
                os.waitpid(g, 0)
                _write_all(up_w, data + b"\n")
        finally:
            os._exit(0)
    os.close(down_r)
    os.close(up_w)
    _zyg.update(pid=pid, w=down_w, r=os.fdopen(up_r, "rb"))
    return _zyg


def _impl_history(c):
    """World "new": in this process on a second instance of lazy_analysis — as long as no history has shown an
    aliasing anomaly.  From the first anomaly on (state that survives a history may then exist, possibly outside
    that module instance) every history runs in a child of the pristine copy of the process, like world "imported"
    always does: what a failing history shows never depends on the histories run before it."""
    if c.get("world", "new") == "new" and not _zyg.get("suspect"):
        try:
            ws = _fresh_world()
        except Exception as e:   # imports as a package member but not as a second instance: use the imported objects
            r = _impl_history(dict(c, world="imported"))
            r["fresh_world_failed"] = "%s: %s" % (type(e).__name__, str(e)[:200])
            return r
        r = _run_history(c, ws)
        if any(r["identity"].values()):
            _zyg["suspect"] = True
        return r
    z = _pristine_copy()
    if "w" not in z:
        ws = _fresh_world() if c.get("world", "new") == "new" else None
        return dict(_run_history(c, ws), no_fork=z.get("failed"))
    _write_all(z["w"], (json.dumps(c) + "\n").encode())
    line = z["r"].readline()
    if not line:
        for k in ("w", "r", "pid"):
            _zyg.pop(k, None)
        _zyg["failed"] = "the pristine copy of the process died"
        return {"err": "OTHER:pristine-copy-died"}
    return json.loads(line.decode())



# ---------------------------------------------------------------------------------------------
# the call layer: calls as a caller WRITES them (entry "pycall"), float facts over many sizes (entry "scan")
# ---------------------------------------------------------------------------------------------
def V(x):
    """Python argument value -> tagged JSON (the spelling is part of the case)"""
    if x is None:
        return {"t": "none"}
    if isinstance(x, bool):
        return {"t": "bool", "v": x}
    if isinstance(x, int):
        return {"t": "int", "v": x}
    if isinstance(x, float):
        return {"t": "float", "v": enc(x)}
    if isinstance(x, Fraction):
        return {"t": "frac", "v": enc(x)}
    if isinstance(x, str):
        return {"t": "str"}
    raise TypeError(x)


def _pyval(v):
    t = v["t"]
    if t == "none":
        return None
    if t == "str":
        return "x"
    if t == "bool":
        return bool(v["v"])
    if t == "int":
        return int(v["v"])
    q = dec(v["v"])
    return float(q) if t == "float" else Fraction(q)


SIZE_SPELLINGS = [0, 1, 2, 3, 8, True, False, 4.0, 1.0, 2.5, Fraction(4), Fraction(1), Fraction(7, 2), -1, -5, None, "x"]
# boundary alphas: zero in every spelling, the documented defaults in every spelling, the ends of the documented
# range, negative, large, None, a str
ALPHA_SPELLINGS = [0, 0.0, Fraction(0), False, True, 1, 1.0, Fraction(1), 0.16, Fraction(4, 25), 0.25, -0.25,
                   Fraction(1, 4), 2, 0.5, -1, -0.5, 10 ** 6, 1e6, None, "x", -0.17, 3]
# shapes: which arguments are positional / keyword (in this order), extra ones
SHAPES = {"(size)": (["size"], []), "(size, alpha)": (["size", "alpha"], []), "(size, alpha=)": (["size"], ["alpha"]),
          "(size=)": ([], ["size"]), "(size=, alpha=)": ([], ["size", "alpha"]), "(alpha=, size=)": ([], ["alpha", "size"]),
          "()": ([], []), "(alpha=)": ([], ["alpha"]), "(size, alpha, extra)": (["size", "alpha", "extra"], []),
          "(size, extra)": (["size", "extra"], []),
          "(size, alpha, alpha=)": (["size", "alpha"], ["alpha"]), "(size, beta=)": (["size"], ["beta"]),
          "(size, size=)": (["size"], ["size"])}
GOOD_SHAPES = ("(size)", "(size, alpha)", "(size, alpha=)", "(size=)", "(size=, alpha=)", "(alpha=, size=)")
PYROUTES = ("item", "dflt", "dictlink:symm", "dictlink:periodic", "funclink:symm", "funclink:periodic")


def _pc(dict_, name, shape, size, alpha=None, route="item", access=0):
    pos_n, kw_n = SHAPES[shape]
    val = {"size": V(size), "alpha": V(alpha), "extra": V(7), "beta": V(2)}
    return {"entry": "pycall", "dict": dict_, "name": None if route == "dflt" else name, "route": route, "shape": shape,
            "pos": [val[k] for k in pos_n], "kw": [[k, val[k]] for k in kw_n], "access": access}


def _gen_pycalls(rng, tier, scale):
    out = []
    quick = tier == "quick"
    kinds = _names()
    if scale == 1:
        for dict_ in ("window", "wsymm"):
            for kind, names in kinds:
                # every call shape with an alpha x every boundary alpha x every strategy (sizes: one sample / several)
                for shape in ("(size, alpha)", "(size, alpha=)", "(size=, alpha=)", "(alpha=, size=)"):
                    for a in ALPHA_SPELLINGS:
                        for size in (1, 4) if shape != "(alpha=, size=)" else (5,):
                            out.append(_pc(dict_, kind, shape, size, a))
                # every spelling of the size, alpha omitted (-> default) / given
                for name in names:
                    if dict_ == "wsymm" and name != _wsymm_name(name):
                        continue
                    for size in SIZE_SPELLINGS:
                        out.append(_pc(dict_, name, "(size)" if name == names[0] else "(size=)", size, access=len(name) % 2))
                for size in SIZE_SPELLINGS:
                    out.append(_pc(dict_, kind, "(size=)", size))
                    if kind in ALPHA_KINDS:
                        out.append(_pc(dict_, kind, "(size, alpha)", size, 0))
                        out.append(_pc(dict_, kind, "(size, alpha=)", size, None))
                # malformed shapes
                for shape in SHAPES:
                    if shape not in GOOD_SHAPES:
                        out.append(_pc(dict_, kind, shape, 3, 1))
                # routes (the default route ignores the name)
                for route in PYROUTES:
                    for shape, a in (("(size)", None), ("(size, alpha)", 0), ("(size, alpha=)", 2)):
                        for size in (1, 2, 5):
                            out.append(_pc(dict_, names[-1] if route.startswith("funclink") and dict_ == "window" else kind,
                                           shape, size, a, route, access=size % 2))
            # cos with alpha = 0 is the rectangular window — also the end samples of the symmetric one
            for size in (0, 1, 2, 3, 4, 7, 16, 33, 100):
                for a in (0, 0.0, Fraction(0), False):
                    out.append(_pc(dict_, "cos", "(size, alpha)" if size % 2 else "(size, alpha=)", size, a))
    n = (400 if quick else 4000) * scale
    for _ in range(n):
        dict_ = rng.choice(("window", "wsymm"))
        kind, names = rng.choice(kinds)
        name = rng.choice(names)
        if dict_ == "wsymm" and rng.random() < 0.9:
            name = _wsymm_name(name)
        shape = rng.choice(GOOD_SHAPES * 3 + tuple(SHAPES))
        size = rng.choice(SIZE_SPELLINGS + [rng.randint(0, 40), rng.randint(0, 40), 4 * rng.randint(1, 16), rng.randint(41, 300)])
        if kind == "blackman":
            extra = [rng.randint(-25, 25) / 100.0, Fraction(rng.randint(-25, 25), 100), rng.randint(-250, 250) / 1000.0]
        else:
            extra = [rng.randint(0, 400) / 100.0, Fraction(rng.randint(0, 40), 8), rng.randint(0, 9)]
        a = rng.choice(ALPHA_SPELLINGS + extra * 4)
        route = rng.choice(("item",) * 4 + PYROUTES)
        out.append(_pc(dict_, name, shape, size, a, route, access=rng.randint(0, 1)))
    return out


def _gen_scans(rng, tier, scale):
    """float facts of the real lists over ALL sizes lo..hi: range [0,1] with no tolerance, symmetry, prefix, length"""
    if scale != 1:
        return []
    quick = tier == "quick"
    top = 200 if quick else 3000
    out = []
    for dict_ in ("window", "wsymm"):
        for kind, _n in _names():
            alphas = [None]
            if kind == "blackman":
                alphas += [0.25, -0.25, 0, 0.2, -0.1] + ([] if quick else [2.0 * 1430 / 18608, 0.1, -0.2, 0.05])
                alphas += [rng.randint(-25, 25) / 100.0 for _ in range(1 if quick else 4)]
            if kind == "cos":
                alphas += [0, 2, 0.5] + ([] if quick else [3, 1.5, 0.25, 7, 100])
                alphas += [rng.randint(0, 400) / 100.0 for _ in range(1 if quick else 3)]
            for a in alphas:
                hi = top if a is None else (top // 2)
                step = 100 if quick else 250
                for lo in range(0, hi, step):
                    out.append({"entry": "scan", "dict": dict_, "name": kind, "lo": lo, "hi": min(lo + step, hi + 1),
                                "alpha": None if a is None else enc(a), "alpha_int": isinstance(a, int)})
    return out


def _spec_call(c):
    """The call reduced, with the DOCUMENTED rules only, to the terms of the property: (symmetric?, kind, size, alpha);
    None when the call is outside the property (malformed shape, a size that is no integer >= 0, alpha that is no
    number, an alias wsymm lacks)."""
    route = c["route"]
    if route == "dflt":
        kind, final, look = "hann", c["dict"], None
    else:
        kind = _kind_of(c["name"])
        final = {"item": c["dict"], "dictlink:symm": "wsymm", "dictlink:periodic": "window", "funclink:symm": "wsymm",
                 "funclink:periodic": "window"}[route]
        look = final if route.startswith("dictlink") else c["dict"]       # the dictionary the NAME is looked up in
    if kind is None or (look == "wsymm" and c["name"] in ("dirichlet", "rectangular")):
        return None
    params = ["size"] + (["alpha"] if kind in ALPHA_KINDS else [])       # documented signature X(size[, alpha])
    if len(c["pos"]) > len(params):
        return None
    bound = dict(zip(params, c["pos"]))
    for k, v in c["kw"]:
        if k not in params or k in bound:
            return None
        bound[k] = v
    if "size" not in bound or bound["size"]["t"] not in ("int", "bool"):
        return None
    size = int(bound["size"]["v"])
    if size < 0:
        return None
    alpha = None
    if "alpha" in bound:
        if bound["alpha"]["t"] in ("none", "str"):
            return None
        alpha = _pyval(bound["alpha"])
    return {"symm": final == "wsymm", "kind": kind, "size": size,
            "alpha": None if alpha is None else enc(float(alpha)), "alpha_raw": bound.get("alpha")}


def _py_lookup(c):
    from audiolazy import window, wsymm
    sd = window if c["dict"] == "window" else wsymm
    route, name, acc = c["route"], c["name"], c.get("access", 0)
    if route == "dflt":
        return sd if acc == 0 else sd.default
    if route.startswith("dictlink"):
        sd = getattr(sd, route.split(":")[1])
        return sd[name]
    if acc == 0 or not name:
        f = sd[name]
    else:
        try:
            f = getattr(sd, name)
        except AttributeError:              # `sd.name` for a name the dictionary lacks: the same "no such strategy"
            raise KeyError(name)
    if route.startswith("funclink"):
        return getattr(f, route.split(":")[1])
    return f


def _samples_obs(out):
    """a returned object -> observation"""
    if isinstance(out, list):
        cx = [i for i, x in enumerate(out) if type(x) is complex]
        if cx:
            return {"err": "ComplexSample", "index": cx[0], "value": repr(out[cx[0]]), "len": len(out)}
        nf = [i for i, x in enumerate(out) if type(x) is float and (x != x or x in (float("inf"), float("-inf")))]
        if nf:
            return {"err": "NonFiniteSample", "index": nf[0], "value": repr(out[nf[0]]), "len": len(out)}
    if not isinstance(out, list) or not all(type(x) is float for x in out):
        return {"err": "OTHER:not-a-list-of-floats", "repr": repr(out)[:200]}
    return {"out": [enc(x) for x in out]}


def _impl_pycall(c):
    try:
        f = _py_lookup(c)
        pos = [_pyval(v) for v in c["pos"]]
        kw = {k: _pyval(v) for k, v in c["kw"]}
        if len(kw) != len(c["kw"]):
            return {"err": "OTHER:duplicate-keyword-in-case"}
        out = f(*pos, **kw)
    except Exception as e:
        return {"err": err_kind(e)}
    obs = _samples_obs(out)
    sc = _spec_call(c)
    if "out" in obs and sc is not None and not sc["symm"] and sc["kind"] is not None and c["route"] != "dflt":
        # "equals the first size samples of wsymm.X(size+1) exactly": the same call shape on X.symm with size + 1
        try:
            bump = lambda v: v + 1 if type(v) is int else int(v) + 1
            pos2 = [bump(x) if i == 0 and SHAPES[c["shape"]][0][:1] == ["size"] else x for i, x in enumerate(pos)]
            kw2 = {k: (bump(x) if k == "size" else x) for k, x in kw.items()}
            longer = f.symm(*pos2, **kw2)
            obs["prefix_exact"] = bool(len(longer) == sc["size"] + 1 and longer[:sc["size"]] == out)
        except Exception as e:
            obs["prefix_exact"] = "err:" + err_kind(e)
    return obs


def _impl_scan(c):
    """facts about the real lists for every size lo <= size < hi (no tolerance anywhere)"""
    from audiolazy import window, wsymm
    sd = window if c["dict"] == "window" else wsymm
    a = _alpha_of(c)
    args = () if a is None else (a,)
    f = sd[c["name"]]
    symm = c["dict"] == "wsymm" or c["name"] == "rect"
    r = {"sizes": 0, "samples": 0, "below0": [], "above1": [], "nbelow0": 0, "nabove1": 0, "badlen": [], "notfloat": [],
         "asym_sizes": 0, "asym_max": 0.0, "asym_worst": None, "prefix_bad": [], "size1_bad": None}
    try:
        for size in range(c["lo"], c["hi"]):
            w = f(size, *args)
            r["sizes"] += 1
            r["samples"] += len(w)
            if len(w) != size:
                r["badlen"].append([size, len(w)])
            if not all(type(x) is float for x in w):
                r["notfloat"].append(size)
                continue
            for i, x in enumerate(w):
                if not x >= 0.0:
                    r["nbelow0"] += 1
                    if len(r["below0"]) < 4:
                        r["below0"].append([size, i, enc(x)])
                if not x <= 1.0:
                    r["nabove1"] += 1
                    if len(r["above1"]) < 4:
                        r["above1"].append([size, i, enc(x)])
            if symm:
                worst = 0.0
                for i in range(size // 2):
                    d = abs(w[i] - w[size - 1 - i])
                    if d > worst:
                        worst = d
                        if d > r["asym_max"]:
                            r["asym_max"], r["asym_worst"] = d, [size, i, enc(w[i]), enc(w[size - 1 - i])]
                if worst > 0:
                    r["asym_sizes"] += 1
                if size == 1 and c["dict"] == "wsymm" and w != [1.0]:
                    r["size1_bad"] = [enc(x) for x in w]
            else:
                longer = f.symm(size + 1, *args)
                if not (len(longer) == size + 1 and longer[:size] == w):
                    r["prefix_bad"].append(size)
    except Exception as e:
        r["err"] = err_kind(e)
        r["err_size"] = r["sizes"] + c["lo"]
    r["asym_max"] = enc(r["asym_max"])
    return r


NOISE = Fraction(1, 10 ** 12)


def _range_clause(size, i, x):
    """a sample outside [0,1]: by float noise at an end sample / elsewhere, or by more"""
    over = -x if x < 0 else x - 1
    side = "<0" if x < 0 else ">1"
    if over > NOISE:
        return "range"
    return "range-float-noise(%s%s)" % ("end-sample" if i in (0, size - 1) else "inner-sample", side)


def _scan_problems(c, io, drv):
    out = []
    kind = c["name"]
    a = _alpha_of(c)
    alpha = Fraction(a) if a is not None else (Fraction(ALPHA_DEFAULT[kind]) if kind in ALPHA_KINDS else None)
    who = "%s.%s(size%s)" % (c["dict"], kind, "" if a is None else ", %r" % a)
    if "err" in io:
        return [("spec", "raises-" + io["err"], "%s raised %s at size %d" % (who, io["err"], io.get("err_size", -1)))]
    for size, n in io["badlen"][:1]:
        out.append(("spec", "length", "%s: %d samples for size %d" % (who, n, size)))
    for size in io["notfloat"][:1]:
        out.append(("spec", "complex-sample", "%s: a sample of size %d is not a float" % (who, size)))
    if _range_claimed(kind, alpha):
        for size, i, x in (io["below0"] + io["above1"])[:1]:
            x = dec(x)
            out.append(("spec", _range_clause(size, i, x), "%s[%d] = %r at size %d is outside [0,1] (%d samples below 0, %d above 1 "
                        "for sizes %d..%d)" % (who, i, float(x), size, io["nbelow0"], io["nabove1"], c["lo"], c["hi"] - 1)))
    if io["asym_worst"] is not None and dec(io["asym_max"]) > _sym_tol(kind, alpha):
        size, i, x, y = io["asym_worst"]
        out.append(("spec", "symmetry", "%s at size %d: sample %d = %r but sample %d = %r" % (
            who, size, i, float(dec(x)), size - 1 - i, float(dec(y)))))
    if io["prefix_bad"]:
        size = io["prefix_bad"][0]
        out.append(("spec", "periodic-prefix", "window.%s(%d) is not exactly the first %d samples of wsymm.%s(%d)" % (
            kind, size, size, kind, size + 1)))
    if io["size1_bad"] is not None:
        out.append(("spec", "size1", "wsymm.%s(1) = %r, not [1.0]" % (kind, io["size1_bad"])))
    return out


def _pycall_as_call(c, sc):
    """the pseudo "call" case the value clauses are stated on"""
    cc = {"entry": "call", "dict": "wsymm" if sc["symm"] else "window", "name": sc["kind"], "size": sc["size"], "alpha": None,
          "route": "item"}
    if sc["alpha"] is not None:
        cc["alpha"] = sc["alpha"]
        cc["alpha_int"] = False
    return cc


def _pycall_text(c):
    sd = c["dict"]
    acc = c.get("access", 0)
    r = c["route"]
    if r == "dflt":
        head = sd if acc == 0 else sd + ".default"
    elif r.startswith("dictlink"):
        head = "%s.%s[%r]" % (sd, r.split(":")[1], c["name"])
    else:
        head = "%s[%r]" % (sd, c["name"]) if acc == 0 else "%s.%s" % (sd, c["name"])
        if r.startswith("funclink"):
            head += "." + r.split(":")[1]
    args = [repr(_pyval(v)) for v in c["pos"]] + ["%s=%r" % (k, _pyval(v)) for k, v in c["kw"]]
    return "%s(%s)" % (head, ", ".join(args))


def request(c):
    if c["entry"] == "pycall":
        sc = _spec_call(c)
        r = {"entry": "pycall", "dict": c["dict"], "name": c["name"], "route": c["route"], "pos": c["pos"], "kw": c["kw"]}
        if sc is not None:
            r["spec_call"] = {k: sc[k] for k in ("symm", "kind", "size", "alpha")}
        return r
    if c["entry"] == "scan":
        return {"entry": "tables"}
    if c["entry"] == "history":
        return {"entry": "history", "calls": [request(dict(s, entry="call")) for s in c["steps"]]}
    return {"entry": "call", "dict": c["dict"], "name": c["name"], "size": c["size"], "alpha": c.get("alpha")}


def _alias_gap(c):
    return c["dict"] == "wsymm" and c["name"] in ("dirichlet", "rectangular")


def _range_claimed(kind, alpha):
    if kind == "blackman":
        return alpha is not None and Fraction(-1, 4) <= alpha <= Fraction(1, 4)
    if kind == "cos":
        return alpha is not None and alpha >= 0
    return True


def _sym_tol(kind, alpha):
    """Tolerance of the float symmetry check.  All windows but `cos` are Lipschitz in the sample index, so the
    rounding of `n/size` moves a sample by ~1e-16.  `sin(x) ** alpha` with 0 < alpha < 1 is not Lipschitz at the
    zero end points: a perturbation d of sin(x) (math.sin(math.pi) = 1.2e-16, not 0) moves the sample by up to
    d ** alpha (concavity), e.g. wsymm.cos(2, .5) = [0.0, 1.1e-08].  That is float conditioning, not asymmetry."""
    if kind in ("rect", "bartlett", "triangular"):
        return 0          # `abs(n - size / 2.0)` is exact in binary floating point: these lists are palindromes bit for bit
    if kind == "cos" and alpha is not None and 0 < alpha < 1:
        return max(SYM_TOL, Fraction(2e-15 ** float(alpha)))
    if kind == "cos" and alpha is not None and alpha > 1:
        return SYM_TOL * max(1, int(alpha))
    if kind == "blackman" and alpha is not None and abs(alpha) > 1:
        return SYM_TOL * (int(abs(alpha)) + 1)
    return SYM_TOL


def _cf_tol(kind, alpha):
    """tolerance of impl sample against the Float evaluation of the documented closed form (another term: rounding differs)"""
    if kind == "cos" and alpha is not None and 0 < alpha < 1:
        return max(TOL, Fraction(2e-15 ** float(alpha)))
    if alpha is not None and abs(alpha) > 1:
        return TOL * (int(abs(alpha)) + 1)
    return TOL


def _call_text(st):
    a = _alpha_of(st)
    args = "%d" % st["size"] + ("" if a is None else (", alpha=%r" if st.get("alpha_kw") else ", %r") % a)
    if st["name"] is None:
        return "%s(%s)" % (st["dict"], args)
    route = st.get("route", "item")
    other = "window" if st["dict"] == "wsymm" else "wsymm"
    link = "symm" if st["dict"] == "wsymm" else "periodic"
    head = {"attr": "%s.%s" % (st["dict"], st["name"]), "dictlink": "%s.%s[%r]" % (other, link, st["name"]),
            "funclink": "%s[%r].%s" % (other, st["name"], link)}.get(route, "%s[%r]" % (st["dict"], st["name"]))
    return "%s(%s)" % (head, args)


def _history_text(c, upto=None):
    parts = []
    steps = c["steps"] if upto is None else c["steps"][:upto + 1]
    for k, st in enumerate(steps):
        parts.append("p%d = %s" % (k + 1, _call_text(st)))
        if st.get("mut", "none") != "none" and (upto is None or k < upto):
            parts.append(MUT_TEXT[st["mut"]].format(p="p%d" % (k + 1)))
    return "; ".join(parts)


VALUE_CLAUSES = ("length", "size1", "closed-form", "range", "symmetry", "periodic-prefix", "cola2", "cola4",
                 "complex-sample")


def _history_problems(c, io, drv):
    """every call of the history against the model/spec of that call alone, then the identity facts"""
    out = []
    steps = c["steps"]
    sio, sdrv = io.get("steps"), drv.get("steps")
    if not (isinstance(sio, list) and isinstance(sdrv, list) and len(sio) == len(sdrv) == len(steps)):
        return [("model", "history-not-run", "impl observation %s" % _brief(io))]
    for k, (st, o, d) in enumerate(zip(steps, sio, sdrv)):
        for kind, clause, detail in _problems(dict(st, entry="call"), o, d):
            out.append((kind, clause, "call %d of {%s}: %s" % (k + 1, _history_text(c, k), detail)))
    ident = io.get("identity") or {}
    objs = drv.get("objects") or []
    for e in ident.get("shared", ()):
        i, j = e["earlier"], e["later"]
        if i < len(objs) and j < len(objs) and objs[i] is not None and objs[i] == objs[j]:
            continue                                   # (the model never says so: history_fresh_objects)
        out.append(("spec", "same-object", "call %d returned the very list object call %d had returned (the caller's by "
                    "then) in {%s}; every call returns a new list (model objects %s)" % (
                        j + 1, i + 1, _history_text(c, j), objs)))
    for e in ident.get("changed", ()):
        out.append(("spec", "earlier-result-changed", "the list returned by call %d was %s and is %s after call %d of {%s}" % (
            e["earlier"] + 1, e["was"], e["now"], e["by"] + 1, _history_text(c, e["by"]))))
    for e in ident.get("retained", ()):
        out.append(("spec", "retained-reference", "the list returned by call %d of {%s} is still referenced by the "
                    "implementation (%d extra reference(s): %s)" % (e["step"] + 1, _history_text(c, e["step"]), e["refs"],
                                                                  "; ".join(e["by"]) or "not a gc container")))
    for e in ident.get("reachable", ()):
        out.append(("spec", "reachable-from-strategy", "after {%s} the caller's list p%d is the object <strategy of call %d>%s" % (
            _history_text(c), e["step"] + 1, e["from_call"] + 1, e["path"])))
    return out


def _problems(c, io, drv):
    """-> list of (kind, clause, detail)"""
    if c["entry"] == "history":
        return _history_problems(c, io, drv)
    if c["entry"] == "scan":
        return _scan_problems(c, io, drv)
    if c["entry"] == "pycall":
        sc = _spec_call(c)
        cc = _pycall_as_call(c, sc) if sc is not None else dict(c, entry="call", size=-1)
        text = _pycall_text(c)
        return [(k, clause, "%s: %s" % (text, d)) for k, clause, d in _problems(dict(cc, _frac_alpha=_has_frac(c)), io, drv)]
    out = []
    model, spec = drv["model"], drv.get("spec")
    vals = None
    if c["entry"] == "docmath":
        # the documented closed form (docstring `.. math::`) against the specified closed form; the impl's
        # samples equal the latter (checked by the "call" cases), so a difference means the documentation
        # states another function than the one implemented
        if spec is None or not isinstance(io.get("doc"), list):
            return out
        dv, sv = [dec(x) for x in io["doc"]], [dec(x) for x in spec["ok"]]
        bad = [i for i, (a, b) in enumerate(zip(dv, sv)) if not (isinstance(b, float) and b != b)
               and not common.close(a, b, Fraction(1, 10 ** 9))]
        if len(dv) != len(sv) or bad:
            i = bad[0] if bad else 0
            out.append(("spec", "doc-math", "documented formula `%s` gives %r at n=%d of %s.%s(%d), the strategy returns %r" % (
                io.get("math"), float(dv[i]), i, c["dict"], c["name"], c["size"], float(sv[i]))))
        return out
    # ---- impl <-> model (Float twin of the generated definitions) ------------------------------
    if "err" in io:
        # model "NaN" = IEEE invalid operation in the Float twin: Python raises ZeroDivisionError (0.0/0.0)
        # or yields a complex number (negative ** non-integer) there
        same = (model.get("err") == io["err"] or
                (model.get("err") == "NaN" and io["err"] in ("ZeroDivisionError", "ComplexSample", "NonFiniteSample")) or
                (model.get("err") == "ZeroDivisionError" and io["err"] in ("NonFiniteSample", "OverflowError")))
        if not same:
            out.append(("model", "error", "impl raised %s, model %s" % (io["err"], _brief(model))))
    else:
        vals = [dec(x) for x in io["out"]]
        if "err" in model:
            out.append(("model", "error", "impl returned %d samples, model raises %s" % (len(vals), model["err"])))
        else:
            mv = [dec(x) for x in model["ok"]]
            _last["bitexact"] = (mv == vals)
            if len(mv) != len(vals):
                out.append(("model", "length", "impl %d samples, model %d" % (len(vals), len(mv))))
            else:
                bad = [i for i, (a, b) in enumerate(zip(vals, mv)) if not common.close(a, b, TOL)]
                if bad:
                    i = bad[0]
                    out.append(("model", "values", "sample %d: impl %r model %r (%d samples differ)" % (
                        i, float(vals[i]), float(mv[i]), len(bad))))
    # ---- impl <-> spec (the property on this input) -------------------------------------------------
    if spec is None:
        return out
    if _alias_gap(c) and io.get("err") == "KeyError":
        return out                                   # observation O1 (see ASSUMPTIONS), counted in tally
    if io.get("err") == "ComplexSample":
        out.append(("spec", "complex-sample", "%s.%s(%d%s)[%d] = %s is not a real number in [0,1]" % (
            c["dict"], c["name"], c["size"], "" if _alpha_of(c) is None else ", %r" % _alpha_of(c),
            io["index"], io["value"])))
        return out
    if "err" in io:
        out.append(("spec", "raises-" + io["err"], "impl raised %s where the property specifies a window" % io["err"]))
        return out
    sv = [dec(x) for x in spec["ok"]]
    size, kind, symm = c["size"], spec["kind"], spec["symm"]
    alpha = dec(spec["alpha"]) if spec.get("alpha") is not None else None
    if len(vals) != size:
        out.append(("spec", "length", "%d samples for size %d" % (len(vals), size)))
    if c["dict"] == "wsymm" and size == 1 and vals != [1]:
        out.append(("spec", "size1", "wsymm.%s(1) = %r, not [1.0]" % (c["name"], [float(v) for v in vals])))
    if len(vals) == len(sv):
        ct = _cf_tol(kind, alpha)      # conditioning-aware only for cos with 0 < alpha < 1, else TOL
        # a NaN sample of the spec's Float evaluation (sin(~pi) slightly negative, non-integer alpha) is skipped
        bad = [i for i, (a, b) in enumerate(zip(vals, sv)) if not (isinstance(b, float) and b != b)
               and not common.close(a, b, ct)]
        if bad:
            i = bad[0]
            out.append(("spec", "closed-form", "sample %d of %s.%s(%d): impl %r, closed form %r (%d samples differ)" % (
                i, c["dict"], c["name"], size, float(vals[i]), float(sv[i]), len(bad))))
    if _range_claimed(kind, alpha):
        # no tolerance: the theorems (window_range / wsymm_range / call_range) say [0,1]; what the floats do beyond
        # that is reported under its own clause (noise of at most 1e-12 at an end / inner sample, or more)
        bad = [i for i, v in enumerate(vals) if v < 0 or v > 1]
        if bad:
            out.append(("spec", _range_clause(len(vals), bad[0], vals[bad[0]]),
                        "sample %d = %r outside [0,1]" % (bad[0], float(vals[bad[0]]))))
    if symm or kind == "rect":
        n = len(vals)
        st = _sym_tol(kind, alpha)
        bad = [i for i in range(n // 2) if abs(vals[i] - vals[n - 1 - i]) > st]
        if bad:
            out.append(("spec", "symmetry", "sample %d = %r but sample %d = %r" % (
                bad[0], float(vals[bad[0]]), n - 1 - bad[0], float(vals[n - 1 - bad[0]]))))
    if "prefix_exact" in io and io["prefix_exact"] is not True:
        out.append(("spec", "periodic-prefix", "window.%s(%d) is not exactly the first %d samples of wsymm.%s(%d): %s" % (
            c["name"], size, size, c["name"], size + 1, io["prefix_exact"])))
    if not symm and len(vals) == size and size > 0:
        for blocks, key in ((2, "cola2"), (4, "cola4")):
            if size % blocks == 0 and spec.get(key) is not None:
                hop, const = size // blocks, dec(spec[key])
                sums = [sum(vals[j + i * hop] for i in range(blocks)) for j in range(hop)]
                bad = [j for j, s in enumerate(sums) if abs(s - const) > 4 * TOL * (1 + abs(const))]
                if bad:
                    out.append(("spec", "cola%d" % blocks, "hop-shifted sum at %d is %r, not the constant %r (hop %d)" % (
                        bad[0], float(sums[bad[0]]), float(const), hop)))
    return out


def _has_frac(c):
    return any(v["t"] == "frac" for v in c["pos"]) or any(v["t"] == "frac" for _k, v in c["kw"])


def _brief(x):
    s = str(x)
    return s if len(s) < 120 else s[:120] + "..."


def compare(c, io, drv):
    _last.clear()
    return [(k, "%s: %s" % (clause, detail)) for k, clause, detail in _problems(c, io, drv)]


def nontrivial(c, io):
    if c["entry"] == "history":
        so = io.get("steps") or []
        return len(so) >= 2 and any(len(o.get("out", ())) >= 2 for o in so)
    if c["entry"] == "scan":
        return io.get("samples", 0) >= 2
    if c["entry"] == "pycall":
        return len(io.get("out", ())) >= 2 or "err" in io      # a modelled rejection is an observation too
    return len(io.get("out", ())) >= 2 or (isinstance(io.get("doc"), list) and len(io["doc"]) >= 2)


def _eff_alpha(st):
    kind = _kind_of(st["name"])
    a = _alpha_of(st)
    if a is None and kind in ALPHA_KINDS:
        a = ALPHA_DEFAULT[kind]
    return None if a is None else float(a)


def _relation(a, b):
    """relation between two calls of a history (spec side: documented names / sharing)"""
    ka, kb = _kind_of(a["name"]), _kind_of(b["name"])
    if ka is None or kb is None:
        return "unknown-name"
    if ka != kb:
        return "other-strategy" + ("-same-size" if a["size"] == b["size"] else "")
    sa, sb = a["dict"] == "wsymm" and ka != "rect", b["dict"] == "wsymm" and kb != "rect"
    same_alpha = _eff_alpha(a) == _eff_alpha(b)
    if sa == sb:
        if a["size"] == b["size"] and same_alpha:
            if a["dict"] != b["dict"]:
                return "same-function-other-dict(rect)"
            if a["name"] != b["name"]:
                return "default-strategy" if None in (a["name"], b["name"]) else "alias"
            if (a.get("alpha"), a.get("alpha_int"), a.get("alpha_kw")) != (b.get("alpha"), b.get("alpha_int"), b.get("alpha_kw")):
                return "same-args-other-alpha-spelling"
            return "same-call" if a.get("route", "item") == b.get("route", "item") else "same-call-other-route"
        if a["size"] == b["size"]:
            return "same-function-other-alpha"
        return "same-function-size+-1" if abs(a["size"] - b["size"]) == 1 else "same-function-other-size"
    per, sym = (b, a) if sa else (a, b)
    if sym["size"] == per["size"] + 1 and same_alpha:
        return "periodic(size)-vs-symm(size+1)"
    return "periodic-vs-symm-same-size" if sym["size"] == per["size"] else "periodic-vs-symm-other"


def _tally_history(eng, c, io):
    steps = c["steps"]
    eng.count("history_calls", len(steps))
    eng.count("history_world", c.get("world", "new") + (":fallback-imported" if "fresh_world_failed" in io else "") +
              (":in-process(no fork)" if "no_fork" in io else ":separate-process" if io.get("separate_process") else ":in-process"))
    so = io.get("steps") or []
    for k, st in enumerate(steps):
        eng.count("history_mutation", st.get("mut", "none") if k < len(steps) - 1 else "last:" + st.get("mut", "none"))
        s = st["size"]
        eng.count("history_size", "0" if s <= 0 else "1" if s == 1 else "2-16" if s <= 16 else "17-64" if s <= 64 else ">64")
        if k < len(so):
            eng.count("history_call_outcome", so[k].get("err", "list"))
    probe = "no-earlier-list-changed"
    for j in range(1, len(steps)):
        for i in range(j):
            rel = _relation(steps[i], steps[j])
            eng.count("history_relation", rel)
            if steps[i].get("mut", "none") != "none":
                eng.count("history_relation_after_mutation", "%s after %s" % (rel, steps[i]["mut"]))
                if rel in ("same-call", "same-call-other-route", "alias", "default-strategy", "same-args-other-alpha-spelling",
                           "same-function-other-dict(rect)"):
                    probe = "same-arguments-after-mutation"
                elif probe != "same-arguments-after-mutation":
                    probe = "related-call-after-mutation"
    eng.count("history_probe", probe)
    ident = io.get("identity")
    if isinstance(ident, dict):
        bad = [k for k in ("shared", "changed", "retained", "reachable") if ident.get(k)]
        eng.count("history_identity", "+".join(bad) if bad else "all-objects-distinct,unchanged,unreferenced")
    else:
        eng.count("history_identity", "not-observed")


def tally(eng, c, io):
    eng.count("entry", c["entry"])
    if c["entry"] == "history":
        _tally_history(eng, c, io)
        return
    if c["entry"] == "docmath":
        d = io.get("doc")
        eng.count("docmath", "evaluated" if isinstance(d, list) else str(d))
        return
    if c["entry"] == "scan":
        eng.count("scan_strategy", "%s.%s" % (c["dict"], c["name"]))
        eng.count("scan_alpha", "default" if c.get("alpha") is None else "given")
        eng.count("scan_totals", "sizes", io.get("sizes", 0))
        eng.count("scan_totals", "samples", io.get("samples", 0))
        eng.count("scan_totals", "samples outside [0,1] (exact comparison)", io.get("nbelow0", 0) + io.get("nabove1", 0))
        eng.count("scan_largest_size", c["hi"] - 1)
        if c["dict"] == "wsymm" or c["name"] == "rect":
            m = dec(io["asym_max"]) if "asym_max" in io else 0
            eng.count("scan_float_symmetry(%s)" % c["name"], "bit-exact for every size" if m == 0 else
                      "largest |w[i]-w[size-1-i]| <= 1e-15" if m <= Fraction(1, 10 ** 15) else "larger")
            eng.count("scan_totals", "sizes of %s whose list is not a palindrome bit for bit" % c["name"], io.get("asym_sizes", 0))
        return
    if c["entry"] == "pycall":
        sc = _spec_call(c)
        eng.count("py_shape", c["shape"])
        eng.count("py_route", c["route"] + (":attr" if c.get("access") else ""))
        eng.count("py_in_property", "yes" if sc is not None else "no (malformed / size or alpha no number / alias gap)")
        vals = dict(zip(SHAPES[c["shape"]][0], c["pos"]))
        vals.update({k: v for k, v in c["kw"]})
        sv, av = vals.get("size"), vals.get("alpha")
        if sv is not None:
            x = _pyval(sv)
            eng.count("py_size_spelling", sv["t"] + ("" if sv["t"] in ("none", "str") else ":<0" if x < 0 else ":0" if x == 0 else
                                                    ":1" if x == 1 else ":non-integer" if x != int(x) else ":>1"))
        kind = _kind_of(c["name"]) if c["route"] != "dflt" else "hann"
        if av is None:
            eng.count("py_alpha", "omitted")
        else:
            x = _pyval(av)
            cls = ("" if av["t"] in ("none", "str") else ":zero" if x == 0 else ":default" if kind in ALPHA_KINDS and
                   x == Fraction(ALPHA_DEFAULT[kind]) or (kind == "blackman" and x in (0.16, Fraction(4, 25))) else
                   ":negative" if x < 0 else ":large" if x >= 1000 else ":other")
            eng.count("py_alpha", av["t"] + cls + (" kw" if any(k == "alpha" for k, _v in c["kw"]) else " pos"))
        eng.count("py_strategy_x_shape", "%s %s" % (kind, c["shape"]))
        eng.count("py_outcome", io.get("err", "list"))
        if "bitexact" in _last:
            eng.count("py_float_twin", "bit-exact" if _last["bitexact"] else "within-tolerance")
        if "prefix_exact" in io:
            eng.count("prefix_exact_checked", str(io["prefix_exact"]))
        if "out" in io and kind == "cos" and av is not None and av["t"] not in ("none", "str") and _pyval(av) == 0:
            eng.count("cos_alpha_zero_is_rect", "all ones" if all(dec(x) == 1 for x in io["out"]) else "NOT all ones")
        return
    eng.count("dict", c["dict"])
    eng.count("name", c["name"] if c["name"] is not None else "<default>")
    eng.count("route", c.get("route", "item"))
    s = c["size"]
    eng.count("size", "<0" if s < 0 else "0" if s == 0 else "1" if s == 1 else "2-16" if s <= 16 else
              "17-64" if s <= 64 else "65-256" if s <= 256 else "257-4096")
    eng.count("alpha", "default" if c.get("alpha") is None else ("int" if c.get("alpha_int") else "float") +
              ("-kw" if c.get("alpha_kw") else "-pos"))
    eng.count("impl_outcome", io.get("err", "list"))
    if "bitexact" in _last:
        eng.count("float_twin", "bit-exact" if _last["bitexact"] else "within-tolerance")
    if "prefix_exact" in io:
        eng.count("prefix_exact_checked", str(io["prefix_exact"]))
    if _alias_gap(c):
        eng.count("wsymm_alias_gap(O1)", io.get("err", "resolves"))
    if "out" in io and c["dict"] == "window" and s > 0:
        eng.count("cola_candidate", "size%4==0" if s % 4 == 0 else "size%2==0" if s % 2 == 0 else "odd")


def key(c):
    if c["entry"] in ("history", "pycall", "scan"):
        return c["entry"] + "|" + json.dumps(c, sort_keys=True)
    return "%s|%s|%s|%s|%s|%s|%s" % (c["entry"], c["dict"], c["name"], c["size"], c.get("alpha"), c.get("alpha_int"), c.get("route"))


def _shrink_history(c):
    steps = c["steps"]
    n = len(steps)

    def mk(new_steps, **kw):
        d = dict(c, steps=[dict(s) for s in new_steps])
        d.update(kw)
        return d

    if c.get("world", "new") != "new":
        yield mk(steps, world="new")                        # the cheaper world, when the failure allows
    for i in range(n):                                      # fewer calls
        if n > 1:
            yield mk(steps[:i] + steps[i + 1:])
    if n > 2:
        yield mk(steps[:1] + steps[-1:])
        yield mk(steps[-2:])
    for i in reversed(range(n)):                            # fewer changes by the caller, simpler ones
        if steps[i].get("mut", "none") != "none":
            yield mk(steps[:i] + [dict(steps[i], mut="none")] + steps[i + 1:])
            for m in ("append0", "dec"):
                if steps[i]["mut"] != m and MUTS.index(steps[i]["mut"]) > MUTS.index(m):
                    yield mk(steps[:i] + [dict(steps[i], mut=m)] + steps[i + 1:])
    lo = min(s["size"] for s in steps)                      # smaller sizes, keeping the differences ...
    for dlt in sorted({lo, lo - 1, lo // 2, 1, 2, 4, 8}):
        if 0 < dlt <= lo:
            yield mk([dict(s, size=s["size"] - dlt) for s in steps])
    if any(s["size"] > 1 for s in steps):                   # ... or the equalities
        yield mk([dict(s, size=s["size"] // 2) for s in steps])
        yield mk([dict(s, size=min(s["size"], 1 + (s["size"] > lo))) for s in steps])

    def simpler(s):
        d = dict(s)
        if d.get("route", "item") != "item":
            d["route"] = "item"
            return d
        if d.get("alpha") is not None:
            for k in ("alpha_int", "alpha_kw"):
                d.pop(k, None)
            d["alpha"] = None
            return d
        for kind, names in _names():
            if d["name"] in names[1:]:
                d["name"] = names[0]
                return d
        if d["name"] is None:
            d["name"] = "hann"
            return d
        return None

    alls = [simpler(s) or s for s in steps]
    if alls != steps:
        yield mk(alls)
    for i in range(n):
        d = simpler(steps[i])
        if d is not None:
            yield mk(steps[:i] + [d] + steps[i + 1:])
        for t in (steps[i]["size"] - 1, steps[i]["size"] // 2):
            if 0 <= t < steps[i]["size"]:
                yield mk(steps[:i] + [dict(steps[i], size=t)] + steps[i + 1:])


def _scan_witness_sizes(c):
    """sizes worth trying alone when a scan fails"""
    return sorted(set(range(c["lo"], min(c["hi"], c["lo"] + 12))) | {c["lo"] + (c["hi"] - c["lo"]) // 2})


def shrink(c):
    if c["entry"] == "history":
        for d in _shrink_history(c):
            yield d
        return
    if c["entry"] == "scan":
        # one call is a smaller witness than a range of sizes
        for size in _scan_witness_sizes(c):
            d = _mk(c["dict"], c["name"], size)
            if c.get("alpha") is not None:
                d.update(alpha=c["alpha"], alpha_int=c.get("alpha_int", False), alpha_kw=False)
            yield d
        if c["hi"] - c["lo"] > 1:
            mid = (c["lo"] + c["hi"]) // 2
            yield dict(c, hi=mid)
            yield dict(c, lo=mid)
        return
    if c["entry"] == "pycall":
        sc = _spec_call(c)
        if sc is not None:                               # the same call in the plain spelling
            d = _mk("wsymm" if sc["symm"] else "window", sc["kind"], sc["size"])
            if sc["alpha"] is not None:
                d.update(alpha=sc["alpha"], alpha_int=False, alpha_kw=False)
            yield d
        if c["route"] not in ("item", "dflt"):
            yield dict(c, route="item")
        if c.get("access"):
            yield dict(c, access=0)
        for i, v in enumerate(c["pos"]):
            if v["t"] == "int" and v["v"] > 1:
                for t in (v["v"] // 2, v["v"] - 1):
                    yield dict(c, pos=c["pos"][:i] + [dict(v, v=t)] + c["pos"][i + 1:])
        for i, (k, v) in enumerate(c["kw"]):
            if k == "size" and v["t"] == "int" and v["v"] > 1:
                for t in (v["v"] // 2, v["v"] - 1):
                    yield dict(c, kw=c["kw"][:i] + [[k, dict(v, v=t)]] + c["kw"][i + 1:])
        return
    s = c["size"]
    for t in sorted({s // 2, s - 1, s - 2, s - 4, 1, 2, 4, 8}):
        if (2 if c["entry"] == "docmath" else 0) <= t < s:
            yield dict(c, size=t)
    if c.get("route", "item") != "item":
        yield dict(c, route="item")
    if c.get("alpha") is not None:
        d = dict(c, alpha=None)
        d.pop("alpha_int", None)
        d.pop("alpha_kw", None)
        yield d
        if c.get("alpha_kw"):
            yield dict(c, alpha_kw=False)
    for kind, names in _names():
        if c["name"] in names[1:]:
            yield dict(c, name=names[0])


def neighbours(c):
    if c["entry"] == "scan":
        for d in shrink(c):
            yield d
        return
    if c["entry"] == "pycall":
        sc = _spec_call(c)
        for kind, names in _names():
            for dict_ in ("window", "wsymm"):
                for shape in GOOD_SHAPES:
                    yield _pc(dict_, kind, shape, 4, 0)
                    yield _pc(dict_, kind, shape, 5, 2)
        for d in shrink(c):
            yield d
        return
    if c["entry"] == "history":
        for s in c["steps"]:
            yield dict({k: v for k, v in s.items() if k != "mut"}, entry="call")
        for m in MUTS[:-1]:
            yield dict(c, steps=[dict(s, mut=m) for s in c["steps"]] + [dict(c["steps"][0], mut="none")])
        return
    for ds in (-2, -1, 1, 2, 3):
        if c["size"] + ds >= 0:
            yield dict(c, size=c["size"] + ds)
    for s in (1, 2, 3, 4, 8):
        yield dict(c, size=s)
    yield dict(c, dict="wsymm" if c["dict"] == "window" else "window", route="item")
    for kind, names in _names():
        for n in names:
            if n != c["name"]:
                yield dict(c, name=n, alpha=None, route="item")


def classify(c, io, drv):
    if c["entry"] == "history":
        # coarse on purpose (one representative is minimised per signature): wrong samples after a history, or —
        # when the samples are right — which identity fact fails
        ps = _problems(c, io, drv)
        spec = [p for p in ps if p[0] == "spec"]
        if any(p[1] in VALUE_CLAUSES or p[1].startswith("raises-") for p in spec):
            return "history:wrong-samples"
        p = (spec or ps or [("", "none", "")])[0]
        return "history:" + p[1]
    ps = _problems(c, io, drv)
    spec = [p for p in ps if p[0] == "spec"]
    p = (spec or ps or [("", "none", "")])[0]
    if c["entry"] == "scan":
        return "%s.%s:%s" % (c["dict"], c["name"], p[1])
    dict_ = c["dict"]
    if c["entry"] == "pycall":
        sc = _spec_call(c)
        if sc is not None:
            dict_ = "wsymm" if sc["symm"] else "window"
    kind = (drv.get("spec") or {}).get("kind") or str(c["name"])
    return "%s.%s:%s" % (dict_, kind, p[1])


# =============================================================================================
# structural checks: registry, identities (cross-links), translator vs runtime table
# =============================================================================================
def extra_checks(eng):
    res = []

    def chk(name, ok, detail=""):
        res.append((name, bool(ok), detail))

    try:
        from audiolazy import window, wsymm
        reg = eng.driver.batch([{"id": ID, "entry": "registry"}])[0]["ok"]
    except Exception as e:   # import failure of the repo under test or driver problem
        return [("registry-available", False, "%s: %s" % (type(e).__name__, e))]
    sds = {"window": window, "wsymm": wsymm}

    def obj(fn):              # model function object (sname, symm) -> impl function object
        return (wsymm if fn[1] else window)[fn[0]]

    # dictionary cross references
    chk("window.symm is wsymm", window.symm is wsymm)
    chk("wsymm.symm is wsymm", wsymm.symm is wsymm)
    chk("window.periodic is window", window.periodic is window)
    chk("wsymm.periodic is window", wsymm.periodic is window)
    def against(reg, tag):
        for dn, sd in sds.items():
            model_items = {k: tuple(v) for k, v in reg[dn]["items"]}
            impl_keys = _keys(sd)
            chk("%s keys = %s keys" % (dn, tag), impl_keys == set(model_items),
                "impl %s model %s" % (sorted(impl_keys), sorted(model_items)))
            ok, bad = True, []
            for k in impl_keys & set(model_items):
                sname, symm = model_items[k]
                f = sd[k]
                # identity: same object as the dictionary's primary entry; shared with window iff not symm
                if not (f is sd[sname] and getattr(sd, k, None) is f and f.__name__ == sname and
                        ((f is window[sname]) == (not symm))):
                    ok = False
                    bad.append(k)
            chk("%s key -> function identity = %s" % (dn, tag), ok, "keys %s" % bad)
            d = reg[dn]["default"]
            try:
                dok = d is not None and sd.default is obj(d)
            except KeyError:
                dok = False
            chk("%s.default = %s default" % (dn, tag), dok, str(d))
        # function attributes .periodic / .symm
        for attr in ("periodic", "symm"):
            bad = []
            for f, g in reg[attr]:
                try:
                    if getattr(obj(f), attr) is not obj(g):
                        bad.append(f)
                except (KeyError, AttributeError) as e:
                    bad.append(f + [repr(e)])
            chk("function .%s links = %s" % (attr, tag), not bad, str(bad))

    against(reg, "model")
    for dn, sd in sds.items():
        impl_keys = _keys(sd)
        # spec side of the registry (documented names)
        bad = []
        for k, r in reg["spec"][dn]:
            if r is None:
                continue
            if k not in impl_keys:
                if dn == "wsymm" and k in ("dirichlet", "rectangular"):
                    eng.count("wsymm_alias_gap(O1)", "registry:" + k)
                    continue
                bad.append(k)
                continue
            f = sd[k]
            if not (f is (wsymm if r[1] else window)[r[0]]):
                bad.append(k)
        chk("%s documented names resolve to the documented strategy" % dn, not bad, "names %s" % bad)
    # the REGENERATED loop (translator T2b), run by the interpreter of Model/C14Loop.lean on the regenerated table,
    # against the running module: cross-check of the translator and of the interpreter's reading of each statement
    try:
        sreg = eng.driver.batch([{"id": ID, "entry": "srcregistry"}])[0]["ok"]
        chk("regenerated loop: the interpreter gives it a state (it does not raise, stays inside what T2 assumes)",
            sreg is not None, "Loop.runTable = none")
        if sreg is not None and not _last.get("failed_T2b"):      # (after a TranslationError the file is the last good one)
            against(sreg, "regenerated loop")
            eng.count("regenerated_loop", "state = hand-written `generated`: %s" % sreg["is_model"])
    except Exception as e:
        chk("regenerated loop readable", False, "%s: %s" % (type(e).__name__, e))
    allf = {id(f): f for sd in sds.values() for f in sd}
    bad = [f.__name__ for f in allf.values()
           if not (getattr(f, "periodic", None) is window[f.__name__] and getattr(f, "symm", None) is wsymm[f.__name__])]
    chk("every strategy: .periodic is window[name], .symm is wsymm[name]", not bad, str(bad))
    chk("strategy count", len(window) == len({tuple(v) for _k, v in reg["window"]["items"]}) and
        len(wsymm) == len({tuple(v) for _k, v in reg["wsymm"]["items"]}),
        "impl %d/%d" % (len(window), len(wsymm)))
    # the regenerated tables against the running module: parameter list of every generated function, dictionary links
    try:
        import inspect
        tab = eng.driver.batch([{"id": ID, "entry": "tables"}])[0]["ok"]
        bad = []
        for row in tab["rows"]:
            sname = row["names"][0]
            for dn, sd in sds.items():
                want = row["window_sig" if (dn == "window" or not row["distinct"]) else "wsymm_sig"]
                try:
                    ps = list(inspect.signature(sd[sname]).parameters.values())
                except (KeyError, ValueError, TypeError) as e:
                    bad.append("%s.%s: %r" % (dn, sname, e))
                    continue
                got = []
                for q in ps:
                    if q.kind is not q.POSITIONAL_OR_KEYWORD:
                        got.append([q.name, "kind:" + str(q.kind)])
                    elif q.default is q.empty:
                        got.append([q.name, None])
                    elif type(q.default) in (int, float):
                        f = Fraction(repr(q.default))
                        got.append([q.name, [f.numerator, f.denominator, type(q.default) is int]])
                    else:
                        got.append([q.name, "default:" + repr(q.default)])
                if got != want:
                    bad.append("%s.%s%s, model %s" % (dn, sname, got, want))
        chk("signature of every generated function = regenerated table (theorem `signatures`)", not bad, "; ".join(bad)[:400])
        bad = [l for l in tab["dict_links"] if getattr(sds.get(l[0]), l[1], None) is not sds.get(l[2])]
        chk("dictionary links = regenerated table (theorem `dict_links_table`)", not bad and len(tab["dict_links"]) == 4, str(bad))
    except Exception as e:
        chk("regenerated tables readable", False, "%s: %s" % (type(e).__name__, e))
    # translator T2b (the loop): self-test on edited copies of the source text; committed file = regenerated file
    try:
        import subprocess
        good = subprocess.run(["git", "-C", common.VERIF, "show", "HEAD:lean/" + c14_tr.GEN_REL.replace(os.sep, "/")],
                              capture_output=True, text=True, timeout=30)
        committed = good.stdout if good.returncode == 0 and good.stdout else open(os.path.join(common.LEAN, c14_tr.GEN_REL)).read()
        if common.REPO != "/repo":
            committed = None          # a scratch copy under test: the committed file speaks about /repo
        for name, ok, detail in c14_tr.selftest(committed):
            chk(name, ok, detail)
    except Exception as e:
        chk("translator-selftest", False, "%s: %s" % (type(e).__name__, e))
    eng.extra["translated"] = TRANSLATED
    # the translator read the same table / templates the running module uses
    try:
        entries, templates = read_source()
        rt = window._content_generation_table
        same = len(rt) == len(entries) and all(
            tuple(r["names"]) == tuple(e["names"]) and r["formula"] == e["formula"] and
            r.get("params_def", "") == e.get("params_def", "") and r.get("distinct", True) == e.get("distinct", True)
            for r, e in zip(rt, entries))
        chk("translator input = runtime table", same)
        chk("translator input = runtime templates",
            templates["window"] == window._code_template and templates["wsymm"] == wsymm._code_template)
    except TranslationError as e:
        chk("translator input readable", False, str(e))
    return res
