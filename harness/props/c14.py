"""C14 — window functions (window / wsymm strategy dictionaries of lazy_analysis).

Translator T2 (`regenerate`): the window formulas and the two code templates of
/repo/audiolazy/lazy_analysis.py are *data made for exec*.  They are parsed with `ast`
from the source file (the repo is not imported by the translator) and emitted as
lean/ALV/Gen/Windows.lean: one generic `[TrigField α]` definition per strategy, the two
list builders (`periodicT`, `symmT`) and the strategy table.  The C14 theorems are about
these generated definitions.

Tie: the driver evaluates the generated definitions at `Float` through the hand-written
model of `_generate_window_strategies` (registry, aliases, defaults) and sends the exact
binary values; they are compared with the lists the real strategies return.
"""
import ast, os, re, warnings
from fractions import Fraction

import common
from common import err_kind, enc, dec

ID = "C14"

# =============================================================================================
# Translator T2
# =============================================================================================
GEN_REL = os.path.join("ALV", "Gen", "Windows.lean")
SRC_REL = os.path.join("audiolazy", "lazy_analysis.py")
LEAN_KEYWORDS = {"def", "fun", "let", "in", "if", "then", "else", "at", "from", "have", "show", "do",
                 "end", "open", "where", "with", "match", "theorem", "namespace", "section", "variable",
                 "import", "instance", "class", "structure", "Type", "Prop", "Sort", "by", "size", "n",
                 "alpha", "f", "xrange", "xrangeFrom", "periodicT", "symmT", "table", "Entry"}
FUNCS = {"cos": "TrigField.cos", "sin": "TrigField.sin", "abs": "TrigField.abs"}
BINOPS = {ast.Add: "+", ast.Sub: "-", ast.Mult: "*", ast.Div: "/"}


class TranslationError(Exception):
    pass


def _num_literal(v):
    """Python numeric literal -> Lean term of type α (exact decimal value of the literal)."""
    if isinstance(v, bool) or not isinstance(v, (int, float)):
        raise TranslationError("unsupported constant %r" % (v,))
    if isinstance(v, float):
        if v != v or v in (float("inf"), float("-inf")):
            raise TranslationError("non-finite literal")
        q = Fraction(repr(v))           # shortest round-trip decimal = the literal's decimal value class
        if float(q) != v:               # (the double nearest to q is v again, by round-trip)
            raise TranslationError("literal %r does not round-trip" % v)
    else:
        q = Fraction(v)
    if q.denominator == 1:
        return "TrigField.ofInt (%d)" % q.numerator
    if abs(q.numerator) >= 2 ** 53 or q.denominator >= 2 ** 53:
        raise TranslationError("literal %r too long for an exact quotient" % v)
    return "TrigField.ofRat (%d) %d" % (q.numerator, q.denominator)


def tr_formula(node, env):
    """float-valued Python expression -> Lean term of type α.  env: python name -> Lean term (type α)."""
    if isinstance(node, ast.Expression):
        return tr_formula(node.body, env)
    if isinstance(node, ast.Constant):
        return _num_literal(node.value)
    if isinstance(node, ast.Name):
        if node.id in env:
            return env[node.id]
        if node.id == "pi":
            return "TrigField.pi"
        raise TranslationError("unknown name %r in formula" % node.id)
    if isinstance(node, ast.BinOp):
        a, b = tr_formula(node.left, env), tr_formula(node.right, env)
        if type(node.op) in BINOPS:
            return "(%s %s %s)" % (a, BINOPS[type(node.op)], b)
        if isinstance(node.op, ast.Pow):
            return "(TrigField.pow %s %s)" % (a, b)
        raise TranslationError("unsupported operator %s" % type(node.op).__name__)
    if isinstance(node, ast.UnaryOp):
        a = tr_formula(node.operand, env)
        if isinstance(node.op, ast.USub):
            return "(-%s)" % a
        if isinstance(node.op, ast.UAdd):
            return a
        raise TranslationError("unsupported unary operator %s" % type(node.op).__name__)
    if isinstance(node, ast.Call):
        if (isinstance(node.func, ast.Name) and node.func.id in FUNCS and len(node.args) == 1
                and not node.keywords and node.func.id not in env):
            return "(%s %s)" % (FUNCS[node.func.id], tr_formula(node.args[0], env))
        raise TranslationError("unsupported call %s" % ast.dump(node.func))
    raise TranslationError("unsupported syntax %s" % type(node).__name__)


class _Tmpl:
    """Compiler of the tiny statement language of the two code templates into one Lean term
    of type `List α`, with `f : α → α → α` standing for the `{formula}` hole."""

    HOLE = "FORMULA__HOLE"

    def __init__(self):
        self.count = {}

    def fresh(self, name):
        if not re.fullmatch(r"[A-Za-z_][A-Za-z0-9_]*", name):
            raise TranslationError("bad variable name %r" % name)
        k = self.count.get(name, 0)
        self.count[name] = k + 1
        lean = name if k == 0 else "%s_%d" % (name, k)
        if k == 0 and name in LEAN_KEYWORDS and name not in ("size", "n"):
            lean = name + "_0"
        return lean

    # --- int / range / bool expressions ---------------------------------------------------
    def int_expr(self, node, env):
        if isinstance(node, ast.Constant) and isinstance(node.value, int) and not isinstance(node.value, bool):
            return "(%d : Int)" % node.value
        if isinstance(node, ast.Name) and env.get(node.id, (None,))[0] == "int":
            return env[node.id][1]
        if isinstance(node, ast.BinOp) and type(node.op) in (ast.Add, ast.Sub, ast.Mult):
            return "(%s %s %s)" % (self.int_expr(node.left, env), BINOPS[type(node.op)], self.int_expr(node.right, env))
        if isinstance(node, ast.UnaryOp) and isinstance(node.op, ast.USub):
            return "(-%s)" % self.int_expr(node.operand, env)
        raise TranslationError("unsupported integer expression %s" % ast.dump(node)[:80])

    def range_expr(self, node, env):
        if isinstance(node, ast.Name) and env.get(node.id, (None,))[0] == "range":
            return env[node.id][1]
        if (isinstance(node, ast.Call) and isinstance(node.func, ast.Name) and node.func.id in ("xrange", "range")
                and not node.keywords and node.func.id not in env):
            if len(node.args) == 1:
                return "(xrange %s)" % self.int_expr(node.args[0], env)
            if len(node.args) == 2:
                return "(xrangeFrom %s %s)" % (self.int_expr(node.args[0], env), self.int_expr(node.args[1], env))
        raise TranslationError("unsupported iterable %s" % ast.dump(node)[:80])

    CMP = {ast.Eq: "=", ast.NotEq: "≠", ast.Lt: "<", ast.LtE: "≤", ast.Gt: ">", ast.GtE: "≥"}

    def bool_expr(self, node, env):
        if isinstance(node, ast.Compare) and len(node.ops) == 1 and type(node.ops[0]) in self.CMP:
            return "(%s %s %s)" % (self.int_expr(node.left, env), self.CMP[type(node.ops[0])],
                                   self.int_expr(node.comparators[0], env))
        if isinstance(node, ast.BoolOp):
            op = " ∧ " if isinstance(node.op, ast.And) else " ∨ "
            return "(" + op.join(self.bool_expr(v, env) for v in node.values) + ")"
        if isinstance(node, ast.UnaryOp) and isinstance(node.op, ast.Not):
            return "(¬ %s)" % self.bool_expr(node.operand, env)
        raise TranslationError("unsupported condition %s" % ast.dump(node)[:80])

    # --- list expressions -------------------------------------------------------------------
    def float_env(self, env):
        return {k: "(TrigField.ofInt %s)" % v[1] for k, v in env.items() if v[0] == "int"}

    def elt_expr(self, node, env):
        if isinstance(node, ast.Name) and node.id == self.HOLE:
            # the formula's free variables `size` and `n` resolve in the template's scope here
            for v in ("size", "n"):
                if env.get(v, (None,))[0] != "int":
                    raise TranslationError("template does not bind integer %r at the formula" % v)
            return "f (TrigField.ofInt %s) (TrigField.ofInt %s)" % (env["size"][1], env["n"][1])
        if any(isinstance(x, ast.Name) and x.id == self.HOLE for x in ast.walk(node)):
            raise TranslationError("formula hole inside a larger expression")
        return tr_formula(node, self.float_env(env))

    def list_expr(self, node, env):
        if isinstance(node, ast.List):
            return "[" + ", ".join(self.elt_expr(e, env) for e in node.elts) + "]"
        if isinstance(node, ast.ListComp) and len(node.generators) == 1:
            g = node.generators[0]
            if g.ifs or g.is_async or not isinstance(g.target, ast.Name):
                raise TranslationError("unsupported comprehension")
            rng = self.range_expr(g.iter, env)
            v = self.fresh(g.target.id)
            env2 = dict(env)
            env2[g.target.id] = ("int", v)
            return "%s.map (fun %s => %s)" % (rng, v, self.elt_expr(node.elt, env2))
        raise TranslationError("unsupported list expression %s" % type(node).__name__)

    # --- statements -----------------------------------------------------------------------------
    def block(self, stmts, env, ind):
        pad = "  " * ind
        if not stmts:
            raise TranslationError("template path without return")
        s, rest = stmts[0], stmts[1:]
        if isinstance(s, ast.Expr) and isinstance(s.value, ast.Constant) and isinstance(s.value.value, str):
            return self.block(rest, env, ind)
        if isinstance(s, ast.Pass):
            return self.block(rest, env, ind)
        if isinstance(s, ast.Return):
            if s.value is None:
                raise TranslationError("return without value")
            return pad + self.list_expr(s.value, env)
        if isinstance(s, ast.If):
            if not s.body or not isinstance(s.body[-1], ast.Return):
                raise TranslationError("if-branch that does not return")
            c = self.bool_expr(s.test, env)
            a = self.block(s.body, env, ind + 1)
            b = self.block(list(s.orelse) + rest, env, ind + 1)
            return "%sif %s then\n%s\n%selse\n%s" % (pad, c, a, pad, b)
        if isinstance(s, ast.Assign) and len(s.targets) == 1:
            t = s.targets[0]
            if isinstance(t, ast.Tuple) and isinstance(s.value, ast.Tuple) and len(t.elts) == len(s.value.elts):
                pairs = list(zip(t.elts, s.value.elts))
            elif isinstance(t, ast.Name):
                pairs = [(t, s.value)]
            else:
                raise TranslationError("unsupported assignment")
            new, lines = {}, []
            for tv, val in pairs:            # right-hand sides see the OLD bindings
                if not isinstance(tv, ast.Name):
                    raise TranslationError("unsupported assignment target")
                try:
                    kind, term = "int", self.int_expr(val, env)
                except TranslationError:
                    kind, term = "range", self.range_expr(val, env)
                lean = self.fresh(tv.id)
                new[tv.id] = (kind, lean)
                ty = "Int" if kind == "int" else "List Int"
                lines.append("%slet %s : %s := %s" % (pad, lean, ty, term))
            env2 = dict(env)
            env2.update(new)
            return "\n".join(lines) + "\n" + self.block(rest, env2, ind)
        raise TranslationError("unsupported statement %s" % type(s).__name__)

    def compile(self, template):
        try:
            code = template.format(sname="F__", params_def="", formula=self.HOLE)
            fn = ast.parse(code).body
        except (KeyError, IndexError, SyntaxError, ValueError) as e:
            raise TranslationError("template does not format/parse: %s" % e)
        if len(fn) != 1 or not isinstance(fn[0], ast.FunctionDef):
            raise TranslationError("template is not one function definition")
        fn = fn[0]
        a = fn.args
        if [x.arg for x in a.args] != ["size"] or a.vararg or a.kwarg or a.kwonlyargs or a.defaults:
            raise TranslationError("template signature is not (size{params_def})")
        self.count = {"size": 1}
        return self.block(fn.body, {"size": ("int", "size")}, 1)


def read_source(path=None):
    """-> (entries, {dict name: template string}); entries = the literal keywords of each table row"""
    path = path or os.path.join(common.REPO, SRC_REL)
    with warnings.catch_warnings():
        warnings.simplefilter("ignore")
        tree = ast.parse(open(path, encoding="utf-8").read())
    table, templates = None, {}
    for node in tree.body:
        if not (isinstance(node, ast.Assign) and len(node.targets) == 1):
            continue
        t = node.targets[0]
        if not (isinstance(t, ast.Attribute) and isinstance(t.value, ast.Name)):
            continue
        if t.value.id == "window" and t.attr == "_content_generation_table":
            table = node.value
        if t.attr == "_code_template" and t.value.id in ("window", "wsymm"):
            try:
                templates[t.value.id] = ast.literal_eval(node.value)
            except ValueError:
                raise TranslationError("%s._code_template is not a string literal" % t.value.id)
    if table is None or set(templates) != {"window", "wsymm"}:
        raise TranslationError("table or templates not found in " + path)
    if not isinstance(table, ast.List):
        raise TranslationError("_content_generation_table is not a list literal")
    entries = []
    for row in table.elts:
        if isinstance(row, ast.Call) and isinstance(row.func, ast.Name) and row.func.id == "dict" and not row.args:
            kws = [(k.arg, k.value) for k in row.keywords]
        elif isinstance(row, ast.Dict):
            kws = [(ast.literal_eval(k), v) for k, v in zip(row.keys, row.values)]
        else:
            raise TranslationError("table row is not dict(...)")
        d = {}
        for k, v in kws:
            try:
                d[k] = ast.literal_eval(v)
            except ValueError:
                if k in ("names", "formula", "params_def", "distinct"):
                    raise TranslationError("table field %s is not a literal" % k)
        entries.append(d)
    return entries, templates


def translate(entries, templates):
    """-> text of Gen/Windows.lean"""
    out = []
    w = out.append
    w("/-\n  GENERATED by harness/props/c14.py (translator T2) from audiolazy/lazy_analysis.py:\n"
      "  `window._content_generation_table` (formulas), `window._code_template`, `wsymm._code_template`.\n"
      "  Regenerated on every `./check C14 …`; do not edit by hand.\n-/")
    w("import ALV.Common.TrigField")
    w("namespace ALV.Gen.Windows")
    w("open ALV")
    w("set_option linter.unusedVariables false")
    w("variable {α : Type} [TrigField α]\n")
    w("/-- `xrange(k)` -/\ndef xrange (k : Int) : List Int := (List.range k.toNat).map Int.ofNat\n")
    w("/-- `xrange(a, b)` -/\ndef xrangeFrom (a b : Int) : List Int := (List.range (b - a).toNat).map (fun i => a + Int.ofNat i)\n")
    w("/-- one row of `window._content_generation_table`: the names and the `distinct` flag -/\n"
      "structure Row where\n  names : List String\n  distinct : Bool\n  deriving Repr, DecidableEq\n")
    seen, rows, defaults, forms = set(), [], [], []
    for e in entries:
        names = e.get("names")
        if (not isinstance(names, tuple) or not names or
                not all(isinstance(x, str) and re.fullmatch(r"[A-Za-z_][A-Za-z0-9_]*", x) for x in names)):
            raise TranslationError("bad names %r" % (names,))
        sname = names[0]
        if sname in seen or sname in LEAN_KEYWORDS - {"cos"} or sname in ("sin", "abs", "pi"):
            raise TranslationError("strategy name %r clashes" % sname)
        seen.add(sname)
        formula = e.get("formula")
        if not isinstance(formula, str):
            raise TranslationError("formula of %s is not a string" % sname)
        distinct = e.get("distinct", True)
        if not isinstance(distinct, bool):
            raise TranslationError("distinct of %s is not a bool" % sname)
        pdef = e.get("params_def", "")
        try:
            sig = ast.parse("def F__(size%s): pass" % pdef).body[0].args
            ftree = ast.parse(formula.strip(), mode="eval")
        except SyntaxError as ex:
            raise TranslationError("%s: %s" % (sname, ex))
        params = [a.arg for a in sig.args][1:]
        if sig.vararg or sig.kwarg or sig.kwonlyargs or len(sig.defaults) != len(params) or params not in ([], ["alpha"]):
            raise TranslationError("%s: unsupported parameters %r" % (sname, pdef))
        env = {"size": "size", "n": "n"}
        default = "none"
        if params:
            env["alpha"] = "alpha"
            default = "some (%s)" % tr_formula(sig.defaults[0], {})
        body = tr_formula(ftree, env)
        args = "(size n alpha : α)" if params else "(size n : α)"
        w("/-- formula of %s: `%s` -/" % (", ".join(names), formula.strip()))
        w("def %s %s : α :=\n  %s\n" % (sname, args, body))
        fn = "fun size n alpha => %s size n alpha" % sname if params else "fun size n _ => %s size n" % sname
        forms.append('  | "%s" => some (%s)' % (sname, fn))
        if params:
            defaults.append('  | "%s" => %s' % (sname, default))
        rows.append('  { names := [%s], distinct := %s }' % (
            ", ".join('"%s"' % x for x in names), "true" if distinct else "false"))
    w("/-- `window._code_template`: %s -/" % " ⏎ ".join(l.strip() for l in templates["window"].strip().splitlines()))
    w("def periodicT (f : α → α → α) (size : Int) : List α :=\n%s\n" % _Tmpl().compile(templates["window"]))
    w("/-- `wsymm._code_template`: %s -/" % " ⏎ ".join(l.strip() for l in templates["wsymm"].strip().splitlines()))
    w("def symmT (f : α → α → α) (size : Int) : List α :=\n%s\n" % _Tmpl().compile(templates["wsymm"]))
    w("/-- `window._content_generation_table`: names and `distinct` flags, in table order -/")
    w("def rows : List Row := [\n%s]\n" % ",\n".join(rows))
    w("/-- default of the extra parameter (`params_def`) of the row whose first name is `sname` -/")
    w("def alphaDefault (sname : String) : Option α :=\n  match sname with\n%s\n" % "\n".join(defaults + ["  | _ => none"]))
    w("/-- the `{formula}` of the row whose first name is `sname`, as a function of (size, n, alpha) -/")
    w("def formula (sname : String) : Option (α → α → α → α) :=\n  match sname with\n%s\n" % "\n".join(forms + ["  | _ => none"]))
    w("end ALV.Gen.Windows")
    return "\n".join(out) + "\n"


def regenerate(eng=None):
    """Rewrite lean/ALV/Gen/Windows.lean from the repo under test.  On a translation failure the
    previous (compilable) file is left in place and the error propagates (= broken obligation)."""
    path = os.path.join(common.LEAN, GEN_REL)
    text = translate(*read_source())
    old = open(path).read() if os.path.exists(path) else None
    if old != text:
        os.makedirs(os.path.dirname(path), exist_ok=True)
        with open(path, "w") as f:
            f.write(text)
        return "rewritten (%d bytes)" % len(text)
    return "unchanged (%d bytes)" % len(text)


# =============================================================================================
# The tie
# =============================================================================================
RULE = ("every (dictionary, name/alias, size) for sizes 0..96 plus sampled sizes up to 256 (quick) / 4096 "
        "(thorough), blackman/cos over an alpha grid (int and float alphas, defaults), several access routes; "
        "a small malformed stream (unknown names, alpha for strategies without one, negative alpha for cos, "
        "negative sizes); plus the documented closed form (docstring `.. math::`) of every strategy evaluated by a small "
        "LaTeX evaluator.  Non-trivial: the impl returns a list of at least 2 samples; distinct = distinct JSON case")
TRUSTED = [
    "translator T2 (harness/props/c14.py: ast -> lean/ALV/Gen/Windows.lean), cross-checked on every run: the generated "
    "definitions are evaluated at Float by the driver and compared with the lists the real strategies return",
    "hand-written Lean model ALV/Model/C14.lean of _generate_window_strategies and of the part of StrategyDict it uses "
    "(modelled, not verified: exec, MultiKeyDict internals, function attributes)",
    "Float instance of TrigField (libm cos/sin/pow through the Lean runtime) is only used on the correspondence side; "
    "the theorems are over the reals",
    "integer-typed sub-expressions of a formula such as (size + 2) are computed in the number class (exact below 2^53)",
]
ASSUMPTIONS = [
    "theorems are over R (Mathlib); float rounding is bounded only by the comparator (1e-12 relative), "
    "except the periodic-prefix relation, which is syntactic and is checked bit-exactly on the impl",
    "range [0,1]: blackman for alpha in [-1/4, 1/4], cos for alpha >= 0 (outside, the closed forms really leave [0,1])",
    "wsymm lacks the aliases 'dirichlet'/'rectangular' of the shared rect strategy (DESIGN.md section 8: observation, "
    "not counted as a violation); the tie accepts KeyError or the rect list there and counts it in the histogram",
]
MANIFEST = {"technique": "Lean 4 proofs over definitions regenerated from the repo's formula table and code templates "
                         "(translator) + Float twin differential correspondence"}

TOL = Fraction(1, 10 ** 12)
ALPHA_KINDS = ("blackman", "cos")
ROUTES = ("item", "attr", "dictlink", "funclink")
_last = {}


def _alpha_grid(kind):
    if kind == "blackman":
        return [None, 0.16, 0, 0.25, -0.25, 0.1, 2.0 * 1430 / 18608, 0.2, 1, -1, 0.5]
    return [None, 1, 2, 0, 0.5, 1.5, 3, 0.25, 2.0, 7]


def _mk(dict_, name, size, alpha=None, route="item", kw=False):
    c = {"entry": "call", "dict": dict_, "name": name, "size": size, "alpha": None, "route": route}
    if alpha is not None:
        c["alpha"] = enc(alpha)
        c["alpha_int"] = isinstance(alpha, int)
        c["alpha_kw"] = bool(kw)
    return c


def _names():
    """names per dictionary from the SPEC side (documented aliases), not from the impl"""
    kinds = [("hann", ["hann", "hanning"]), ("hamming", ["hamming"]), ("rect", ["rect", "dirichlet", "rectangular"]),
             ("bartlett", ["bartlett"]), ("triangular", ["triangular", "triangle"]), ("blackman", ["blackman"]),
             ("cos", ["cos"])]
    return kinds


def generate(rng, tier, scale=1):
    cases = []
    quick = tier == "quick"
    dense = 96 if quick else 200
    top = 256 if quick else 4096
    nsamp = (14 if quick else 60) * scale
    nalpha = (30 if quick else 120) * scale
    for dict_ in ("window", "wsymm"):
        for kind, names in _names():
            for name in names:
                sizes = list(range(0, dense + 1)) if scale == 1 else []
                sizes += [rng.randint(dense + 1, top) for _ in range(nsamp)]
                if dict_ == "wsymm" and name in ("dirichlet", "rectangular"):
                    sizes = sizes[:6]          # observation O1 (aliases missing in wsymm): a few probes suffice
                if scale == 1:
                    sizes += [top, top - 1] if name == names[0] else []
                for size in sizes:
                    route = ROUTES[(size + len(name)) % 4] if size % 3 else "item"
                    cases.append(_mk(dict_, name, size, route=route))
            if kind in ALPHA_KINDS:
                grid = _alpha_grid(kind)
                for a in grid[1:]:
                    for size in ([1, 2, 3, 4, 5, 8, 12, 14, 16, 27, 31, 32] if scale == 1 else []):
                        cases.append(_mk(dict_, kind, size, a, kw=(size % 2 == 0)))
                for _ in range(nalpha):
                    a = rng.choice(grid[1:] + [rng.randint(-25, 25) / 100.0 if kind == "blackman"
                                               else rng.randint(0, 400) / 100.0])
                    size = rng.choice([rng.randint(1, 64), rng.randint(1, top), 4 * rng.randint(1, 64)])
                    cases.append(_mk(dict_, kind, size, a, route=rng.choice(ROUTES), kw=rng.random() < 0.5))
        # the documented closed forms (docstring math) of every strategy
        if scale == 1:
            for kind, names in _names():
                for size in (2, 3, 4, 5, 8, 9, 16, 33):
                    for a in ([None, 0.25, 2] if kind in ALPHA_KINDS else [None]):
                        d = _mk(dict_, kind, size, a)
                        d["entry"] = "docmath"
                        cases.append(d)
        # the dictionary called directly: the default strategy
        for size in ([0, 1, 2, 3, 4, 7, 8, 16, 33] if scale == 1 else [rng.randint(0, top)]):
            cases.append(_mk(dict_, None, size))
        # malformed stream
        if scale == 1:
            for name in ("hann", "bartlett", "rect"):
                cases.append(_mk(dict_, name, 5, 0.5))                 # no alpha parameter: TypeError
            for size in (0, 1, 2, 5):
                cases.append(_mk(dict_, "cos", size, -1))              # 0.0 ** -1: ZeroDivisionError
                cases.append(_mk(dict_, "cos", size, -0.5, kw=True))
            for name in ("hannn", "kaiser", "Hann", ""):
                cases.append(_mk(dict_, name, 4))                      # KeyError
            for size in (-1, -7):
                cases.append(_mk(dict_, "hamming", size))              # xrange(negative): empty list
    return cases


# ---------------------------------------------------------------------------------------------
# "each sample equals the documented closed form": the `.. math::` line of a strategy's docstring
# ---------------------------------------------------------------------------------------------
class _LatexError(Exception):
    pass


_TOK = re.compile(r"\s*(\\[a-zA-Z]+|\d*\.\d+|\d+|[a-zA-Z]+|[-+^{}()\[\]|])")
_CLOSE = {"(": ")", "[": "]", "|": "|"}


def _latex_tokens(text):
    pos, out = 0, []
    text = text.strip()
    while pos < len(text):
        m = _TOK.match(text, pos)
        if not m:
            raise _LatexError("bad character at %d" % pos)
        out.append(m.group(1))
        pos = m.end()
    return out


class _LatexParser:
    """expr := ['-'] term (('+'|'-') term)* ; term := factor+ (juxtaposition = product) ;
    factor := atom ['^' group] ; atom := number | n | size | \\alpha | \\pi | \\frac group group |
    \\cos factor | \\sin factor | \\left( expr \\right) | \\left[ expr \\right] | \\left| expr \\right| | group"""

    def __init__(self, toks):
        self.t, self.i = toks, 0

    def peek(self):
        return self.t[self.i] if self.i < len(self.t) else None

    def take(self, want=None):
        tok = self.peek()
        if tok is None or (want is not None and tok != want):
            raise _LatexError("expected %r, got %r" % (want, tok))
        self.i += 1
        return tok

    def expr(self, stop):
        neg = False
        if self.peek() == "-":
            self.take()
            neg = True
        v = self.term(stop)
        if neg:
            v = ("neg", v)
        while self.peek() in ("+", "-"):
            op = self.take()
            v = (op, v, self.term(stop))
        return v

    def term(self, stop):
        v = self.factor()
        while self.peek() is not None and self.peek() not in ("+", "-", "}", "\\right") + tuple(stop):
            v = ("*", v, self.factor())
        return v

    def group(self):
        self.take("{")
        v = self.expr(())
        self.take("}")
        return v

    def factor(self):
        v = self.atom()
        if self.peek() == "^":
            self.take()
            v = ("pow", v, self.group())
        return v

    def atom(self):
        tok = self.take()
        if re.fullmatch(r"\d*\.\d+|\d+", tok):
            return ("num", float(tok))
        if tok in ("n", "size"):
            return ("var", tok)
        if tok == "\\alpha":
            return ("var", "alpha")
        if tok == "\\pi":
            return ("pi",)
        if tok == "\\frac":
            a = self.group()
            return ("/", a, self.group())
        if tok in ("\\cos", "\\sin"):
            return (tok[1:], self.factor())
        if tok == "\\left":
            d = self.take()
            if d not in _CLOSE:
                raise _LatexError("delimiter %r" % d)
            v = self.expr(())
            self.take("\\right")
            self.take(_CLOSE[d])
            return ("abs", v) if d == "|" else v
        if tok == "{":
            self.i -= 1
            return self.group()
        raise _LatexError("unexpected %r" % tok)


def _latex_parse(text):
    p = _LatexParser(_latex_tokens(text))
    v = p.expr(())
    if p.peek() is not None:
        raise _LatexError("trailing %r" % p.peek())
    return v


def _latex_eval(t, env):
    import math
    k = t[0]
    if k == "num":
        return t[1]
    if k == "var":
        return float(env[t[1]])
    if k == "pi":
        return math.pi
    if k == "neg":
        return -_latex_eval(t[1], env)
    if k in ("cos", "sin", "abs"):
        return {"cos": math.cos, "sin": math.sin, "abs": abs}[k](_latex_eval(t[1], env))
    a, b = _latex_eval(t[1], env), _latex_eval(t[2], env)
    return {"+": a + b, "-": a - b, "*": a * b, "/": (a / b) if k == "/" else None,
            "pow": (a ** b) if k == "pow" else None}[k]


def _impl_docmath(c):
    """the documented closed form of sd[name], evaluated at n = 0..size-1"""
    from audiolazy import window, wsymm
    import inspect
    try:
        f = (window if c["dict"] == "window" else wsymm)[c["name"]]
    except KeyError:
        return {"doc": "no-such-strategy"}
    m = re.search(r"\.\. math:: (.*)", f.__doc__ or "")
    if not m:
        return {"doc": None}
    a = _alpha_of(c)
    if a is None:
        d = inspect.signature(f).parameters.get("alpha")
        a = d.default if d is not None else None
    try:
        tree = _latex_parse(m.group(1))
        env = {"size": c["size"], "alpha": a}
        vals = []
        for n in range(c["size"]):
            env["n"] = n
            vals.append(_latex_eval(tree, env))
        return {"doc": [enc(float(v)) for v in vals], "math": m.group(1)}
    except (_LatexError, KeyError, TypeError, ZeroDivisionError, ValueError, OverflowError) as e:
        return {"doc": "unparsed", "why": "%s: %s" % (type(e).__name__, e), "math": m.group(1)}


def _alpha_of(c):
    if c.get("alpha") is None:
        return None
    v = dec(c["alpha"])
    return int(v) if c.get("alpha_int") else float(v)


def _lookup(c):
    from audiolazy import window, wsymm
    sd, other = (window, wsymm) if c["dict"] == "window" else (wsymm, window)
    name, route = c["name"], c.get("route", "item")
    if name is None:
        return sd
    if route == "attr" and name:
        try:
            return getattr(sd, name)
        except AttributeError:
            raise KeyError(name)
    if route == "dictlink":                      # window.symm is wsymm, wsymm.periodic is window
        via = other.symm if c["dict"] == "wsymm" else other.periodic
        return via[name]
    if route == "funclink":                      # wsymm.X.periodic is window.X, window.X.symm is wsymm.X
        f = other[name] if name in _keys(other) and name in _keys(sd) else None
        if f is not None:
            return f.symm if c["dict"] == "wsymm" else f.periodic
    return sd[name]


def _keys(sd):
    return {k for ks in sd.keys() for k in ks}


def impl(c):
    if c["entry"] == "docmath":
        return _impl_docmath(c)
    if c["entry"] != "call":
        return {"err": "OTHER:entry"}
    try:
        f = _lookup(c)
        a = _alpha_of(c)
        args, kw = (c["size"],), {}
        if a is not None:
            if c.get("alpha_kw"):
                kw["alpha"] = a
            else:
                args += (a,)
        out = f(*args, **kw)
        if isinstance(out, list):
            cx = [i for i, x in enumerate(out) if type(x) is complex]
            if cx:                    # Python 3: negative ** non-integer is a complex number
                return {"err": "ComplexSample", "index": cx[0], "value": repr(out[cx[0]]), "len": len(out)}
        if not isinstance(out, list) or not all(type(x) is float for x in out):
            return {"err": "OTHER:not-a-list-of-floats", "repr": repr(out)[:200]}
        obs = {"out": [enc(x) for x in out]}
        if c["dict"] == "window" and c["name"] is not None and c["size"] >= 0:
            # "equals the first size samples of wsymm.X(size+1) exactly"
            try:
                args2 = (c["size"] + 1,) + args[1:]
                longer = f.symm(*args2, **kw)
                obs["prefix_exact"] = bool(len(longer) == c["size"] + 1 and longer[:c["size"]] == out)
            except Exception as e:
                obs["prefix_exact"] = "err:" + err_kind(e)
        return obs
    except Exception as e:
        return {"err": err_kind(e)}


def request(c):
    return {"entry": "call", "dict": c["dict"], "name": c["name"], "size": c["size"], "alpha": c.get("alpha")}


def _alias_gap(c):
    return c["dict"] == "wsymm" and c["name"] in ("dirichlet", "rectangular")


def _range_claimed(kind, alpha):
    if kind == "blackman":
        return alpha is not None and Fraction(-1, 4) <= alpha <= Fraction(1, 4)
    if kind == "cos":
        return alpha is not None and alpha >= 0
    return True


def _sym_tol(kind, alpha):
    """Tolerance of the float symmetry check.  All windows but `cos` are Lipschitz in the sample index, so the
    rounding of `n/size` moves a sample by ~1e-16.  `sin(x) ** alpha` with 0 < alpha < 1 is not Lipschitz at the
    zero end points: a perturbation d of sin(x) (math.sin(math.pi) = 1.2e-16, not 0) moves the sample by up to
    d ** alpha (concavity), e.g. wsymm.cos(2, .5) = [0.0, 1.1e-08].  That is float conditioning, not asymmetry."""
    if kind == "cos" and alpha is not None and 0 < alpha < 1:
        return max(TOL, Fraction(2e-15 ** float(alpha)))
    if kind == "cos" and alpha is not None and alpha > 1:
        return TOL * max(1, int(alpha))
    return TOL


def _problems(c, io, drv):
    """-> list of (kind, clause, detail)"""
    out = []
    model, spec = drv["model"], drv.get("spec")
    vals = None
    if c["entry"] == "docmath":
        # the documented closed form (docstring `.. math::`) against the specified closed form; the impl's
        # samples equal the latter (checked by the "call" cases), so a difference means the documentation
        # states another function than the one implemented
        if spec is None or not isinstance(io.get("doc"), list):
            return out
        dv, sv = [dec(x) for x in io["doc"]], [dec(x) for x in spec["ok"]]
        bad = [i for i, (a, b) in enumerate(zip(dv, sv)) if not (isinstance(b, float) and b != b)
               and not common.close(a, b, Fraction(1, 10 ** 9))]
        if len(dv) != len(sv) or bad:
            i = bad[0] if bad else 0
            out.append(("spec", "doc-math", "documented formula `%s` gives %r at n=%d of %s.%s(%d), the strategy returns %r" % (
                io.get("math"), float(dv[i]), i, c["dict"], c["name"], c["size"], float(sv[i]))))
        return out
    # ---- impl <-> model (Float twin of the generated definitions) ------------------------------
    if "err" in io:
        # model "NaN" = IEEE invalid operation in the Float twin: Python raises ZeroDivisionError (0.0/0.0)
        # or yields a complex number (negative ** non-integer) there
        same = model.get("err") == io["err"] or (model.get("err") == "NaN" and
                                                   io["err"] in ("ZeroDivisionError", "ComplexSample"))
        if not same:
            out.append(("model", "error", "impl raised %s, model %s" % (io["err"], _brief(model))))
    else:
        vals = [dec(x) for x in io["out"]]
        if "err" in model:
            out.append(("model", "error", "impl returned %d samples, model raises %s" % (len(vals), model["err"])))
        else:
            mv = [dec(x) for x in model["ok"]]
            _last["bitexact"] = (mv == vals)
            if len(mv) != len(vals):
                out.append(("model", "length", "impl %d samples, model %d" % (len(vals), len(mv))))
            else:
                bad = [i for i, (a, b) in enumerate(zip(vals, mv)) if not common.close(a, b, TOL)]
                if bad:
                    i = bad[0]
                    out.append(("model", "values", "sample %d: impl %r model %r (%d samples differ)" % (
                        i, float(vals[i]), float(mv[i]), len(bad))))
    # ---- impl <-> spec (the property on this input) -------------------------------------------------
    if spec is None:
        return out
    if _alias_gap(c) and io.get("err") == "KeyError":
        return out                                   # observation O1 (see ASSUMPTIONS), counted in tally
    if io.get("err") == "ComplexSample":
        out.append(("spec", "complex-sample", "%s.%s(%d%s)[%d] = %s is not a real number in [0,1]" % (
            c["dict"], c["name"], c["size"], "" if _alpha_of(c) is None else ", %r" % _alpha_of(c),
            io["index"], io["value"])))
        return out
    if "err" in io:
        out.append(("spec", "raises-" + io["err"], "impl raised %s where the property specifies a window" % io["err"]))
        return out
    sv = [dec(x) for x in spec["ok"]]
    size, kind, symm = c["size"], spec["kind"], spec["symm"]
    alpha = dec(spec["alpha"]) if spec.get("alpha") is not None else None
    if len(vals) != size:
        out.append(("spec", "length", "%d samples for size %d" % (len(vals), size)))
    if c["dict"] == "wsymm" and size == 1 and vals != [1]:
        out.append(("spec", "size1", "wsymm.%s(1) = %r, not [1.0]" % (c["name"], [float(v) for v in vals])))
    if len(vals) == len(sv):
        ct = _sym_tol(kind, alpha)      # conditioning-aware only for cos with 0 < alpha < 1, else TOL
        # a NaN sample of the spec's Float evaluation (sin(~pi) slightly negative, non-integer alpha) is skipped
        bad = [i for i, (a, b) in enumerate(zip(vals, sv)) if not (isinstance(b, float) and b != b)
               and not common.close(a, b, ct)]
        if bad:
            i = bad[0]
            out.append(("spec", "closed-form", "sample %d of %s.%s(%d): impl %r, closed form %r (%d samples differ)" % (
                i, c["dict"], c["name"], size, float(vals[i]), float(sv[i]), len(bad))))
    if _range_claimed(kind, alpha):
        bad = [i for i, v in enumerate(vals) if v < -TOL or v > 1 + TOL]
        if bad:
            out.append(("spec", "range", "sample %d = %r outside [0,1]" % (bad[0], float(vals[bad[0]]))))
    if symm or kind == "rect":
        n = len(vals)
        st = _sym_tol(kind, alpha)
        bad = [i for i in range(n // 2) if abs(vals[i] - vals[n - 1 - i]) > st]
        if bad:
            out.append(("spec", "symmetry", "sample %d = %r but sample %d = %r" % (
                bad[0], float(vals[bad[0]]), n - 1 - bad[0], float(vals[n - 1 - bad[0]]))))
    if "prefix_exact" in io and io["prefix_exact"] is not True:
        out.append(("spec", "periodic-prefix", "window.%s(%d) is not exactly the first %d samples of wsymm.%s(%d): %s" % (
            c["name"], size, size, c["name"], size + 1, io["prefix_exact"])))
    if not symm and len(vals) == size and size > 0:
        for blocks, key in ((2, "cola2"), (4, "cola4")):
            if size % blocks == 0 and spec.get(key) is not None:
                hop, const = size // blocks, dec(spec[key])
                sums = [sum(vals[j + i * hop] for i in range(blocks)) for j in range(hop)]
                bad = [j for j, s in enumerate(sums) if abs(s - const) > 4 * TOL * (1 + abs(const))]
                if bad:
                    out.append(("spec", "cola%d" % blocks, "hop-shifted sum at %d is %r, not the constant %r (hop %d)" % (
                        bad[0], float(sums[bad[0]]), float(const), hop)))
    return out


def _brief(x):
    s = str(x)
    return s if len(s) < 120 else s[:120] + "..."


def compare(c, io, drv):
    _last.clear()
    return [(k, "%s: %s" % (clause, detail)) for k, clause, detail in _problems(c, io, drv)]


def nontrivial(c, io):
    return len(io.get("out", ())) >= 2 or (isinstance(io.get("doc"), list) and len(io["doc"]) >= 2)


def tally(eng, c, io):
    eng.count("entry", c["entry"])
    if c["entry"] == "docmath":
        d = io.get("doc")
        eng.count("docmath", "evaluated" if isinstance(d, list) else str(d))
        return
    eng.count("dict", c["dict"])
    eng.count("name", c["name"] if c["name"] is not None else "<default>")
    eng.count("route", c.get("route", "item"))
    s = c["size"]
    eng.count("size", "<0" if s < 0 else "0" if s == 0 else "1" if s == 1 else "2-16" if s <= 16 else
              "17-64" if s <= 64 else "65-256" if s <= 256 else "257-4096")
    eng.count("alpha", "default" if c.get("alpha") is None else ("int" if c.get("alpha_int") else "float") +
              ("-kw" if c.get("alpha_kw") else "-pos"))
    eng.count("impl_outcome", io.get("err", "list"))
    if "bitexact" in _last:
        eng.count("float_twin", "bit-exact" if _last["bitexact"] else "within-tolerance")
    if "prefix_exact" in io:
        eng.count("prefix_exact_checked", str(io["prefix_exact"]))
    if _alias_gap(c):
        eng.count("wsymm_alias_gap(O1)", io.get("err", "resolves"))
    if "out" in io and c["dict"] == "window" and s > 0:
        eng.count("cola_candidate", "size%4==0" if s % 4 == 0 else "size%2==0" if s % 2 == 0 else "odd")


def key(c):
    return "%s|%s|%s|%s|%s|%s|%s" % (c["entry"], c["dict"], c["name"], c["size"], c.get("alpha"), c.get("alpha_int"), c.get("route"))


def shrink(c):
    s = c["size"]
    for t in sorted({s // 2, s - 1, s - 2, s - 4, 1, 2, 4, 8}):
        if (2 if c["entry"] == "docmath" else 0) <= t < s:
            yield dict(c, size=t)
    if c.get("route", "item") != "item":
        yield dict(c, route="item")
    if c.get("alpha") is not None:
        d = dict(c, alpha=None)
        d.pop("alpha_int", None)
        d.pop("alpha_kw", None)
        yield d
        if c.get("alpha_kw"):
            yield dict(c, alpha_kw=False)
    for kind, names in _names():
        if c["name"] in names[1:]:
            yield dict(c, name=names[0])


def neighbours(c):
    for ds in (-2, -1, 1, 2, 3):
        if c["size"] + ds >= 0:
            yield dict(c, size=c["size"] + ds)
    for s in (1, 2, 3, 4, 8):
        yield dict(c, size=s)
    yield dict(c, dict="wsymm" if c["dict"] == "window" else "window", route="item")
    for kind, names in _names():
        for n in names:
            if n != c["name"]:
                yield dict(c, name=n, alpha=None, route="item")


def classify(c, io, drv):
    ps = _problems(c, io, drv)
    spec = [p for p in ps if p[0] == "spec"]
    p = (spec or ps or [("", "none", "")])[0]
    kind = (drv.get("spec") or {}).get("kind") or str(c["name"])
    return "%s.%s:%s" % (c["dict"], kind, p[1])


# =============================================================================================
# structural checks: registry, identities (cross-links), translator vs runtime table
# =============================================================================================
def extra_checks(eng):
    res = []

    def chk(name, ok, detail=""):
        res.append((name, bool(ok), detail))

    try:
        from audiolazy import window, wsymm
        reg = eng.driver.batch([{"id": ID, "entry": "registry"}])[0]["ok"]
    except Exception as e:   # import failure of the repo under test or driver problem
        return [("registry-available", False, "%s: %s" % (type(e).__name__, e))]
    sds = {"window": window, "wsymm": wsymm}

    def obj(fn):              # model function object (sname, symm) -> impl function object
        return (wsymm if fn[1] else window)[fn[0]]

    # dictionary cross references
    chk("window.symm is wsymm", window.symm is wsymm)
    chk("wsymm.symm is wsymm", wsymm.symm is wsymm)
    chk("window.periodic is window", window.periodic is window)
    chk("wsymm.periodic is window", wsymm.periodic is window)
    for dn, sd in sds.items():
        model_items = {k: tuple(v) for k, v in reg[dn]["items"]}
        impl_keys = _keys(sd)
        chk("%s keys = model keys" % dn, impl_keys == set(model_items),
            "impl %s model %s" % (sorted(impl_keys), sorted(model_items)))
        ok, bad = True, []
        for k in impl_keys & set(model_items):
            sname, symm = model_items[k]
            f = sd[k]
            # identity: same object as the dictionary's primary entry; shared with window iff not symm
            if not (f is sd[sname] and getattr(sd, k, None) is f and f.__name__ == sname and
                    ((f is window[sname]) == (not symm))):
                ok = False
                bad.append(k)
        chk("%s key -> function identity = model" % dn, ok, "keys %s" % bad)
        d = reg[dn]["default"]
        chk("%s.default = model default" % dn, d is not None and sd.default is obj(d), str(d))
        # spec side of the registry (documented names)
        bad = []
        for k, r in reg["spec"][dn]:
            if r is None:
                continue
            if k not in impl_keys:
                if dn == "wsymm" and k in ("dirichlet", "rectangular"):
                    eng.count("wsymm_alias_gap(O1)", "registry:" + k)
                    continue
                bad.append(k)
                continue
            f = sd[k]
            if not (f is (wsymm if r[1] else window)[r[0]]):
                bad.append(k)
        chk("%s documented names resolve to the documented strategy" % dn, not bad, "names %s" % bad)
    # function attributes .periodic / .symm
    for attr in ("periodic", "symm"):
        bad = []
        for f, g in reg[attr]:
            try:
                if getattr(obj(f), attr) is not obj(g):
                    bad.append(f)
            except (KeyError, AttributeError) as e:
                bad.append(f + [repr(e)])
        chk("function .%s links = model" % attr, not bad, str(bad))
    allf = {id(f): f for sd in sds.values() for f in sd}
    bad = [f.__name__ for f in allf.values()
           if not (getattr(f, "periodic", None) is window[f.__name__] and getattr(f, "symm", None) is wsymm[f.__name__])]
    chk("every strategy: .periodic is window[name], .symm is wsymm[name]", not bad, str(bad))
    chk("strategy count", len(window) == len({tuple(v) for _k, v in reg["window"]["items"]}) and
        len(wsymm) == len({tuple(v) for _k, v in reg["wsymm"]["items"]}),
        "impl %d/%d" % (len(window), len(wsymm)))
    # the translator read the same table / templates the running module uses
    try:
        entries, templates = read_source()
        rt = window._content_generation_table
        same = len(rt) == len(entries) and all(
            tuple(r["names"]) == tuple(e["names"]) and r["formula"] == e["formula"] and
            r.get("params_def", "") == e.get("params_def", "") and r.get("distinct", True) == e.get("distinct", True)
            for r, e in zip(rt, entries))
        chk("translator input = runtime table", same)
        chk("translator input = runtime templates",
            templates["window"] == window._code_template and templates["wsymm"] == wsymm._code_template)
    except TranslationError as e:
        chk("translator input readable", False, str(e))
    return res
