"""C10, float regime decided BIT FOR BIT (round 4).

Entry "f64": `fn` in acorr / lag_matrix / levinson / kautocor / kcovar on a list of Python floats
(sent as binary64 bit patterns), `order` an int or None (= omitted).  The Lean driver runs the
generic model of ALV/Model/C10Float.lean on `F64` with `sum` = CPython's compensated float loop
(`sumN`) and every other operation in the order of the code; `levinsonS sumL = levinson`,
`sumN = sumL over a ring` are theorems (Props.C10 `levinsonS_exact` ...), so this twin over exact
operations IS the model the property theorems are about.  Comparison: numerator, error, tables and
exception kinds bit for bit - also on near-singular lag vectors (|k| = 1 - 2^-e), where the
tolerance regime of c10.py only counts.

A bit mismatch is a broken correspondence ("model").  It is ALSO a failing input of the property
("spec") when the Lean SPEC (Spec/C10.lean: Yule-Walker / covariance residuals, the error the
equations assign; evaluated in exact rationals by the driver on the binary64 coefficients) says that
the implementation's output is worse than the correctly rounded run by more than 2^10: residuals,
|error - sum_j a_j r_j|, a0 = 1, length, or when levinson_durbin / lpc.kautocor raises although the
correctly rounded recursion meets no zero divisor.
"""
import math, struct, sys
from fractions import Fraction as F
from common import dec, err_kind

_IMPL = {}
_INFO = {}
NEUMAIER = sys.version_info >= (3, 12)      # builtin sum on floats: compensated since CPython 3.12
SLACK = 2 ** 10
FNS = ("acorr", "lag_matrix", "levinson", "kautocor", "kcovar")


def bits(x):
    return struct.unpack("<Q", struct.pack("<d", float(x)))[0]


def unbits(b):
    return struct.unpack("<d", struct.pack("<Q", b))[0]


def _nb(x):
    """bit pattern with -0.0 stored as +0.0 (the driver's F64 normalisation)"""
    x = float(x)
    return 0 if x == 0 else bits(x)


# ----------------------------------------------------------------------------------------
# generators
# ----------------------------------------------------------------------------------------
def _stepup(ks, r0):
    r, a, E = [F(r0)], [F(1)], F(r0)
    for m, k in enumerate(ks, 1):
        acc = sum(a[j] * r[m - j] for j in range(1, m))
        r.append(-k * E - acc)
        a = [a[j] if j < len(a) else F(0) for j in range(m + 1)]
        a = [a[j] + k * a[m - j] for j in range(m + 1)]
        E = E * (1 - k * k)
    return r


def _fblk(rng, n):
    kind = rng.choice(["uniform", "dyadic", "decay", "mixed", "tenths", "sine"])
    if kind == "uniform":
        return [rng.uniform(-1, 1) for _ in range(n)]
    if kind == "dyadic":
        return [rng.randint(-16, 16) / 8.0 for _ in range(n)]
    if kind == "decay":
        q = rng.choice([0.5, 0.9, -0.75, 0.99])
        return [q ** i + rng.choice([0, 0, 1e-3]) * rng.uniform(-1, 1) for i in range(n)]
    if kind == "mixed":         # magnitudes far apart: the compensation of sum() matters
        return [rng.uniform(-1, 1) * 10.0 ** rng.choice([-6, -3, 0, 0, 3, 6]) for _ in range(n)]
    if kind == "tenths":
        return [rng.randint(-20, 20) / 10.0 for _ in range(n)]
    w = rng.uniform(0.1, 3.0)
    return [math.sin(w * i + 0.3) for i in range(n)]


def _order_for(rng, n, lo=0):
    return rng.choice([None, None, rng.randint(lo, max(lo, n - 1)), max(lo, n - 1), n + rng.randint(0, 2),
                       rng.randint(lo, max(lo, n - 1))])


def _case(fn, xs, order, fam):
    return {"entry": "f64", "fn": fn, "bits": [bits(x) for x in xs], "order": order, "fam": fam}


def _nearsing(rng):
    p = rng.randint(2, 6)
    ks = [F(rng.choice([0, 1, -1, 2, -2, 3, -3]), 4) if rng.random() < 0.5 else F(rng.randint(-7, 7), 10)
          for _ in range(p)]
    j = rng.randrange(p - 1)
    e1 = rng.choice([10, 12, 16, 18, 20, 24, 28, 32, 36, 40])
    ks[j] = rng.choice([1, -1]) * (1 - F(1, 2 ** e1))
    tag = "nearsing 2^-%d" % e1
    if rng.random() < 0.4 and p >= 3:
        j2 = rng.choice([i for i in range(p - 1) if i != j])
        e2 = rng.choice([10, 14, 17, 20, 30])
        ks[j2] = rng.choice([1, -1]) * (1 - F(1, 2 ** e2))
        tag = "nearsing 2^-%d and 2^-%d" % (e1, e2)
    r = [float(x) for x in _stepup(ks, rng.choice([1, 2, 4, 3, 10, 12]))]
    mode = rng.choice(["full", "full", "none", "extend", "tail", "shorter"])
    order = len(r) - 1
    if mode == "none":
        order = None
    elif mode == "extend":
        order = len(r) + rng.randint(0, 1)
    elif mode == "tail":
        r = r + [rng.randint(-4, 4) / 4.0]
    elif mode == "shorter":
        order = rng.randint(1, len(r) - 1)
    return _case("levinson", r, order, tag)


def cases(rng, n):
    out = []
    for _ in range(n):
        u = rng.random()
        if u < 0.30:
            out.append(_nearsing(rng))
        elif u < 0.50:
            fam = rng.choice(["parcor tenths", "parcor tenths", "data acorr", "random", "singular"])
            if fam == "parcor tenths":
                p = rng.randint(1, 7)
                r = [float(x) for x in _stepup([F(rng.randint(-9, 9), 10) for _ in range(p)], rng.choice([1, 3, 7]))]
            elif fam == "data acorr":
                blk = _fblk(rng, rng.randint(2, 12))
                L = rng.randint(1, len(blk) - 1)
                r = [sum(blk[i] * blk[i + t] for i in range(len(blk) - t)) for t in range(L + 1)]
            elif fam == "random":
                r = [rng.uniform(-1, 1) for _ in range(rng.randint(1, 8))]
                r[0] = abs(r[0]) + rng.choice([0, 1, 3])
            else:               # exact zero divisor in floats, too: k = +-1 with dyadic lags
                p = rng.randint(2, 5)
                ks = [F(rng.choice([0, 1, -1, 2, -2, 3, -3]), 4) for _ in range(p)]
                ks[rng.randrange(p - 1)] = rng.choice([1, -1])
                r = [float(x) for x in _stepup(ks, rng.choice([1, 2, 4]))]
            out.append(_case("levinson", r, _order_for(rng, len(r)), fam))
        elif u < 0.65:
            blk = _fblk(rng, rng.randint(1, 14))
            out.append(_case("kautocor", blk, _order_for(rng, len(blk)), "block"))
        elif u < 0.80:
            blk = _fblk(rng, rng.randint(2, 14))
            if rng.random() < 0.2:      # geometric block: singular / near-singular covariance system
                q = rng.choice([0.5, 2.0, -0.5, 0.75, 1.0 / 3])
                blk = [q ** i for i in range(len(blk))]
            out.append(_case("kcovar", blk, rng.choice([None, 1, 2, rng.randint(1, len(blk)), rng.randint(1, 4)]),
                             "block"))
        elif u < 0.92:
            blk = _fblk(rng, rng.randint(0, 14))
            out.append(_case("acorr", blk, _order_for(rng, len(blk)), "block"))
        else:
            blk = _fblk(rng, rng.randint(0, 10))
            out.append(_case("lag_matrix", blk, _order_for(rng, len(blk)), "block"))
    return out


EDGE = [
    _case("levinson", [1.0, 1.0, 1.0], 2, "singular"),
    _case("levinson", [1.0, 0.5, 0.25, 1 / 3.0], 3, "random"),
    _case("levinson", [2.0, 1.0], 3, "random"),
    _case("levinson", [float(x) for x in _stepup([-(1 - F(1, 2 ** 18)), 1 - F(1, 2 ** 18), F(1, 2), -F(1, 4)], 1)], 4,
          "nearsing 2^-18 and 2^-18"),
    _case("levinson", [float(x) for x in _stepup([F(1, 8), -(1 - F(1, 2 ** 20)), 1 - F(1, 2 ** 17), -F(1, 2), F(3, 4)], 12)],
          None, "nearsing 2^-20 and 2^-17"),
    _case("acorr", [1.0, 2.0, 3.0, 4.0, 3.0, 4.0, 2.0], 9, "block"),
    _case("acorr", [1e16, 1.0, -1e16, 1.0], None, "block"),
    _case("kautocor", [1.0, 2.0, 3.0, 4.0, 3.0, 2.0], 2, "block"),
    _case("kcovar", [1.0, 2.0, 3.0, 4.0, 3.0, 2.0, 5.0, 1.0], 2, "block"),
    _case("kcovar", [4.0, 2.0, 1.0, 0.5, 0.25, 0.125], 2, "block"),
    _case("kcovar", [0.0, 0.0, 0.0, 0.0], 1, "block"),
    _case("lag_matrix", [1.0, 2.0, 3.0, 4.0], 2, "block"),
]


# ----------------------------------------------------------------------------------------
# impl / request
# ----------------------------------------------------------------------------------------
def _key(c):
    return (c["fn"], tuple(c["bits"]), c["order"])


def impl(c):
    import audiolazy
    from audiolazy import lazy_lpc, lazy_analysis
    fn = {"acorr": lazy_analysis.acorr, "lag_matrix": lazy_analysis.lag_matrix,
          "levinson": lazy_lpc.levinson_durbin, "kautocor": lazy_lpc.lpc.kautocor,
          "kcovar": lazy_lpc.lpc.kcovar}[c["fn"]]
    xs = [unbits(b) for b in c["bits"]]
    arg = list(xs)
    _IMPL.pop(_key(c), None)
    try:
        res = fn(arg) if c["order"] is None else fn(arg, c["order"])
        if c["fn"] == "acorr":
            obs = {"out": [_nb(x) for x in res], "finite": all(math.isfinite(x) for x in res)}
        elif c["fn"] == "lag_matrix":
            obs = {"out": [[_nb(x) for x in row] for row in res],
                   "finite": all(math.isfinite(x) for row in res for x in row)}
        else:
            a, e = list(res.numerator), res.error
            obs = {"a": [_nb(x) for x in a], "error": _nb(e),
                   "finite": all(math.isfinite(x) for x in a) and math.isfinite(e)}
            if obs["finite"]:
                _IMPL[_key(c)] = ([bits(x) for x in a], bits(e))
    except Exception as ex:     # noqa: the kind is the observation
        obs = {"err": err_kind(ex)}
    if [bits(x) for x in arg] != c["bits"]:
        obs["arg_modified"] = [repr(x) for x in arg]
    return obs


def request(c):
    r = {"entry": "f64", "fn": c["fn"], "bits": c["bits"], "order": c["order"]}
    out = _IMPL.get(_key(c))
    if out is not None:
        r["impl_a"], r["impl_error"] = out
    return r


# ----------------------------------------------------------------------------------------
# comparison
# ----------------------------------------------------------------------------------------
def _describe(c):
    name = {"levinson": "levinson_durbin", "kautocor": "lpc.kautocor", "kcovar": "lpc.kcovar"}.get(c["fn"], c["fn"])
    xs = [unbits(b) for b in c["bits"]]
    return "%s(%r%s)" % (name, xs, "" if c["order"] is None else ", %d" % c["order"])


def _spec_quality(sp):
    """(largest residual, |error - error the equations assign|, a0, len) of a driver spec payload"""
    res = [abs(dec(x)) for x in sp["res"]]
    return (max(res) if res else F(0), abs(dec(sp["error"]) - dec(sp["err_eq"])), dec(sp["a0"]), sp["len"])


def _spec_verdict(c, io, drv, m):
    """is the implementation's output worse, by the exact SPEC, than the correctly rounded run?"""
    what = _describe(c)
    if "err" in io or "err" in m:
        # the property says when levinson_durbin / lpc.kautocor must return (no division by zero in the
        # recursion as run); for lpc.kcovar and for differing exception kinds the disagreement is a broken
        # correspondence only
        if c["fn"] in ("levinson", "kautocor") and "err" in io and "err" not in m:
            return ["%s raises %s, while the code's own recursion in correctly rounded binary64 arithmetic meets no "
                    "zero divisor and returns" % (what, io["err"])]
        return []
    if c["fn"] in ("acorr", "lag_matrix"):
        xs = [F(unbits(b)) for b in c["bits"]]
        sp = drv.get("spec")
        if sp is None:
            return []
        flat = lambda t: [x for row in t for x in row] if c["fn"] == "lag_matrix" else list(t)
        si, sm, se = flat(io["out"]), flat(m["out"]), flat(sp)
        if len(si) != len(se):
            return ["%s: %d entries, documented %d" % (what, len(si), len(se))]
        mass = sum(x * x for x in xs) + F(1, 2 ** 1000)
        out = []
        for k, (bi, bm, ex) in enumerate(zip(si, sm, se)):
            ei, em = abs(F(unbits(bi)) - dec(ex)), abs(F(unbits(bm)) - dec(ex))
            if ei > SLACK * max(em, mass / 2 ** 52):
                out.append("%s: entry %d is %r, the documented sum is %r (%r when summed as the code says)"
                           % (what, k, unbits(bi), float(dec(ex)), unbits(bm)))
                break
        return out
    si, sm = drv.get("spec_impl"), drv.get("spec_model")
    if si is None or sm is None:
        return []
    p = len(sm["res"])
    ri, ei, a0, ln = _spec_quality(si)
    rm, em, _, _ = _spec_quality(sm)
    xs = [abs(F(unbits(b))) for b in c["bits"]]
    floor = (max(xs) ** (1 if c["fn"] == "levinson" else 2) if xs else F(0)) / 2 ** 52 + F(1, 2 ** 1000)
    out = []
    if a0 != 1:
        out.append("%s: numerator[0] = %r, not 1" % (what, float(a0)))
    if ln > p + 1:
        out.append("%s: %d coefficients for order %d" % (what, ln, p))
    if ri > SLACK * max(rm, floor):
        out.append("%s: the returned coefficients leave %.3g in a normal equation (exact evaluation of the Lean "
                   "spec); the same recursion correctly rounded leaves %.3g" % (what, float(ri), float(rm)))
    if ei > SLACK * max(em, floor):
        out.append("%s: error attribute off the error of the returned coefficients by %.3g (correctly rounded "
                   "run: %.3g)" % (what, float(ei), float(em)))
    return out


def compare(c, io, drv):
    info = _INFO.setdefault(_key(c), {})
    info.clear()
    out = []
    if "arg_modified" in io:
        out.append(("spec", "%s modified its argument: became %s" % (_describe(c), io["arg_modified"])))
    m = drv["model"] if NEUMAIER else drv.get("plain", drv["model"])
    pl = drv.get("plain")
    if pl is not None and "err" not in pl and "err" not in drv["model"]:
        strip = lambda d: {k: v for k, v in d.items() if k != "finite"}
        info["sum_matters"] = strip(pl) != strip(drv["model"])
    if not drv.get("input_finite", True) or m.get("finite") is False or io.get("finite") is False:
        info["skipped"] = "non-finite"
        return out
    obs = {k: v for k, v in io.items() if k not in ("finite", "arg_modified")}
    mod = {k: v for k, v in m.items() if k != "finite"}
    if obs == mod:
        info["equal"] = True
        return out
    out.append(("model", "%s: implementation %s, binary64 twin of the model %s (bit patterns differ)"
                % (_describe(c), _show(obs), _show(mod))))
    for msg in _spec_verdict(c, io, drv, m):
        out.append(("spec", msg))
    return out


def _show(o):
    if "err" in o:
        return "raises " + o["err"]
    if "a" in o:
        return "numerator %r error %r" % ([unbits(b) for b in o["a"]], unbits(o["error"]))
    t = o["out"]
    return repr([[unbits(b) for b in row] for row in t] if t and isinstance(t[0], list) else [unbits(b) for b in t])


def nontrivial(c, io):
    if "err" in io:
        return io["err"] in ("ParCorError", "ZeroDivisionError", "ValueError", "IndexError")
    if "a" in io:
        return len(io["a"]) >= 2
    return bool(io.get("out"))


def tally(eng, c, io):
    info = _INFO.get(_key(c), {})
    eng.count("f64_fn", c["fn"])
    eng.count("f64_family", "%s: %s" % (c["fn"], c.get("fam")))
    eng.count("f64_outcome", "%s: %s" % (c["fn"], io.get("err", "returns")))
    eng.count("f64_compared", "%s: %s" % (c["fn"], "skipped (%s)" % info["skipped"] if info.get("skipped") else
                                          "bit for bit equal" if info.get("equal") else "DIFFERENT"))
    if "sum_matters" in info:
        eng.count("f64_compensated_sum_vs_plain_fold", "%s: %s" % (
            c["fn"], "results differ" if info["sum_matters"] else "same bits"))
    n = len(c["bits"])
    o = c["order"]
    eng.count("f64_order_vs_len", "%s: %s" % (c["fn"], "None" if o is None else "order<len-1" if o < n - 1 else
                                              "order=len-1" if o == n - 1 else "order>=len"))


def shrink(c):
    bs, o = c["bits"], c["order"]
    if o is not None and o > 0:
        yield dict(c, order=o - 1)
    if o is None and len(bs) >= 1:
        yield dict(c, order=len(bs) - 1)
    for i in range(len(bs) - 1, -1, -1):
        yield dict(c, bits=bs[:i] + bs[i + 1:])
    for i, b in enumerate(bs):
        x = unbits(b)
        for y in (0.0, 1.0, float(round(x)), float(round(x * 16)) / 16):
            if bits(y) != b and abs(y) <= abs(x) + 1:
                yield dict(c, bits=bs[:i] + [bits(y)] + bs[i + 1:])


def neighbours(c):
    n = len(c["bits"])
    for o in [None] + list(range(0, n + 2)):
        if o != c["order"]:
            yield dict(c, order=o)
    if c["fn"] == "levinson":
        yield dict(c, fn="kautocor")
    for s in (0.5, 3.0):
        yield dict(c, bits=[bits(unbits(b) * s) for b in c["bits"]])


def classify(c, io, drv):
    m = drv.get("model", {}) if isinstance(drv, dict) else {}
    return "f64:%s:impl %s / twin %s" % (c["fn"], io.get("err", "returns"), m.get("err", "returns"))


def extra_checks(eng):
    """the trusted reading of CPython's builtin sum: the driver's `sumN` on F64 is `sum` bit for bit"""
    import random
    rng = random.Random(20260930)
    lists = [[rng.uniform(-1, 1) * 10.0 ** rng.randint(-8, 8) for _ in range(rng.randint(0, 14))] for _ in range(1500)]
    lists += [[1e16, 1.0, -1e16, 1.0], [0.1] * 10, [1.0, 1e100, 1.0, -1e100], [-0.0, -0.0], [], [3.0]]
    try:
        r = eng.driver.batch([{"id": "C10", "entry": "f64", "fn": "sum",
                               "lists": [[bits(x) for x in l] for l in lists]}])[0]
        r = r.get("ok", r)
        py = [_nb(sum(l)) for l in lists]
        want = r["neumaier"] if NEUMAIER else r["plain"]
        ndiff = sum(1 for a, b in zip(r["neumaier"], r["plain"]) if a != b)
        eng.count("f64_sum_table", "compensated != plain fold on %d of %d lists" % (ndiff, len(lists)))
        yield ("float-twin-sum-is-cpython-sum", py == want,
               "builtin sum() on floats differs from the driver's %s on the fixed table (CPython %d.%d)"
               % ("sumN" if NEUMAIER else "sumL", sys.version_info[0], sys.version_info[1]))
    except Exception as ex:
        yield ("float-twin-sum-is-cpython-sum", False, "driver entry f64/sum failed: %r" % (ex,))
