"""C17 — translator: SYNCHRONISATION-SKELETON extractor for AudioIO / AudioThread.

Reads `<repo>/audiolazy/lazy_io.py` with `ast` (source text only, nothing imported from the repo) and writes
`lean/ALV/Gen/C17Src.lean`: for each anchored method its skeleton as a value of `ALV.C17.Skel`
(`lean/ALV/Model/C17Skel.lean`) — in source order and with its nesting: `with <lock>:` blocks (which lock: the
manager's `halting` / `lock` or the thread's own), `while` / `if` guards over `self.halting`, `self.go.is_set()`,
`self.finished`, `self.wait`, `self in …_threads`, `self._recordings`, `for chunk in chunks(self.audio, …)`,
`try … finally`, `try … except IndexError`, `break` / `return` / `raise`, and the operations the transition system
`ALV/Model/C17.lean` has steps for (event set / clear / wait, `halting = …`, `finished = …`, backend calls, `_threads`
/ `_recordings` maintenance, thread start / join, calls of other anchored methods).

Every statement of a translated method must be one of these or LOCAL code that provably mentions no
synchronisation object (whitelisted shapes only); anything else is a `TranslationError` (= broken obligation).
Normalised away: docstrings, comments, whitespace, keyword-argument spelling of pure calls, the names of locals.

`ALV.Props.C17.src_*` prove (by `decide`) that the regenerated value is the skeleton the model documents, that the
model's program counters are exactly its yield points (in source order, with the locks held there), and read the
model's switches `Cfg.fixed` / `FCfg.dieFixed` from it (`variant()` / `die_variant()` below do the same reading in
Python for the requests sent to the driver)."""
import ast
import os
import subprocess

import common

GEN_REL = os.path.join("ALV", "Gen", "C17Src.lean")
SOURCE = os.path.join("audiolazy", "lazy_io.py")

# (class, method) in the order of emission
METHODS = [
    ("AudioIO", "__exit__"), ("AudioIO", "close"), ("AudioIO", "terminate"), ("AudioIO", "play"),
    ("AudioIO", "thread_finished"), ("AudioIO", "recording_finished"),
    ("AudioThread", "__init__"), ("AudioThread", "run"), ("AudioThread", "stop"), ("AudioThread", "pause"),
    ("AudioThread", "play"),
]
NOT_TRANSLATED = {
    "AudioIO.__init__": "constructor: creates the two locks and the empty lists, then the host-API selection "
                        "(generator expression, next, try/except StopIteration) — no operation on a shared object; "
                        "the initial values (finished False, _threads empty) are `ALV.C17.init`, tied by the replay",
    "AudioIO.__del__ / __enter__": "one-line delegations outside the histories of the property (gc time / returns self)",
    "AudioIO.record": "keyword plumbing around one pa.open and one list append; sequential model ALV/Model/C17Rec.lean, "
                      "tied call by call",
    "RecStream.__init__ / stop": "a generator closure (while / for / yield / finally): sequential, no lock, no thread; "
                                 "model C17Rec, tied call by call",
    "chunks (lazy_stream / lazy_io chunk strategies)": "belongs to C18 / C08 (`chunksOf` = `ALV.C08.blocks`)",
}

# names that denote a synchronisation object or an operation on one: local code must not mention any of them
SYNC_NAMES = {"lock", "halting", "go", "finished", "wait", "_threads", "_recordings", "_pa", "stream", "write_stream",
              "join", "start", "stop", "close", "terminate", "thread_finished", "recording_finished", "set", "clear",
              "is_set", "acquire", "release", "threading", "AudioThread", "stop_stream", "start_stream", "take",
              "open", "run", "play", "pause", "record"}
# attributes of `self` that local code of AudioThread.__init__ may assign
LOCAL_ATTRS = {"daemon", "audio", "device_manager", "dfmt", "channels", "chunk_size"}


class TranslationError(Exception):
    pass


def _fail(node, why):
    raise TranslationError("lazy_io.py:%s: %s: %s" % (getattr(node, "lineno", "?"), why,
                                                      ast.dump(node)[:160] if isinstance(node, ast.AST) else node))


def dotted(node):
    """`a.b.c` -> "a.b.c"; None if the expression is not a chain of names"""
    parts = []
    while isinstance(node, ast.Attribute):
        parts.append(node.attr)
        node = node.value
    if isinstance(node, ast.Name):
        parts.append(node.id)
        return ".".join(reversed(parts))
    return None


def call_of(node):
    """`f.g(args)` -> ("f.g", call node) else (None, None)"""
    if isinstance(node, ast.Call):
        return dotted(node.func), node
    return None, None


def is_local(node):
    """an expression / statement that mentions no synchronisation name at all and is made of whitelisted shapes"""
    ok = (ast.Name, ast.Attribute, ast.Constant, ast.Call, ast.keyword, ast.Subscript, ast.IfExp, ast.Compare,
          ast.Load, ast.Store, ast.Is, ast.IsNot, ast.Eq, ast.NotEq, ast.BinOp, ast.Mult, ast.Add, ast.Sub,
          ast.Tuple)
    for sub in ast.walk(node):
        if isinstance(sub, ast.Name) and sub.id in SYNC_NAMES:
            return False
        if isinstance(sub, ast.Attribute) and sub.attr in SYNC_NAMES:
            return False
        if isinstance(sub, (ast.Assign, ast.Expr, ast.If, ast.Import, ast.alias)):
            continue
        if not isinstance(sub, ok):
            return False
    return True


class Method(object):
    def __init__(self, cls, fn):
        self.cls, self.fn = cls, fn
        self.params = [a.arg for a in fn.args.args]
        self.thread_vars = set()      # locals bound to an AudioThread
        self.rec_vars = set()         # locals bound to a RecStream
        self.stream_vars = set()      # locals bound to the raw device stream
        self.chunk_vars = set()

    # ---- guards ---------------------------------------------------------------------------
    def guard(self, t):
        if isinstance(t, ast.Constant) and t.value is True:
            return ".tt"
        if isinstance(t, ast.UnaryOp) and isinstance(t.op, ast.Not):
            return "(.not %s)" % self.guard(t.operand)
        if isinstance(t, ast.BoolOp) and isinstance(t.op, ast.Or):
            gs = [self.guard(v) for v in t.values]
            out = gs[-1]
            for g in reversed(gs[:-1]):
                out = "(.or %s %s)" % (g, out)
            return out
        d = dotted(t)
        if self.cls == "AudioThread" and d == "self.halting":
            return ".halting"
        if self.cls == "AudioIO" and d == "self.finished":
            return ".finished"
        if self.cls == "AudioIO" and d == "self.wait":
            return ".wait"
        if self.cls == "AudioIO" and d == "self._recordings":
            return ".recordings"
        name, c = call_of(t)
        if self.cls == "AudioThread" and name == "self.go.is_set" and not c.args and not c.keywords:
            return ".goIsSet"
        if (self.cls == "AudioThread" and isinstance(t, ast.Compare) and len(t.ops) == 1 and isinstance(t.ops[0], ast.In)
                and dotted(t.left) == "self" and dotted(t.comparators[0]) == "self.device_manager._threads"):
            return ".inThreads"
        _fail(t, "guard outside the vocabulary")

    # ---- locks ----------------------------------------------------------------------------
    def lock(self, e):
        d = dotted(e)
        if self.cls == "AudioIO" and d == "self.halting":
            return ".hlt"
        if self.cls == "AudioIO" and d == "self.lock":
            return ".mgr"
        if self.cls == "AudioThread" and d == "self.lock":
            return ".thr"
        _fail(e, "`with` on something that is not one of the three locks")

    # ---- simple statements -> list of Op texts ([] = local code) ------------------------------
    def noargs(self, c):
        if c.args or c.keywords:
            _fail(c, "unexpected arguments")

    def call_ops(self, c, stmt):
        name = dotted(c.func)
        A, T = self.cls == "AudioIO", self.cls == "AudioThread"
        if (T and self.fn.name == "__init__" and isinstance(c.func, ast.Attribute) and c.func.attr == "__init__"
                and isinstance(c.func.value, ast.Call) and dotted(c.func.value.func) == "super" and not c.args):
            return []                                                  # super(AudioThread, self).__init__()
        if name is None:
            _fail(stmt, "call of a computed function")
        head, _, meth = name.rpartition(".")
        if T and name in ("self.go.set", "self.go.clear", "self.go.wait"):
            self.noargs(c)
            return [{"set": ".goSet", "clear": ".goClear", "wait": ".goWait"}[meth]]
        if T and name == "self.write_stream":
            if (len(c.args) == 4 and not c.keywords and dotted(c.args[0]) in self.stream_vars
                    and dotted(c.args[1]) in self.chunk_vars and dotted(c.args[2]) == "self.chunk_size"
                    and isinstance(c.args[3], ast.Constant) and c.args[3].value is False):
                return [".write"]
            _fail(stmt, "write_stream call of another shape")
        if T and name == "self.stream.write":
            if len(c.args) == 2 and dotted(c.args[0]) in self.chunk_vars and dotted(c.args[1]) == "self.chunk_size":
                return [".write"]
            _fail(stmt, "stream.write call of another shape")
        if T and name in ("self.stream.stop_stream", "self.stream.start_stream", "self.stream.close"):
            self.noargs(c)
            return [{"stop_stream": ".stopStream", "start_stream": ".startStream", "close": ".closeStream"}[meth]]
        if T and name == "self.device_manager.thread_finished":
            if len(c.args) == 1 and dotted(c.args[0]) == "self" and not c.keywords:
                return ["(.call .threadFinished)"]
            _fail(stmt, "thread_finished call of another shape")
        if A and name == "self.close":
            self.noargs(c)
            return ["(.call .close)"]
        if A and name == "self._pa.terminate":
            self.noargs(c)
            return [".paTerminate"]
        if A and name == "self._threads.append":
            if len(c.args) == 1 and dotted(c.args[0]) in self.thread_vars:
                return [".thrAppend"]
            _fail(stmt, "_threads.append of something that is not the new thread")
        if A and name == "self._threads.remove":
            if len(c.args) == 1 and dotted(c.args[0]) == "thread" and "thread" in self.params:
                return [".thrRemove"]
            _fail(stmt, "_threads.remove of something that is not the parameter `thread`")
        if A and head in self.thread_vars and meth in ("start", "join", "stop"):
            self.noargs(c)
            return [{"start": ".thrStart", "join": ".thrJoin", "stop": "(.call .stop)"}[meth]]
        if A and head in self.rec_vars and meth == "stop":
            self.noargs(c)
            return [".recStop"]
        if A and head in self.rec_vars and meth == "take":
            if len(c.args) == 1 and dotted(c.args[0]) == "inf" and not c.keywords:
                return [".recDrain"]
            _fail(stmt, "take of something that is not inf")
        if is_local(stmt):
            return []
        _fail(stmt, "call outside the vocabulary")

    def assign_ops(self, s):
        if len(s.targets) != 1:
            _fail(s, "multiple assignment targets")
        tgt, val = s.targets[0], s.value
        d = dotted(tgt)
        A, T = self.cls == "AudioIO", self.cls == "AudioThread"
        const = lambda: isinstance(val, ast.Constant) and isinstance(val.value, bool)
        if T and d == "self.halting":
            if const():
                return ["(.setHalting %s)" % ("true" if val.value else "false")]
            _fail(s, "halting assigned something that is not True / False")
        if A and d == "self.finished":
            if const():
                return ["(.setFinished %s)" % ("true" if val.value else "false")]
            _fail(s, "finished assigned something that is not True / False")
        if T and self.fn.name == "__init__" and d == "self.lock":
            if call_of(val)[0] == "threading.Lock" and not val.args:
                return ["(.newLock .thr)"]
            _fail(s, "self.lock is not a threading.Lock()")
        if T and self.fn.name == "__init__" and d == "self.go":
            if call_of(val)[0] == "threading.Event" and not val.args:
                return [".newEvent"]
            _fail(s, "self.go is not a threading.Event()")
        if T and self.fn.name == "__init__" and d == "self.stream":
            name, c = call_of(val)
            if name == "device_manager._pa.open" and not c.args and any(
                    k.arg == "output" and isinstance(k.value, ast.Constant) and k.value.value is True for k in c.keywords):
                return [".paOpen"]
            _fail(s, "self.stream is not device_manager._pa.open(..., output=True, ...)")
        if T and self.fn.name == "__init__" and d == "self.write_stream":
            if dotted(val) == "_portaudio.write_stream":
                return []
            _fail(s, "self.write_stream is not _portaudio.write_stream")
        if isinstance(tgt, ast.Name):
            # locals: bound to a thread / a recording stream / the raw device stream, or pure
            if A and isinstance(val, ast.Subscript) and dotted(val.value) == "self._threads":
                ix = val.slice
                if isinstance(ix, ast.Constant) and ix.value == 0:
                    self.thread_vars.add(tgt.id)
                    return [".thrFirst"]
                _fail(s, "_threads read at an index that is not 0")
            if A and isinstance(val, ast.Subscript) and dotted(val.value) == "self._recordings":
                ix = val.slice
                if (isinstance(ix, ast.UnaryOp) and isinstance(ix.op, ast.USub) and isinstance(ix.operand, ast.Constant)
                        and ix.operand.value == 1):
                    self.rec_vars.add(tgt.id)
                    return [".recLast"]
                _fail(s, "_recordings read at an index that is not -1")
            name, c = call_of(val)
            if A and name == "AudioThread":
                if (len(c.args) == 2 and dotted(c.args[0]) == "self" and dotted(c.args[1]) in self.params
                        and len(c.keywords) == 1 and c.keywords[0].arg is None):
                    self.thread_vars.add(tgt.id)
                    return ["(.call .threadInit)"]
                _fail(s, "AudioThread constructed with other arguments")
            if T and dotted(val) == "self.stream._stream":
                self.stream_vars.add(tgt.id)
                return []
        if (A and d == "self._recordings" and self.fn.name == "recording_finished" and isinstance(val, ast.ListComp)
                and ast.dump(val) == ast.dump(ast.parse("[r for r in self._recordings if r is not recst]", mode="eval").body)
                and "recst" in self.params):
            return [".recFilter"]
        if T and self.fn.name == "__init__" and d is not None and d.startswith("self.") and d[5:] in LOCAL_ATTRS and is_local(val):
            return []
        if isinstance(tgt, ast.Name) and is_local(val):
            return []
        _fail(s, "assignment outside the vocabulary")

    # ---- blocks -----------------------------------------------------------------------------
    def block(self, stmts):
        """statement list -> Lean text of a `Skel` (continuation form)"""
        if not stmts:
            return ".done"
        s, rest = stmts[0], stmts[1:]
        if isinstance(s, ast.Expr) and isinstance(s.value, ast.Constant) and isinstance(s.value.value, str):
            return self.block(rest)                                    # docstring
        if isinstance(s, (ast.Break, ast.Return, ast.Raise)):
            if rest:
                _fail(rest[0], "code after a terminator")
            if isinstance(s, ast.Break):
                return ".brk"
            if isinstance(s, ast.Return):
                if s.value is not None and dotted(s.value) is None:
                    _fail(s, "return of a computed value")
                return ".ret"
            name, _ = call_of(s.exc)
            if name != "threading.ThreadError" or s.cause is not None:
                _fail(s, "raise of something that is not threading.ThreadError(...)")
            return ".raise"
        k = self.block
        if isinstance(s, ast.With):
            if len(s.items) != 1 or s.items[0].optional_vars is not None:
                _fail(s, "with-statement of another shape")
            lk = self.lock(s.items[0].context_expr)
            return "(.withL %s %s %s)" % (lk, k(s.body), k(rest))
        if isinstance(s, ast.While):
            if s.orelse:
                _fail(s, "while … else")
            return "(.whileG %s %s %s)" % (self.guard(s.test), k(s.body), k(rest))
        if isinstance(s, ast.For):
            name, c = call_of(s.iter)
            if (s.orelse or not isinstance(s.target, ast.Name) or name != "chunks" or len(c.args) != 1
                    or dotted(c.args[0]) != "self.audio" or self.cls != "AudioThread"):
                _fail(s, "for-loop that is not `for chunk in chunks(self.audio, …)`")
            self.chunk_vars.add(s.target.id)
            return "(.forChunks %s %s)" % (k(s.body), k(rest))
        if isinstance(s, ast.If):
            if is_local(s):
                return k(rest)                                         # local code (keyword plumbing)
            return "(.ifG %s %s %s %s)" % (self.guard(s.test), k(s.body), k(s.orelse), k(rest))
        if isinstance(s, ast.Try):
            if s.orelse:
                _fail(s, "try … else")
            if s.finalbody and not s.handlers:
                return "(.tryFinally %s %s %s)" % (k(s.body), k(s.finalbody), k(rest))
            if (len(s.handlers) == 1 and not s.finalbody and dotted(s.handlers[0].type) == "IndexError"
                    and s.handlers[0].name is None):
                return "(.tryIndexError %s %s %s)" % (k(s.body), k(s.handlers[0].body), k(rest))
            _fail(s, "try-statement of another shape")
        if isinstance(s, ast.Assert):
            t = s.test
            if (self.cls == "AudioIO" and isinstance(t, ast.UnaryOp) and isinstance(t.op, ast.Not)
                    and dotted(t.operand) == "self._pa._streams"):
                ops = [".assertNoStreams"]
            else:
                _fail(s, "assert outside the vocabulary")
        elif isinstance(s, ast.Assign):
            ops = self.assign_ops(s)
        elif isinstance(s, ast.Expr) and isinstance(s.value, ast.Call):
            ops = self.call_ops(s.value, s)
        elif isinstance(s, ast.Import) and self.fn.name == "__init__" and [a.name for a in s.names] == ["_portaudio"]:
            ops = []
        else:
            _fail(s, "statement outside the vocabulary")
        out = k(rest)
        for o in reversed(ops):
            out = "(.op %s %s)" % (o, out)
        return out


def read_source(text=None):
    """-> [(qualified name, Lean text of its Skel)]"""
    if text is None:
        with open(os.path.join(common.REPO, SOURCE)) as f:
            text = f.read()
    try:
        tree = ast.parse(text)
    except SyntaxError as e:
        raise TranslationError("lazy_io.py does not parse: %s" % e)
    classes = {n.name: n for n in tree.body if isinstance(n, ast.ClassDef)}
    out = []
    for cls, meth in METHODS:
        if cls not in classes:
            raise TranslationError("class %s not found" % cls)
        fns = [n for n in classes[cls].body if isinstance(n, ast.FunctionDef) and n.name == meth]
        if len(fns) != 1:
            raise TranslationError("%s.%s: %d definitions" % (cls, meth, len(fns)))
        if fns[0].decorator_list:
            raise TranslationError("%s.%s is decorated" % (cls, meth))
        out.append(("%s.%s" % (cls, meth), Method(cls, fns[0]).block(fns[0].body)))
    return out


def pretty(t, ind=4, width=100):
    """break a parenthesised Lean term over lines (pure layout: the token sequence is unchanged)"""
    if len(t) + ind <= width or not t.startswith("("):
        return " " * ind + t
    # split the top-level arguments
    inner, parts, depth, cur = t[1:-1], [], 0, ""
    for ch in inner:
        if ch == "(":
            depth += 1
        elif ch == ")":
            depth -= 1
        if ch == " " and depth == 0:
            parts.append(cur)
            cur = ""
        else:
            cur += ch
    parts.append(cur)
    head, args = [], parts
    while args and not args[0].startswith("("):
        head.append(args.pop(0))
    lines = [" " * ind + "(" + " ".join(head)]
    for a in args:
        lines.append(pretty(a, ind + 2, width))
    lines[-1] += ")"
    return "\n".join(lines)


def translate(skels):
    lines = ["/- GENERATED by harness/props/c17_tr.py from audiolazy/lazy_io.py (synchronisation skeletons of the anchored",
             "   methods of AudioIO / AudioThread, read with `ast`).  Do not edit: rewritten on every check. -/",
             "import ALV.Model.C17Skel", "namespace ALV.Gen.C17", "open ALV.C17", "",
             "def skeleton : List (String × Skel) := ["]
    rows = []
    for q, sk in skels:
        rows.append('  ("%s",\n%s)' % (q, pretty(sk)))
    lines.append(",\n".join(rows) + "]")
    lines += ["", "end ALV.Gen.C17", ""]
    return "\n".join(lines)


# ---- the model's switches, read from the skeleton (same reading as ALV.C17.variantOf / dieVariantOf) ----------
_EPILOGUE = "(.withL .thr (.ifG .inThreads (.op .closeStream (.op (.call .threadFinished) .done)) .done .done) .done)"
_STOP_FIXED = "(.withL .thr (.op (.setHalting true) (.op .goSet .done)) .done)"
_STOP_CODED = "(.withL .thr (.op .goClear (.op (.setHalting true) .done)) .done)"
_LOOP_FIXED = ("(.op .write (.ifG (.or .halting (.not .goIsSet)) (.op .stopStream (.ifG .halting .brk .done (.op .goWait "
               "(.ifG .halting .brk .done (.op .startStream .done))))) .done .done))")
_LOOP_CODED = ("(.op .write (.ifG (.not .goIsSet) (.op .stopStream (.ifG .halting .brk .done (.op .goWait "
               "(.op .startStream .done)))) .done .done))")


def switches(skels=None):
    """-> {"fixed": True/False/None, "dieFixed": True/False/None}; None = the model has no such variant.
    (Stricter than the Lean readers on purpose: the whole loop body is compared, so None here with `some _` there
    only happens together with a failing `src_skeleton_is_documented`.)"""
    d = dict(read_source() if skels is None else skels)
    stop, run = d["AudioThread.stop"], d["AudioThread.run"]
    fixed = die = None
    for loop, st, val in ((_LOOP_FIXED, _STOP_FIXED, True), (_LOOP_CODED, _STOP_CODED, False)):
        if stop == st and ("(.forChunks %s .done)" % loop) in run:
            fixed = val
    for loop in (_LOOP_FIXED, _LOOP_CODED):
        if run == "(.tryFinally (.forChunks %s .done) %s .done)" % (loop, _EPILOGUE):
            die = True
        if run == "(.forChunks %s %s)" % (loop, _EPILOGUE):
            die = False
    return {"fixed": fixed, "dieFixed": die}


def regenerate(eng=None):
    """Rewrite lean/ALV/Gen/C17Src.lean from the repo under test.  On a translation failure the last COMMITTED file is
    put back (so that the build and the driver speak about the last source that could be translated) and the error
    propagates (= broken obligation)."""
    path = os.path.join(common.LEAN, GEN_REL)
    try:
        text = translate(read_source())
    except Exception:
        try:
            good = subprocess.run(["git", "-C", common.VERIF, "show", "HEAD:lean/" + GEN_REL.replace(os.sep, "/")],
                                  capture_output=True, text=True, timeout=30)
            if good.returncode == 0 and good.stdout and (not os.path.exists(path) or open(path).read() != good.stdout):
                with open(path, "w") as f:
                    f.write(good.stdout)
        except Exception:
            pass
        raise
    old = open(path).read() if os.path.exists(path) else None
    if old != text:
        os.makedirs(os.path.dirname(path), exist_ok=True)
        with open(path, "w") as f:
            f.write(text)
        return "rewritten (%d bytes)" % len(text)
    return "unchanged (%d bytes)" % len(text)


# ---- self-test: edited copies of the source text ------------------------------------------------------------------
SELFTEST_EDITS = [
    ("stop(): go.set() -> go.clear() (D10 back)",
     "      self.halting = True\n      self.go.set()", "      self.halting = True\n      self.go.clear()"),
    ("stop(): the two statements under the lock swapped",
     "      self.halting = True\n      self.go.set()", "      self.go.set()\n      self.halting = True"),
    ("run(): guard `self.halting or not self.go.is_set()` -> `not self.go.is_set()`",
     "if self.halting or not self.go.is_set():", "if not self.go.is_set():"),
    ("run(): `finally:` dropped (epilogue after the loop, D21 back)", None, None),
    ("thread_finished(): _threads.remove moved out of `with self.lock:`",
     "    with self.lock:\n      self._threads.remove(thread)", "    with self.lock:\n      pass\n    self._threads.remove(thread)"),
    ("close(): thread.join() before thread.stop()",
     "          if not self.wait:\n            thread.stop()\n          thread.join()",
     "          thread.join()\n          if not self.wait:\n            thread.stop()"),
    ("play(): new_thread.start() before _threads.append(new_thread)",
     "      self._threads.append(new_thread)\n      new_thread.start()",
     "      new_thread.start()\n      self._threads.append(new_thread)"),
    ("close(): an unknown call inside the loop (must be refused, not skipped)",
     "          thread.join()", "          thread.join()\n          self._pa.sleep(1)"),
]


def _drop_finally(text):
    """`try: <loop> finally: <epilogue>` of run -> `<loop>` `<epilogue>` (dedented)"""
    lines = text.split("\n")
    a = next(i for i, l in enumerate(lines) if l.strip() == "try:" and "for chunk in chunks" in lines[i + 1])
    b = next(i for i in range(a, len(lines)) if lines[i].strip() == "finally:")
    c = next(i for i in range(b + 1, len(lines)) if lines[i].startswith("  def "))
    ded = lambda ls: [l[2:] if l.startswith("      ") else l for l in ls]
    return "\n".join(lines[:a] + ded(lines[a + 1:b]) + ded(lines[b + 1:c]) + lines[c:])


def selftest():
    """-> [(name, ok, detail)]"""
    out = []
    with open(os.path.join(common.REPO, SOURCE)) as f:
        text = f.read()
    try:
        base = translate(read_source(text))
    except TranslationError as e:
        return [("translator-selftest", False, "the source under test does not translate: %s" % e)]
    path = os.path.join(common.LEAN, GEN_REL)
    same = os.path.exists(path) and open(path).read() == base
    out.append(("translator-selftest: the unchanged source text reproduces lean/%s byte for byte" % GEN_REL.replace(os.sep, "/"),
                same, "" if same else "the file on disk differs from the translation of the source under test"))
    for name, old, new in SELFTEST_EDITS:
        try:
            if old is None:
                edited = _drop_finally(text)
            else:
                if text.count(old) != 1:
                    out.append(("translator-selftest: " + name, True, "edit not applicable to this source (skipped)"))
                    continue
                edited = text.replace(old, new)
            ast.parse(edited)
        except Exception as e:
            out.append(("translator-selftest: " + name, True, "edit not applicable to this source (%s)" % type(e).__name__))
            continue
        try:
            got = translate(read_source(edited))
            ok, detail = got != base, "Gen text differs" if got != base else "the edit did NOT change the generated text"
        except TranslationError as e:
            ok, detail = True, "TranslationError: %s" % str(e)[:100]
        out.append(("translator-selftest: " + name, ok, detail))
    # a comment / docstring / local-name edit must NOT change the text
    harmless = text.replace("with self.halting: # Avoid simultaneous \"close\" threads", "with self.halting:  # one close at a time") \
                   .replace("st = self.stream._stream", "raw = self.stream._stream") \
                   .replace("self.write_stream(st, chunk,", "self.write_stream(raw, chunk,")
    try:
        ok = harmless != text and translate(read_source(harmless)) == base
    except TranslationError as e:
        ok = False
    out.append(("translator-selftest: comment / local-name edits are normalised away", ok, ""))
    return out
