"""C04 — a constant-coefficient filter computes its difference equation.

Tie (DESIGN.md 3.2 / section 7 C04):
  (i)  T3: `lazy_filters._exec_eval` is wrapped from here (no repo change) to capture the source
       that `LinearFilter.__call__` generates; the source is parsed with `ast` into a canonical
       straight-line IR and compared STRUCTURALLY with the IR printed by the Lean `compile` for
       the same coefficients (covers every sample value at once);
  (ii) I/O differential with exact `Fraction` samples (and a float regime with a running
       rounding-error bound) against the Lean model (`evalIR (compile …)`) and the Lean spec
       (`specCall`: the difference equation over unbounded histories).
"""
import ast
import itertools
import random
import re
from fractions import Fraction

import common
from common import enc, dec, err_kind
from props import c04_hist as H
from props import c04_cx as X
from props import c04_tr as TR

ID = "C04"
RULE = ("exhaustive small universe (coefficients in {-1,0,1,2}, lb<=3, la<=3) plus random shapes of order 0..8 "
        "(zeros, +1/-1, a0 in {1,-1,other}, sparse high delays, leading-zero denominators, negative delays) built "
        "from lists, dicts, OrderedDicts, Poly objects, z-expressions, a filter cast and the LinearFilter base class, with "
        "int / Fraction / dyadic-float coefficients, memories None / list / tuple / deque / iterator / finite and endless "
        "generator / Stream / Stream subclass with its own __iter__ / callable (lambda, bound method; returning a list, the "
        "same list, a tuple, a generator), inputs as list / tuple / deque / iterator / generator / Stream / Stream subclass, "
        "several zero values; + long cases (orders 31..33, 63..65, 127..129, 255..257, 511..513: sparse and dense FIR, "
        "feedback combs, both; inputs of 1000..5000 (thorough: ..10000) samples around 1024 / 2048 / 4096; exact integer / "
        "Fraction arithmetic); + histories (c04_hist.py: 6-20 steps on shared objects: memory list / input list / "
        "coefficient list or dict mutated by the caller between construction, call and consumption, one filter called "
        "several times, equal filters of different coefficient types in both orders, several live streams consumed "
        "interleaved in chunks, non-causal filters inside a history; every history runs in a freshly forked process); "
        "+ cascades (one filter object applied 2-4 times to its own lazy output, a memory per stage: re-entrant use); "
        "+ coefficient kinds / constructor shapes / call shapes over Q(i) (c04_cx.py, driver entry gcall): every spelling of "
        "the special-cased values (1, -1, 0 as int, bool, float, Fraction, complex 1+0j / -1+0j / 0j) and their neighbours "
        "(1j, -1j, unit-modulus 0.6+0.8j, 2j, 10**30) in every position (numerator delay 0..2, denominator delay 1..2, gain), "
        "random Gaussian-integer / unit-modulus / bool / huge-int / dyadic-complex / Fraction coefficient vectors, numerator and "
        "denominator given as number, None / omitted, list, dict, OrderedDict, Poly, keywords, z-arithmetic, filter cast, cast "
        "with a scalar divisor, polynomials assigned to an existing object (a[0] missing / 0 / 0.0 / Fraction(0) / 0j / False: the "
        "ZeroDivisionError branch), memory and zero omitted / keyword / positional, memory as thub / callable returning a Stream / "
        "callable object / partial / endless Stream, zero spelled int / bool / float / Fraction / complex, Gaussian-integer / "
        "dyadic-complex / Fraction / int samples, inputs incl. thub and endless iterators consumed with take(n); "
        "+ round 4: complex HISTORIES (entry ghist: the history templates over Q(i), Gaussian-integer coefficients / samples / "
        "memories, complex twins c+0j of int / float / Fraction filters called in both orders) and complex CASCADES (entry gcascade); "
        "dense-list T3 (entry gcompile: every special spelling in every position of b, a[1:], a[0], all zero spellings of the all-zero "
        "filter); family gain: a[0] of every spelling other than +-1 (int, negative, huge, integer-valued / other Fraction, float; "
        "over Q(i) also bool and complex) x exact samples (Fractions with odd denominators, huge integers), compared with tolerance 0 "
        "whenever the coefficients are integers, + the SPELLING of the divisor literal in the source; family free: all-zero numerators "
        "(none / [] / 0 / 0.0 / 0j / False / Fraction(0), 0..3 of them) x denominators of order 1..3 x memory kinds x non-null zero "
        "values, output compared with the free response; family memread: iterator memories (counting iterator, generator, iter(list), "
        "Stream; lengths 0..lm+3 and endless) on orders 0..4, observed right after the call (items pulled, next items), callable "
        "memories log what they are asked; "
        "+ round 5 (not cases): the source text of LinearFilter.__call__ is translated into Lean before the build (c04_tr.py) and the "
        "translator is run on 19 edited copies of that text (each must give a different Lean text or a TranslationError); "
        "a case is non-trivial when the impl yields at least one sample or raises; distinct = distinct JSON case")
TRUSTED = [
    "source translator harness/props/c04_tr.py (ast of LinearFilter.__call__ -> lean/ALV/Gen/C04Src.lean, rewritten on every run; "
    "src_compile_is_model / src_memoryOf_is_model / src_call_is_model prove the regenerated definitions equal to the hand-written "
    "model): trusted are (a) the python subset semantics it assumes: statements run in order, an if / elif chain takes the first true "
    "test, `x == c` / `x != c` on a number is equality with the field element c, `len`, `xrange(a, b[, -1])`, int `-` where only "
    "xrange bounds and `>` tests see the result (truncated subtraction), `'...'.format(...)` substitutes the printed value as an "
    "atomic operand (checked for the spellings 7, -7, 7/3, -7/3, 1e-05, 2.5 by exact evaluation; T3 checks the real spellings per "
    "case), `' + '.join` = python's left-associated sum; (b) the vocabulary mapping of ALV/Model/C04SrcVocab.lean: "
    "`for delay, coeff in iteritems(self.numdict / self.dendict)` = positions of the dense list (zero entries must be inert: proved), "
    "data_sum.append = list append, `gain` unbound before delay 0 = 0 (the a[0] == 0 guard raised before), memory is None / "
    "isinstance(memory, Iterable) / memory(lm) / takewhile-enumerate / zero_pad(seq, left, zero=) on the model's `Mem`, "
    "`self.denpoly[0]` = coefAt den 0, poly.terms() = the term list, ValueError / ZeroDivisionError = Err; (c) the constant-coefficient "
    "view: isinstance(coeff, Iterable) and isinstance(self.denpoly[0], Stream) are False and the *_iterables lists stay empty (the "
    "shape of those branches is checked, their meaning is C06's); (d) the generated text it instantiates on sample sizes is read "
    "with the same reading as T3 (tuple unpacking of memory, chained assignment of zero, m0 = expr, yield m0, shifts). "
    "Cross-checked: self-test on 19 edited copies of the source text + 3 harmless rewrites (extra checks), T3 and the I/O "
    "differential on every case",
    "hand-written Lean model ALV/Model/C04.lean of LinearFilter.__init__/__call__ (modelled, not verified: Poly "
    "as a key-sorted association list, the exec'd generator as straight-line IR with sequential assignments and "
    "Python's left-associated '+'); inside Lean the model is proved equal to the specification end to end "
    "(filterCall_eq_specCall), so the only unproved link is model <-> /repo, measured by this tie",
    "translator T3 in harness/props/c04.py: ast-parser of the generated generator source into the canonical IR "
    "(constant folding in exact Fractions); self-tested on seeded source edits (extra check) and cross-checked by "
    "the I/O differential on every case",
    "float regime: running rounding-error bound computed in exact arithmetic by the harness (u = 2^-52)",
    "histories (ALV/Model/C04Hist.lean): modelled, not verified: `Poly(list|dict)` copies its argument, `iter(list)` reads "
    "item `pos` of the list as it is when the item is requested and is exhausted for good once pos >= len(list), a "
    "finished generator stays finished; a caller's in-place mutation is sent to Lean as the resulting contents "
    "(computed on a mirror object that is never handed to the library); flavoured arguments (tuple / deque / copy "
    "made by the caller) are sent as fresh anonymous lists. Inside Lean every step of every history is proved to be "
    "answered as the property says (hist_model_eq_spec); that the REAL code keeps no other state is what the "
    "histories test",
    "history isolation (harness/props/c04_hist.py:_zygote_start): every history runs in a child forked from a zygote with "
    "freshly imported audiolazy, so a failing history fails on pristine library state; a disagreeing single call is run "
    "again in such a child and labelled state-dependent when it agrees there",
    "coefficient kinds (harness/props/c04_cx.py): complex numbers are sent to Lean at their exact binary value as Gaussian "
    "rationals; the driver runs the polymorphic model / spec over the executable field Q(i) (ALV.C12.GRat; Field instance "
    "proved in Lemmas/C12Gauss.lean, the instance executed is covered by gauss_filterCall_eq_specCall); outputs the real code "
    "computed in int / Fraction types are compared exactly, Gaussian-integer data without a division below 2**52 exactly, "
    "everything else within a running rounding-error bound computed in exact arithmetic (1-norms, u = 2^-52); the T3 parser "
    "folds python's printed complex constants ('(1+2j)', '(-0-1j)', '--1j') exactly; modelled, not verified: Poly(number) = "
    "{0: number}, Poly(None) = {}, ZFilter(filt, c) multiplies the numerator by 1/c (1/0 raises at construction); an endless "
    "input is observed through a counting iterator (pulled items = outputs taken: one_output_per_input + prefix_causal)",
    "round 4: how an ITERATOR memory is read is modelled (ALV/Model/C04Mem.lean: `readMem` = the takewhile / enumerate "
    "comprehension over an iterator seen as what it will still deliver; memory_iterator_reads: lm items kept, min(lm+1, len) pulled, "
    "rest = drop (lm+1)) and tied: the caller's iterator is observed right after the call; modelled, not verified: an iterator is "
    "determined by the items it will deliver, containers (list / tuple / deque) are not affected by enumerate(); the spelling of the "
    "gain literal in the generated source (int / float / p/q / complex: python's str.format of the coefficient object) is checked "
    "by the harness against the type of a[0] in the case - the Lean model has field elements, not python types",
    "long cases: the Lean driver does not execute the generated loop statement by statement (O(order^2) per sample) "
    "but answers with specCall, equal to the model by theorem filterCall_eq_specCall; the generated source of every "
    "long case is still compared structurally (T3)",
]
ASSUMPTIONS = [
    "constant (non-Stream) coefficients with integer powers; time-varying coefficients are C06",
    "coefficients, samples, memory items and zero values are numbers of a field: int (any size), bool, Fraction, float, "
    "complex; a tuple given where a list is expected, Decimal and numpy scalars are outside (Poly treats a tuple as ONE "
    "coefficient)",
    "numbers are modelled as elements of a field (exact rationals in the driver); where the impl itself injects "
    "binary floats (Fraction coefficients formatted as 'p/q' into the exec'd source, int/int true division, float "
    "coefficients, a non-integer zero value of the all-zero filter) outputs are compared within a computed "
    "rounding-error bound",
    "a memory shorter than the filter order is outside the property's quantifier; model and spec LEFT-pad it as "
    "coded and a deviation there is reported as a broken correspondence, not as a violated property",
    "'input x' of a lazily consumed call is the sequence of items the input iterator delivers, one per output: an "
    "input LIST changed by the caller while outputs are pending is read through python's list iterator (the memory, "
    "the zero value and the coefficients are fixed at the call / at construction)",
]
MANIFEST = {
    "technique": "Lean 4 refinement proof (generated loop IR = bounded shifting state machine = difference "
                 "equation over unbounded histories = the indexed sentence of the property, any field incl. the "
                 "executable Gaussian rationals Q(i) for complex coefficients, all "
                 "lengths; constructor arguments to outputs end to end; histories of lazily consumed streams over a "
                 "heap of caller objects) + SOURCE TRANSLATOR (harness/props/c04_tr.py: the text of LinearFilter.__call__ is "
                 "translated with ast into lean/ALV/Gen/C04Src.lean on every run - coefficient chains, format strings, null-filter "
                 "test, gain chain, line templates, memory block, guards - and src_compile_is_model / src_memoryOf_is_model / "
                 "src_call_is_model re-prove it equal to the model) + translator tie T3 (captured source vs Lean compile, structural) + exact "
                 "I/O differential (single calls, long orders / inputs, histories in isolated processes)",
    "note": "round 5: LinearFilter.__call__ is regenerated from its source text (Gen/C04Src.lean: numBody, denBody, compile, memoryOf, "
            "call) and proved equal to the hand-written model (src_numLoop_is_model, src_denLoop_is_model, src_compile_is_model, "
            "src_memoryOf_is_model, src_call_is_model; src_call_eq_spec / src_call_refuses restate the property about the regenerated "
            "method); not translated: __init__ (Poly arithmetic), evalIR (python's exec), iterator reads; "
            "76 theorems, no pending statement, every definition the driver runs is in a theorem statement (105/105); round 4: "
            "constructor argument kinds denote the documented polynomial (coefArg_denotes), ZFilter(filt, c) = filt / c (castDiv_is_division), "
            "the gain is applied by division (gain_is_division; over a field = times the inverse, so only T3 + the exact regime pin the "
            "operator: gain_division_value), the trivial generator iff numerator AND feedback are zero (const_loop_iff) and the free "
            "response otherwise (zero_numerator_free_response), iterator memories read lm+1 items (memory_iterator_reads), complex "
            "histories / cascades (gauss_hist_model_eq_spec, gauss_cascade_model_eq_spec); round 3: special cases of the string building proved neutral for every field "
            "element (special_cases_neutral, term_value, unit_test_sound_iff), executable Q(i) instance tied to the real "
            "code with complex coefficients (gcall), call / constructor shapes with defaults (filterCallD_eq_specCallD), "
            "a[0] == 0 branch (callRaw_eq_specCallRaw); D4 (Fraction gain formatted as '(expr) / p/q') fixed in /repo "
            "(2433df9), proposed_fixes/D4-fraction-gain.diff",
}

# ---------------------------------------------------------------------------------------------
# tagged numbers inside cases:  int -> int ; "p/q" -> Fraction ; {"f": x} -> float
# ---------------------------------------------------------------------------------------------
def val(j):
    if isinstance(j, dict):
        if "f" in j:
            return float(j["f"])
        return X.val(j)                      # {"c": [re, im]} complex | {"b": bool}   (entries gcascade / gcompile)
    if isinstance(j, str):
        return Fraction(j)
    return int(j)


def genc(y):
    """a python number (complex included) -> JSON as the driver prints Gaussian rationals"""
    return X.genc(X.g_of(y)) if isinstance(y, complex) else enc(y)


def tag(v):
    if isinstance(v, (bool, complex)):
        return X.tag(v)
    if isinstance(v, float):
        return {"f": v}
    if isinstance(v, Fraction):
        return "%d/%d" % (v.numerator, v.denominator)
    return int(v)


def exact(j):
    """tagged number -> what the driver gets (int or 'p/q', floats at their exact binary value; complex: [re, im])"""
    if isinstance(j, dict) and "f" not in j:
        return X.exact(j)
    return enc(val(j))


def is_float(j):
    return isinstance(j, dict) and "f" in j


def is_nonint_frac(j):
    return isinstance(j, str) and Fraction(j).denominator != 1


LIST_ROUTES = ("list", "linear", "poly", "cast")        # coefficients given as python lists (pairs = enumerate)


def xs_of(c):
    """the input samples of a case (tagged); long inputs are stored as a pattern:
    {"n": N, "kind": "quad", "p": [a, b, r, m]}  x[i] = (a*i*i + b*i + r) % m - m//2
    {"n": N, "kind": "impulse", "at": j, "v": v}  x[j] = v, 0 elsewhere
    "frac": true -> the integers as Fractions"""
    if "xs" in c:
        return c["xs"]
    p = c["xs_pat"]
    if p["kind"] == "impulse":
        v = [0] * p["n"]
        if p["at"] < p["n"]:
            v[p["at"]] = p["v"]
    else:
        a, b, r, m = p["p"]
        v = [(a * i * i + b * i + r) % m - m // 2 for i in range(p["n"])]
    return ["%d/1" % x for x in v] if p.get("frac") else v


def gain_of(c):
    """a[0] after normalisation (tagged), None for an empty denominator"""
    d = {}
    for k, v in c["den"]:
        d[k] = v
    nz = [k for k, v in d.items() if val(v) != 0]
    return d[min(nz)] if nz else None


# ---------------------------------------------------------------------------------------------
# T3: generated source -> canonical IR
# ---------------------------------------------------------------------------------------------
class Unparsed(Exception):
    pass


_VAR = re.compile(r"^([dm])(\d+)$")


def _var(node):
    if isinstance(node, ast.Name):
        m = _VAR.match(node.id)
        if m:
            return [m.group(1), int(m.group(2))]
    raise Unparsed("not a d/m variable: " + ast.dump(node)[:80])


def _fold(node):
    """constant expression -> exact Gaussian rational X.G (literals: int of any size, float, imaginary, bool;
    unary +/-; '/' of constants ('1/3'); '+' / '-' of constants as python prints a complex: '(1+2j)', '(-0-1j)')"""
    if isinstance(node, ast.Constant) and isinstance(node.value, (bool, int, float, complex)):
        g = X.g_of(int(node.value) if isinstance(node.value, bool) else node.value)
        if g is None:
            raise Unparsed("non-finite literal")
        return g
    if isinstance(node, ast.UnaryOp) and isinstance(node.op, (ast.USub, ast.UAdd)):
        v = _fold(node.operand)
        return -v if isinstance(node.op, ast.USub) else v
    if isinstance(node, ast.BinOp) and isinstance(node.op, ast.Div):
        d = _fold(node.right)
        if d.is_zero():
            raise Unparsed("constant division by zero")
        return _fold(node.left) / d
    if isinstance(node, ast.BinOp) and isinstance(node.op, (ast.Add, ast.Sub)):
        l, r = _fold(node.left), _fold(node.right)
        return l + r if isinstance(node.op, ast.Add) else l - r
    raise Unparsed("not a constant: " + ast.dump(node)[:80])


def _is_const(node):
    try:
        _fold(node)
        return True
    except Unparsed:
        return False


def _atom(node):
    if isinstance(node, ast.Name):
        return ["var"] + _var(node)
    if isinstance(node, ast.UnaryOp) and isinstance(node.op, ast.USub) and isinstance(node.operand, ast.Name):
        return ["neg"] + _var(node.operand)
    if isinstance(node, ast.BinOp) and isinstance(node.op, ast.Mult) and isinstance(node.right, ast.Name):
        return ["mul", X.genc(_fold(node.left))] + _var(node.right)
    raise Unparsed("not a summand: " + ast.dump(node)[:100])


def _flat_sum(node):
    if isinstance(node, ast.BinOp) and isinstance(node.op, ast.Add):
        return _flat_sum(node.left) + [node.right]
    return [node]


def _expr(src, node):
    seg = ast.get_source_segment(src, node) or ""
    if isinstance(node, ast.UnaryOp) and isinstance(node.op, ast.USub) and seg.startswith("-(") and seg.endswith(")"):
        gain = ["negone"]
        body = node.operand
    elif isinstance(node, ast.BinOp) and isinstance(node.op, ast.Div):
        chain = []
        body = node
        while isinstance(body, ast.BinOp) and isinstance(body.op, ast.Div) and _is_const(body.right):
            chain.append(X.genc(_fold(body.right)))
            body = body.left
        chain.reverse()
        if not seg.startswith("("):
            raise Unparsed("division without a parenthesised sum: " + seg[:80])
        gain = ["div", chain[0]] if len(chain) == 1 else ["divchain"] + chain
    else:
        gain = ["one"]
        body = node
    return [_atom(t) for t in _flat_sum(body)], gain


def gain_literal(src):
    """how the divisor of `m0 = (sum) / (gain)` is SPELLED in the generated source: "int" | "float" | "frac" (p/q of
    integer literals) | "complex" | "other"; None when the statement is not a division by a constant"""
    try:
        fn = ast.parse(src).body[0]
        loop = [st for st in fn.body if isinstance(st, ast.For)][0]
        node = loop.body[0].value
    except Exception:
        return None
    if not (isinstance(node, ast.BinOp) and isinstance(node.op, ast.Div) and _is_const(node.right)):
        return None

    def strip(n):
        while isinstance(n, ast.UnaryOp) and isinstance(n.op, (ast.USub, ast.UAdd)):
            n = n.operand
        return n

    def kind(n):
        n = strip(n)
        if isinstance(n, ast.Constant):
            v = n.value
            return "bool" if isinstance(v, bool) else "int" if isinstance(v, int) else "float" if isinstance(v, float) \
                else "complex" if isinstance(v, complex) else "other"
        if isinstance(n, ast.BinOp) and isinstance(n.op, ast.Div):
            return "frac" if kind(n.left) == "int" and kind(n.right) == "int" else "other"
        if isinstance(n, ast.BinOp) and isinstance(n.op, (ast.Add, ast.Sub)):
            return "complex" if "complex" in (kind(n.left), kind(n.right)) else "other"
        return "other"
    return kind(node.right)


def gain_spelling(j):
    """how python formats a gain of that type into the source"""
    if isinstance(j, dict):
        return "float"
    if isinstance(j, str):
        return "int" if Fraction(j).denominator == 1 else "frac"
    return "int"


def parse_source(src):
    """source of the generated `gen` -> canonical IR (same JSON shape as the Lean driver prints)"""
    try:
        mod = ast.parse(src)
        if len(mod.body) != 1 or not isinstance(mod.body[0], ast.FunctionDef) or mod.body[0].name != "gen":
            raise Unparsed("expected a single function gen")
        fn = mod.body[0]
        names = [a.arg for a in fn.args.args]
        if names != ["seq", "memory", "zero"]:
            raise Unparsed("arguments %r (time-varying coefficients are C06)" % (names,))
        body = list(fn.body)
        nm = nd = 0
        if body and isinstance(body[0], ast.Assign) and isinstance(body[0].value, ast.Name) and body[0].value.id == "memory":
            tgt = body[0].targets
            if len(tgt) != 1 or not isinstance(tgt[0], ast.Tuple):
                raise Unparsed("memory unpacking")
            vs = [_var(e) for e in tgt[0].elts]
            if vs != [["m", i + 1] for i in range(len(vs))]:
                raise Unparsed("memory unpacked into %r" % (vs,))
            nm = len(vs)
            body.pop(0)
        if body and isinstance(body[0], ast.Assign) and isinstance(body[0].value, ast.Name) and body[0].value.id == "zero":
            vs = [_var(e) for e in body[0].targets]
            if vs != [["d", i + 1] for i in range(len(vs))]:
                raise Unparsed("zero assigned to %r" % (vs,))
            nd = len(vs)
            body.pop(0)
        if len(body) != 1 or not isinstance(body[0], ast.For) or body[0].orelse:
            raise Unparsed("expected exactly one for loop")
        loop = body[0]
        if not (isinstance(loop.iter, ast.Name) and loop.iter.id == "seq" and isinstance(loop.target, ast.Name)):
            raise Unparsed("loop header")
        st = loop.body
        if loop.target.id != "d0":
            if nm or nd or len(st) != 1 or not isinstance(st[0], ast.Expr) or not isinstance(st[0].value, ast.Yield):
                raise Unparsed("constant loop shape")
            return {"kind": "const", "zero": X.genc(_fold(st[0].value.value))}
        if len(st) < 2 or not isinstance(st[0], ast.Assign) or len(st[0].targets) != 1 or _var(st[0].targets[0]) != ["m", 0]:
            raise Unparsed("first statement is not m0 = …")
        if not (isinstance(st[1], ast.Expr) and isinstance(st[1].value, ast.Yield)
                and isinstance(st[1].value.value, ast.Name) and st[1].value.value.id == "m0"):
            raise Unparsed("second statement is not yield m0")
        ssum, gain = _expr(src, st[0].value)
        shifts = []
        for s in st[2:]:
            if not isinstance(s, ast.Assign) or len(s.targets) != 1:
                raise Unparsed("shift statement")
            shifts.append(_var(s.targets[0]) + _var(s.value))
        return {"kind": "loop", "nm": nm, "nd": nd, "sum": ssum, "gain": gain, "shifts": shifts}
    except Unparsed as e:
        return {"kind": "unparsed", "why": str(e)}
    except SyntaxError as e:
        return {"kind": "unparsed", "why": "SyntaxError: %s" % e}


# ---------------------------------------------------------------------------------------------
# the real code
# ---------------------------------------------------------------------------------------------
ENDLESS = X.ENDLESS
ITER_FLAVOURS = ("gen", "iter", "stream", "counting")      # memories that are ITERATORS: reading them is observable


def _mem_obj(m, log=None):
    """the memory object of a case; a callable memory notes every size it is asked for in `log`"""
    if m is None:
        return None
    if log is None:
        log = []
    k = m["kind"]
    if k == "iter":
        vals = [val(v) for v in m["vals"]]
        how = m.get("as", "list")
        if how == "tuple":
            return tuple(vals)
        if how == "gen":
            return (v for v in vals)
        if how == "stream":
            from audiolazy import Stream
            return Stream(vals)
        if how == "deque":
            from collections import deque
            return deque(vals)
        if how == "iter":
            return iter(vals)
        if how == "counting":               # an iterator that counts what is pulled from it
            return X._Counting(iter(vals))
        if how == "substream":              # a Stream subclass with its own __iter__
            from audiolazy import Stream

            class Sub(Stream):
                def __iter__(self):
                    return iter(vals)
            return Sub([None])
        return list(vals)
    if k == "gen":
        base, step = val(m["base"]), val(m["step"])
        if m.get("as") == "counting":
            return X._Counting(base + i * step for i in range(ENDLESS))
        return (base + i * step for i in range(ENDLESS))
    form = m["form"]

    def note(n, r):
        log.append(n)
        return r
    if form == "fixed":
        vals = [val(v) for v in m["vals"]]
        ret = m.get("ret", "list")
        if ret == "same":                  # always the very same list object
            return lambda n: note(n, vals)
        if ret == "tuple":
            return lambda n: note(n, tuple(vals))
        if ret == "gen":
            return lambda n: note(n, (v for v in vals))
        if ret == "bound":                 # a bound method (callable, not iterable)
            class Holder(object):
                def get(self, n):
                    return note(n, list(vals))
            return Holder().get
        return lambda n: note(n, list(vals))
    base, step = val(m["base"]), val(m["step"])
    if form == "arith":
        return lambda n: note(n, [base + i * step for i in range(n)])
    return lambda n: note(n, (base + (n - 1 - i) * step for i in range(n)))     # arithrev, as a generator


def _mem_observe(c, m, obs, log):
    """right after the call, before any output is requested: how far an iterator memory was read (the next two items
    the caller can still get out of it; the number of items pulled when it counts), what a callable was asked"""
    mc = c.get("mem")
    if mc is None:
        return
    if mc["kind"] == "callable":
        obs["asked"] = list(log)
    elif mc.get("as") in ITER_FLAVOURS or (mc["kind"] == "gen" and mc.get("as") in (None, "counting")):
        if isinstance(m, X._Counting):
            obs["mem_pulled"] = m.n
        obs["mem_next"] = [enc(v) for v in itertools.islice(iter(m), 2)]


def _build(c):
    from audiolazy import ZFilter, LinearFilter, z
    num = [(k, val(v)) for k, v in c["num"]]
    den = [(k, val(v)) for k, v in c["den"]]
    route = c.get("route", "dict")
    if route in LIST_ROUTES:
        # pairs are enumerate(list) by construction of the case
        nl, dl = [v for _, v in num], [v for _, v in den]
        if route == "poly":
            from audiolazy import Poly
            return ZFilter(Poly(nl), Poly(dl))
        if route == "cast":
            return ZFilter(LinearFilter(nl, dl))
        cls = ZFilter if route == "list" else LinearFilter
        return cls(nl, dl)
    if route == "odict":
        from collections import OrderedDict
        return ZFilter(OrderedDict(num), OrderedDict(den))
    if route == "zexpr":
        n = sum(v * z ** -k for k, v in num) if num else ZFilter([0])
        d = sum(v * z ** -k for k, v in den)
        return n / d
    return ZFilter(dict(num), dict(den))


def _xs_obj(xs, how):
    if how == "iter":
        return iter(xs)
    if how == "tuple":
        return tuple(xs)
    if how == "gen":
        return (x for x in xs)
    if how == "stream":
        from audiolazy import Stream
        return Stream(xs)
    if how == "deque":
        from collections import deque
        return deque(xs)
    if how == "substream":
        from audiolazy import Stream

        class Sub(Stream):
            def __iter__(self):
                return iter(xs)
        return Sub([None])
    return xs


def impl(c):
    if c["entry"] in ("hist", "ghist"):
        return H.impl(c)
    if c["entry"] == "gcall":
        return X.impl(c)
    if c["entry"] in ("cascade", "gcascade"):
        return impl_cascade(c)
    if c["entry"] == "gcompile":
        return impl_compile(c)
    return impl_call(c)


def impl_cascade(c):
    """f(f(…f(xs, memory=m1)…), memory=mk): ONE filter object, its generators nested (re-entrant use)"""
    import audiolazy.lazy_filters as lf
    captured = []
    orig = lf._exec_eval

    def spy(data, expr):
        captured.append(data)
        return orig(data, expr)

    stage = "init"
    lf._exec_eval = spy
    try:
        filt = _build(c)
        stage = "call"
        xs = [val(x) for x in c["xs"]]
        cur = _xs_obj(xs, c.get("xs_as", "list"))
        mems = []
        for m in c["mems"]:
            kw = {"zero": val(c["zero"])}
            mo = _mem_obj(m)
            if mo is not None:
                kw["memory"] = mo
            mems.append(mo)
            cur = filt(cur, **kw)
        stage = "iter"
        out = list(cur)
        irs = [parse_source(src) for src in captured]
        obs = {"out": [genc(y) for y in out], "n_exec": len(captured), "irs_equal": all(i == irs[0] for i in irs),
               "ir": irs[0] if irs else {"kind": "unparsed", "why": "no source captured"},
               "src": captured[0] if captured else None}
    except Exception as e:
        obs = {"err": err_kind(e), "stage": stage, "msg": str(e)[:80]}
    finally:
        lf._exec_eval = orig
    return obs


def impl_compile(c):
    """T3 alone: the source `__call__` generates for the dense coefficient lists b, a (a[0] != 0, no trailing zero:
    nothing is normalised or compacted on the way), against `compile b a zero` of the driver"""
    import audiolazy.lazy_filters as lf
    from audiolazy import ZFilter
    captured = []
    orig = lf._exec_eval

    def spy(data, expr):
        captured.append(data)
        return orig(data, expr)

    lf._exec_eval = spy
    try:
        filt = ZFilter([val(v) for v in c["b"]], [val(v) for v in c["a"]])
        res = filt([], zero=val(c["zero"]))
        list(res)
        obs = {"n_exec": len(captured), "src": captured[-1] if captured else None,
               "ir": parse_source(captured[-1]) if captured else {"kind": "unparsed", "why": "no source captured"}}
    except Exception as e:
        obs = {"err": err_kind(e), "msg": str(e)[:80]}
    finally:
        lf._exec_eval = orig
    return obs


def impl_call(c):
    """one call on the real code, in this process"""
    import audiolazy.lazy_filters as lf
    captured = []
    orig = lf._exec_eval

    def spy(data, expr):
        captured.append(data)
        return orig(data, expr)

    obs = {}
    stage = "init"
    lf._exec_eval = spy
    try:
        filt = _build(c)
        obs["numdict"] = [[k, enc(v)] for k, v in sorted(filt.numdict.items())]
        obs["dendict"] = [[k, enc(v)] for k, v in sorted(filt.dendict.items())]
        stage = "call"
        kw = {"zero": val(c["zero"])}
        asked = []
        m = _mem_obj(c.get("mem"), asked)
        if m is not None:
            kw["memory"] = m
        xs = [val(x) for x in xs_of(c)]
        pristine = list(xs)
        res = filt(_xs_obj(xs, c.get("xs_as", "list")), **kw)
        memobs = {}
        _mem_observe(c, m, memobs, asked)
        stage = "iter"
        out = list(res)
        obs.update(memobs)
        obs["gain_lit"] = gain_literal(captured[-1]) if captured else None
        obs["out"] = [enc(y) for y in out]
        obs["float_out"] = any(isinstance(y, float) for y in out)
        obs["src"] = captured[-1] if captured else None
        obs["ir"] = parse_source(captured[-1]) if captured else {"kind": "unparsed", "why": "no source captured"}
        obs["n_exec"] = len(captured)
        obs["xs_modified"] = not (len(xs) == len(pristine) and all(a is b for a, b in zip(xs, pristine)))
    except Exception as e:
        obs = {"err": err_kind(e), "stage": stage, "msg": str(e)[:80]}
    finally:
        lf._exec_eval = orig
    return obs


def _mem_req(m):
    if m is None:
        return None
    mm = {"kind": m["kind"]}
    if "vals" in m:
        mm["vals"] = [exact(v) for v in m["vals"]]
    for f in ("base", "step"):
        if f in m:
            mm[f] = exact(m[f])
    if "form" in m:
        mm["form"] = m["form"]
    return mm


def request(c):
    if c["entry"] in ("hist", "ghist"):
        return H.request(c)
    if c["entry"] == "gcall":
        return X.request(c)
    if c["entry"] == "gcompile":
        return {"entry": "gcompile", "b": [exact(v) for v in c["b"]], "a": [exact(v) for v in c["a"]], "zero": exact(c["zero"])}
    if c["entry"] in ("cascade", "gcascade"):
        return {"entry": c["entry"], "num": [[k, exact(v)] for k, v in c["num"]], "den": [[k, exact(v)] for k, v in c["den"]],
                "zero": exact(c["zero"]), "xs": [exact(x) for x in c["xs"]], "mems": [_mem_req(m) for m in c["mems"]]}
    r = {"entry": "call",
         "num": [[k, exact(v)] for k, v in c["num"]],
         "den": [[k, exact(v)] for k, v in c["den"]],
         "zero": exact(c["zero"]),
         "xs": [exact(x) for x in xs_of(c)]}
    if c.get("fast"):
        r["fast"] = True
    m = c.get("mem")
    if m is None:
        r["mem"] = None
    else:
        mm = {"kind": m["kind"]}
        for f in ("vals",):
            if f in m:
                mm[f] = [exact(v) for v in m[f]]
        for f in ("base", "step"):
            if f in m:
                mm[f] = exact(m[f])
        if "form" in m:
            mm["form"] = m["form"]
        r["mem"] = mm
    return r


# ---------------------------------------------------------------------------------------------
# comparison
# ---------------------------------------------------------------------------------------------
U = Fraction(1, 2 ** 52)


def float_expected(c):
    """does the impl itself inject binary floats on this case?"""
    nums = [v for _, v in c["num"]] + [v for _, v in c["den"]]
    others = [c["zero"]] + list(xs_of(c))
    m = c.get("mem")
    if m is not None:
        others += list(m.get("vals", [])) + [m[f] for f in ("base", "step") if f in m]
    if any(is_float(v) for v in nums + others):
        return True
    if any(is_nonint_frac(v) for v in nums):           # 'p/q' formatted into the source = float literal division
        return True
    if is_nonint_frac(c["zero"]):                       # `yield {zero}` of the all-zero filter
        return True
    if any(not isinstance(v, str) for v in others):     # an int sample: int/int true division by the gain ...
        g = gain_of(c)
        if g is None or val(g) not in (1, -1):          # ... unless the gain is 1 / -1 (no division is generated)
            return True
    return False


def err_bounds(b, a, mem, zero, xs, ys):
    """running bound of the rounding error of a double-precision evaluation (exact arithmetic):
    E_n = (sum |a_k| E_{n-k} + u*(terms+4)*(sum |b_k x| + sum |a_k y| + |a0 y_n|)) / |a0| ; returned as 8*E_n"""
    a0 = a[0] if a else Fraction(1)
    as_ = a[1:]
    terms = len(b) + len(a) + 4
    E = []
    for n in range(len(ys)):
        mag = abs(a0 * ys[n])
        prop = Fraction(0)
        for k, bk in enumerate(b):
            x = xs[n - k] if n - k >= 0 else zero
            mag += abs(bk * x)
        for k, ak in enumerate(as_, 1):
            if n - k >= 0:
                y, e = ys[n - k], E[n - k]
            else:
                y, e = (mem[k - n - 1] if k - n - 1 < len(mem) else zero), Fraction(0)
            mag += abs(ak * y)
            prop += abs(ak) * e
        E.append((prop + U * terms * mag) / abs(a0) + U * abs(ys[n]))
    return [8 * e + Fraction(1, 10 ** 300) for e in E]


def _outs_equal(c, got, want, drv_model):
    """got/want: lists of Fractions (want exact).  Returns None when equal, else a description."""
    if len(got) != len(want):
        return "length %d instead of %d" % (len(got), len(want))
    if float_expected(c) and isinstance(drv_model, dict) and "a" in drv_model:
        b = [dec(v) for v in drv_model["b"]]
        a = [dec(v) for v in drv_model["a"]]
        mem = [dec(v) for v in drv_model["mem"]]
        tol = err_bounds(b, a, mem, dec(exact(c["zero"])), [dec(exact(x)) for x in xs_of(c)], want)
    else:
        tol = [0] * len(want)
    for i, (g, w, t) in enumerate(zip(got, want, tol)):
        if isinstance(g, float) or isinstance(w, float):      # nan / inf never expected
            return "non-finite output at %d" % i
        if abs(g - w) > t:
            return "y[%d] = %s instead of %s" % (i, g, w)
    return None


_ISO_BUDGET = [400]     # isolation re-runs of disagreeing call cases per process


def _abbr(ir):
    """IR for messages: long shift / summand lists are cut"""
    if not isinstance(ir, dict):
        return ir
    d = dict(ir)
    for f in ("shifts", "sum"):
        if isinstance(d.get(f), list) and len(d[f]) > 8:
            d[f] = d[f][:4] + ["… %d more …" % (len(d[f]) - 6)] + d[f][-2:]
    return d


def _compare_cascade(c, io, drv):
    out = []
    model, spec = drv["model"], drv["spec"]
    if "err" in io:
        if model.get("err") != io["err"]:
            out.append(("model", "cascade raised %s (%s: %s), model says %s" % (io["err"], io.get("stage"), io.get("msg"), model.get("err", "no error"))))
        if spec.get("err") != io["err"]:
            out.append(("spec", "cascade raised %s (%s: %s), the property says %s" % (io["err"], io.get("stage"), io.get("msg"), spec.get("err", "no error"))))
        return out
    if "err" in model:
        out.append(("model", "model raises %s, impl ran" % model["err"]))
    if "err" in spec:
        out.append(("spec", "the property demands %s, impl ran and gave %r" % (spec["err"], io["out"][:6])))
    if out:
        return out
    k = len(c["mems"])
    if k and (io["n_exec"] != k or not io["irs_equal"] or io["ir"] != model["ir"]):
        out.append(("model", "%d stage(s) generated %d source(s) (all equal: %s); impl IR %r, model IR %r" % (
            k, io["n_exec"], io["irs_equal"], _abbr(io["ir"]), _abbr(model["ir"]))))
    D = X.gdec if c["entry"] == "gcascade" else dec
    got = [D(v) for v in io["out"]]
    for kind, ref, what in (("model", model, "output differs from model"),
                            ("spec", spec, "the filter applied %d times to its own output violates the difference equation" % k)):
        want = [D(v) for v in ref["out"]]
        if len(got) != len(want):
            out.append((kind, "%s: length %d instead of %d" % (what, len(got), len(want))))
        else:
            bad = [i for i, (g, w) in enumerate(zip(got, want)) if g is None or isinstance(g, float) or g != w]
            if bad:
                out.append((kind, "%s: y[%d] = %s instead of %s" % (what, bad[0], got[bad[0]], want[bad[0]])))
    return out


def compare(c, io, drv):
    if c["entry"] in ("hist", "ghist"):
        return H.compare(c, io, drv)
    if c["entry"] == "gcall":
        return X.compare(c, io, drv)
    if c["entry"] in ("cascade", "gcascade"):
        return _compare_cascade(c, io, drv)
    if c["entry"] == "gcompile":
        if "err" in io:
            return [("model", "compile case raised %s (%s)" % (io["err"], io.get("msg")))]
        if io.get("n_exec") != 1 or io["ir"] != drv["ir"]:
            return [("model", "generated source differs from compile (dense lists b=%r a=%r zero=%r): impl IR %r, model IR %r; source:\n%s" % (
                c["b"], c["a"], c["zero"], _abbr(io["ir"]), _abbr(drv["ir"]), io.get("src")))]
        return []
    out = _compare_call(c, io, drv)
    if any(k == "spec" for k, _ in out) and not io.get("isolated") and _ISO_BUDGET[0] > 0:
        _ISO_BUDGET[0] -= 1
        # does the call fail on its own?  run it again as the only call of a process with freshly imported
        # audiolazy: a disagreement that is gone there was produced by state that EARLIER cases of this run left
        # in the library (caches, module globals) — still a violation (a call must not depend on earlier calls),
        # but this case alone is not a witness of it; the histories are the self-contained witnesses
        io2 = H.isolated(c)
        if io2 is not None and "err" not in io2.get("_infra", {}):
            out2 = _compare_call(c, io2, drv)
            if not out2:
                io["state_dependent"] = True
                return [(k, "only after the earlier cases of this run (alone, in a fresh process, the call agrees): " + d)
                        for k, d in out]
            io["state_dependent"] = False
    return out


def _compare_call(c, io, drv):
    out = []
    model, spec = drv["model"], drv["spec"]
    if c.get("fast") and "out" not in model and "out" in spec:
        # long case: the generated loop is not executed statement by statement in Lean; model = spec
        # by theorem filterCall_eq_specCall
        model = dict(model, out=spec["out"])
    # --- errors -------------------------------------------------------------------------
    if "err" in io:
        if model.get("err") != io["err"]:
            out.append(("model", "impl raised %s (%s: %s), model says %s" % (
                io["err"], io.get("stage"), io.get("msg"), model.get("err", "no error"))))
        if spec.get("err") != io["err"]:
            out.append(("spec", "impl raised %s (%s: %s), the property says %s" % (
                io["err"], io.get("stage"), io.get("msg"), spec.get("err", "no error"))))
        return out
    if "err" in model:
        out.append(("model", "model raises %s, impl ran" % model["err"]))
    if "err" in spec:
        out.append(("spec", "the property demands %s (negative delay / empty denominator), impl ran and gave %r" % (
            spec["err"], io["out"][:6])))
    if out:
        return out
    # --- normalised coefficients (LinearFilter.__init__) ------------------------------------
    for name, dense in (("numdict", model["b"]), ("dendict", model["a"])):
        want = [[k, v] for k, v in enumerate(dense) if dec(v) != 0]
        got = [[k, v] for k, v in io[name]]
        if [(k, dec(v)) for k, v in got] != [(k, dec(v)) for k, v in want]:
            out.append(("model", "%s after __init__ is %r, model %r" % (name, got, want)))
    # --- T3: structure of the generated source ------------------------------------------------
    if io["ir"] != model["ir"]:
        src = io.get("src") or ""
        out.append(("model", "generated source differs from compile: impl IR %r, model IR %r; source:\n%s" % (
            _abbr(io["ir"]), _abbr(model["ir"]), src if len(src) < 600 else src[:300] + "\n…\n" + src[-200:])))
    # --- the gain literal: the divisor is the gain ITSELF, spelled in its own type (an int gain divides exact samples
    # exactly; `float(gain)` or a reciprocal would not) -----------------------------------------------------------------
    mir = model["ir"]
    if mir.get("kind") == "loop" and mir["gain"][0] == "div" and io["ir"] == mir and _unshifted(c):
        want = gain_spelling(gain_of(c))
        if io.get("gain_lit") != want:
            out.append(("model", "the gain %r is written into the source as a %s literal, not as the %s it is; source:\n%s" % (
                gain_of(c), io.get("gain_lit"), want, (io.get("src") or "")[:400])))
    # --- how the memory was read (at the call) ----------------------------------------------------------------
    mr = model.get("memread")
    if "mem_next" in io and mr is not None:
        if [dec(v) for v in io["mem_next"]] != [dec(v) for v in mr["next"]]:
            out.append(("model", "iterator memory: after the call the caller's iterator delivers %r next, model (takewhile pulls "
                                 "%d item(s)) says %r" % (io["mem_next"], mr["pulled"], mr["next"])))
        if "mem_pulled" in io and io["mem_pulled"] != mr["pulled"]:
            out.append(("model", "iterator memory: %d item(s) pulled at the call, model says %d" % (io["mem_pulled"], mr["pulled"])))
    if "asked" in io and io["asked"] != model.get("asked"):
        out.append(("spec", "the callable memory was asked %r, the property says once for the needed size: %r" % (
            io["asked"], model.get("asked"))))
    # --- I/O --------------------------------------------------------------------------------
    got = [dec(v) for v in io["out"]]
    d = _outs_equal(c, got, [dec(v) for v in model["out"]], model)
    if d:
        out.append(("model", "output differs from model: " + d))
    if "free" in model and not _short_memory(c, model):
        d = _outs_equal(c, got, [dec(v) for v in model["free"]], model)
        if d:
            out.append(("spec", "zero numerator with feedback: the output is not the free response of the memory: " + d))
    if _short_memory(c, model):
        # outside the property's quantifier ("memories of sufficient length"): the LEFT padding is
        # checked against the model only (as coded), never reported as a violated property
        return out
    d = _outs_equal(c, got, [dec(v) for v in spec["out"]], model)
    if d:
        out.append(("spec", "output violates the difference equation: " + d))
    if io.get("xs_modified"):
        out.append(("spec", "the caller's input list was modified by the call"))
    return out


def _unshifted(c):
    """were the coefficients stored as given (no z-arithmetic, no normalisation shift in __init__)?"""
    if c.get("route", "dict") not in ("list", "linear", "poly", "cast", "dict", "odict"):
        return False
    nz = [k for k, v in c["den"] if val(v) != 0]
    return bool(nz) and min(nz) == 0


def _short_memory(c, model):
    m = c.get("mem")
    if m is None or "vals" not in m:
        return False
    return len(m["vals"]) < len(model.get("a", [0])) - 1


def nontrivial(c, io):
    if c["entry"] in ("hist", "ghist"):
        return H.nontrivial(c, io)
    if c["entry"] == "gcall":
        return X.nontrivial(c, io)
    if c["entry"] in ("cascade", "gcascade"):
        return "err" in io or (bool(io.get("out")) and len(c["mems"]) >= 2)
    if c["entry"] == "gcompile":
        return io.get("ir", {}).get("kind") in ("loop", "const")
    return "err" in io or bool(io.get("out"))


# ---------------------------------------------------------------------------------------------
# classification (known findings)
# ---------------------------------------------------------------------------------------------
def _d4_prediction(c, model):
    """what the outputs are if '(expr) / p/q' is evaluated as ((expr)/p)/q (defect D4)"""
    b = [dec(v) for v in model["b"]]
    a = [dec(v) for v in model["a"]]
    mem = [dec(v) for v in model["mem"]]
    zero = dec(exact(c["zero"]))
    xs = [dec(exact(x)) for x in xs_of(c)]
    g = a[0]
    wrong = Fraction(g.numerator) * Fraction(g.denominator)
    ys = []
    for n, x in enumerate(xs):
        s = Fraction(0)
        for k, bk in enumerate(b):
            s += bk * (xs[n - k] if n - k >= 0 else zero)
        for k, ak in enumerate(a[1:], 1):
            s -= ak * (ys[n - k] if n - k >= 0 else mem[k - n - 1])
        ys.append(s / wrong)
    return ys


def classify(c, io, drv):
    if c["entry"] in ("hist", "ghist"):
        return H.classify(c, io, drv)
    if c["entry"] == "gcall":
        return X.classify(c, io, drv)
    if c["entry"] == "gcompile":
        return "gcompile:" + ("raises-%s" % io["err"] if "err" in io else "ir-differs")
    if c["entry"] in ("cascade", "gcascade"):
        ps = _compare_cascade(c, io, drv)
        if "err" in io:
            return "cascade:raises-%s-at-%s" % (io["err"], io.get("stage"))
        if any(k == "spec" for k, _ in ps):
            return "cascade:" + ("output-length" if any("length" in d for k, d in ps if k == "spec") else "output-values")
        return "cascade:correspondence"
    if io.get("state_dependent"):
        return "call:state-left-by-earlier-cases-of-the-run"
    model, spec = drv.get("model", {}), drv.get("spec", {})
    if c.get("fast") and "out" not in model and "out" in spec:
        model = dict(model, out=spec["out"])
    if "err" in io:
        return "call:raises-%s-at-%s:expected-%s" % (io["err"], io.get("stage"), spec.get("err", "output"))
    if "err" in spec:
        return "call:runs:expected-%s" % spec["err"]
    if "a" in model and model["a"]:
        g = dec(model["a"][0])
        ir, mir = io.get("ir", {}), model.get("ir", {})
        if (g.denominator != 1 and ir.get("kind") == "loop" and mir.get("kind") == "loop"
                and ir.get("gain") == ["divchain", enc(Fraction(g.numerator)), enc(Fraction(g.denominator))]
                and all(ir.get(f) == mir.get(f) for f in ("nm", "nd", "sum", "shifts"))):
            got = [dec(v) for v in io["out"]]
            pred = _d4_prediction(c, model)
            if len(got) == len(pred) and all(
                    (not isinstance(x, float)) and abs(x - p) <= Fraction(1, 10 ** 6) * (1 + abs(p))
                    for x, p in zip(got, pred)):
                return "call:gain-is-non-integer-Fraction:(expr)/p/q-parsed-as-((expr)/p)/q"
            return "call:gain-is-non-integer-Fraction+other-difference"
    parts = []
    if io.get("ir") != model.get("ir"):
        ir, mir = io.get("ir", {}), model.get("ir", {})
        if ir.get("kind") != mir.get("kind"):
            parts.append("ir-kind-%s-vs-%s" % (ir.get("kind"), mir.get("kind")))
        else:
            parts.append("ir-" + "+".join(f for f in ("nm", "nd", "sum", "gain", "shifts", "zero") if ir.get(f) != mir.get(f)))
    if "out" in io and "out" in spec and _short_memory(c, model):
        parts.append("short-memory-padding")
    elif "out" in io and "out" in spec:
        if len(io["out"]) != len(spec["out"]):
            parts.append("output-length")
        elif _outs_equal(c, [dec(v) for v in io["out"]], [dec(v) for v in spec["out"]], model):
            parts.append("output-values")
    if io.get("xs_modified"):
        parts.append("input-list-modified")
    return "call:" + ("+".join(parts) or "coefficients-after-init")


# ---------------------------------------------------------------------------------------------
# generation
# ---------------------------------------------------------------------------------------------
INT_POOL = [0, 0, 0, 1, 1, -1, -1, 2, -2, 3, -3, 5]
FRAC_POOL = ["0/1", "1/1", "-1/1", "1/2", "-1/2", "1/3", "-2/3", "3/2", "-5/2", "7/4", "2/1", "-3/1", 0, 1, -1, 2]
FLOAT_POOL = [0.0, 1.0, -1.0, 0.5, -0.5, 0.25, -0.75, 1.5, -2.0, 2.0, 3.0]


def _coef(rng, ctype):
    if ctype == "int":
        return rng.choice(INT_POOL)
    if ctype == "frac":
        return rng.choice(FRAC_POOL)
    if ctype == "float":
        return {"f": rng.choice(FLOAT_POOL)}
    return _coef(rng, rng.choice(["int", "frac", "float"]))        # mixed


def _nonzero(rng, ctype):
    for _ in range(50):
        v = _coef(rng, ctype)
        if val(v) != 0:
            return v
    return 1


def _sample(rng, xkind):
    if xkind == "frac":
        return tag(Fraction(rng.randint(-9, 9), rng.choice([1, 1, 2, 3, 4])))
    if xkind == "int":
        return rng.randint(-9, 9)
    return {"f": rng.randint(-16, 16) / 4.0}


def _coeff_vector(rng, ctype, n, sparse):
    if sparse:
        v = [0] * n
        for _ in range(rng.randint(1, 2)):
            if n:
                v[rng.randrange(n)] = _nonzero(rng, ctype)
        if n:
            v[n - 1] = _nonzero(rng, ctype)
        return v
    return [_coef(rng, ctype) for _ in range(n)]


def _lm_of(den):
    nz = [k for k, v in den if val(v) != 0]
    return (max(nz) - min(nz)) if nz else 0


def _memory(rng, lm, xkind):
    r = rng.random()
    if r < 0.3:
        return None
    if r < 0.75:
        n = rng.choice([lm, lm, lm, lm + 2, max(0, lm - 1), 0, lm + 1])
        return {"kind": "iter", "vals": [_sample(rng, xkind) for _ in range(n)],
                "as": rng.choice(["list", "list", "list", "tuple", "gen", "stream", "deque", "iter", "substream"])}
    if r < 0.85:
        return {"kind": "gen", "base": _sample(rng, xkind), "step": _sample(rng, xkind)}
    form = rng.choice(["arith", "arithrev", "fixed"])
    if form == "fixed":
        n = rng.choice([lm, lm + 1, max(0, lm - 1)])
        return {"kind": "callable", "form": "fixed", "vals": [_sample(rng, xkind) for _ in range(n)],
                "ret": rng.choice(["list", "same", "tuple", "gen", "bound"])}
    return {"kind": "callable", "form": form, "base": _sample(rng, xkind), "step": _sample(rng, xkind)}


def _zero(rng, xkind):
    r = rng.random()
    if xkind == "frac":
        return rng.choice(["0/1", "0/1", "0/1", "7/1", "1/3", "-5/2", "1/2"]) if r < 0.8 else rng.choice([0, 7])
    if xkind == "int":
        return rng.choice([0, 0, 7, -1])
    return rng.choice([{"f": 0.0}, {"f": 0.0}, {"f": 0.5}, 0, "0/1"])


def _shape(rng, max_order):
    """one random filter shape: (route, num pairs, den pairs)"""
    ctype = rng.choice(["int", "int", "int", "frac", "float", "mixed"])
    route = rng.choice(["list", "list", "list", "dict", "dict", "zexpr", "zexpr", "linear", "linear", "poly", "cast", "odict"])
    lb = rng.choice([0, 1, 1, 2, 3, rng.randint(0, max_order + 1)])
    la = rng.choice([1, 1, 2, 3, rng.randint(1, max_order + 1)])
    sparse = rng.random() < 0.25
    b = _coeff_vector(rng, ctype, lb, sparse)
    a = _coeff_vector(rng, ctype, la, sparse)
    # a0 in {1, -1, other}; sometimes leading zeros (denominator starting at a later delay)
    lead = rng.choice([0, 0, 0, 0, 1, 2])
    kind = rng.choice(["one", "negone", "other", "asis"])
    if a:
        if kind == "one":
            a[0] = {"int": 1, "frac": "1/1", "float": {"f": 1.0}}.get(ctype, 1)
        elif kind == "negone":
            a[0] = {"int": -1, "frac": "-1/1", "float": {"f": -1.0}}.get(ctype, -1)
        elif kind == "other":
            a[0] = _nonzero(rng, ctype)
    a = [0] * lead + a
    if lead and rng.random() < 0.7:
        b = [0] * lead + b           # keeps the filter causal after normalisation
    num = [[k, v] for k, v in enumerate(b)]
    den = [[k, v] for k, v in enumerate(a)]
    if route in ("dict", "zexpr", "odict"):
        num = [[k, v] for k, v in num if val(v) != 0 or rng.random() < 0.3]
        den = [[k, v] for k, v in den if val(v) != 0 or rng.random() < 0.3]
        off = rng.choice([0, 0, 0, 1, -1, 3, -2])            # common shift: same transfer function
        noff = off + rng.choice([0, 0, 0, 0, 0, -1, 1])      # -1: a negative delay appears (ValueError)
        num = [[k + noff, v] for k, v in num]
        den = [[k + off, v] for k, v in den]
        rng.shuffle(num)
        rng.shuffle(den)
        if route == "zexpr" and not den:
            den = [[0, 1]]
    return route, num, den


def _case(rng, route, num, den, max_len, xkind=None):
    xkind = xkind or rng.choice(["frac", "frac", "frac", "frac", "int", "float"])
    n = rng.choice([0, 1, 2, 3, 5, rng.randint(0, max_len)])
    lm = _lm_of(den)
    return {"entry": "call", "route": route, "num": num, "den": den,
            "mem": _memory(rng, lm, xkind), "zero": _zero(rng, xkind),
            "xs": [_sample(rng, xkind) for _ in range(n)],
            "xs_as": rng.choice(["list", "list", "iter", "tuple", "gen", "stream", "deque", "substream"])}


# ---- long runs / large orders (DESIGN section 14: behaviour that only differs at large sizes) -------------
LONG_DELAYS = [31, 32, 33, 63, 64, 65, 127, 128, 129, 255, 256, 257]


def _pat(rng, n, frac=False):
    if rng.random() < 0.3:
        return {"n": n, "kind": "impulse", "at": rng.choice([0, 0, 1, 2]), "v": rng.choice([1, 1, 3, -2]), "frac": frac}
    return {"n": n, "kind": "quad", "p": [rng.randint(1, 9), rng.randint(0, 30), rng.randint(0, 30), rng.choice([7, 11, 13, 17])],
            "frac": frac}


def _long_case(rng, shape, D, n=None):
    """an exact (integer) case of large order D or long input: int coefficients, gain +-1 (no division is
    generated) or Fraction samples; compared exactly"""
    frac = rng.random() < 0.25
    g = rng.choice([1, 1, -1]) if not frac else rng.choice([1, -1, 2, -2])
    sm = (lambda: "%d/1" % rng.randint(-5, 5)) if frac else (lambda: rng.randint(-5, 5))
    mem = None
    if shape == "fir-sparse":            # feed-forward comb: x[n] + c*x[n-D] (+ a tap in between)
        num = [[0, rng.choice([1, 1, -1, 2])], [D, rng.choice([1, -1, 2, 3, -2])]]
        if rng.random() < 0.4:
            num.insert(1, [rng.randint(1, D - 1), rng.choice([1, -1, 2])])
        den = [[0, g]]
        route = rng.choice(["dict", "dict", "zexpr", "odict"])
    elif shape == "iir-sparse":          # feedback comb: y[n] = x[n] -+ y[n-D]
        num = [[0, rng.choice([1, 2, -1])]] + ([[rng.randint(1, D), rng.choice([1, -1, 3])]] if rng.random() < 0.5 else [])
        den = [[0, g], [D, rng.choice([1, -1])]]
        if rng.random() < 0.3:
            den.insert(1, [rng.randint(1, D - 1), rng.choice([1, -1])])
        route = rng.choice(["dict", "dict", "zexpr", "odict"])
        if rng.random() < 0.6:
            mem = {"kind": "iter", "vals": [sm() for _ in range(D + rng.choice([0, 0, 1]))],
                   "as": rng.choice(["list", "list", "tuple", "gen"])}
    elif shape == "fir-dense":           # D+1 small integer coefficients
        num = [[k, rng.choice([1, -1, 2, 0, 3, -2])] for k in range(D + 1)]
        num[D][1] = rng.choice([1, -1, 2, 3])
        den = [[0, g]]
        route = rng.choice(["list", "list", "linear", "poly"])
    elif shape == "both":                # feed-forward and feedback parts of (different) large orders
        D2 = rng.choice([D, D - 1, D + 1, max(1, D // 2)])
        num = [[0, 1], [D, rng.choice([1, -1, 2])]]
        den = [[0, g], [D2, rng.choice([1, -1])]]
        route = rng.choice(["dict", "zexpr"])
        if rng.random() < 0.5:
            mem = {"kind": "iter", "vals": [sm() for _ in range(D2)], "as": "list"}
    else:                                # "long-input": small filters, thousands of samples
        k = rng.choice(["acc", "osc", "fir", "comb"])
        if k == "acc":
            num, den = [[0, 1]], [[0, g], [1, -g]]
        elif k == "osc":
            num, den = [[0, 1], [1, rng.choice([1, 2])]], [[0, g], [1, -g], [2, g]]
        elif k == "fir":
            num, den = [[j, rng.choice([1, -2, 3, 5])] for j in range(rng.randint(2, 5))], [[0, g]]
        else:
            num, den = [[0, 1], [D, 2]], [[0, g], [D, rng.choice([1, -1])]]
        route = rng.choice(["list", "dict", "zexpr"]) if k != "comb" else "dict"
        if route == "list":
            dn, dd = dict(map(tuple, num)), dict(map(tuple, den))
            num = [[j, dn.get(j, 0)] for j in range(max(dn) + 1)]
            den = [[j, dd.get(j, 0)] for j in range(max(dd) + 1)]
        if rng.random() < 0.4:
            mem = {"kind": "iter", "vals": [sm() for _ in range(_lm_of(den))], "as": "list"}
    if n is None:
        n = rng.choice([D + 3, 2 * D + 5, 3 * D + 7])
    return {"entry": "call", "route": route, "num": num, "den": den, "mem": mem,
            "zero": rng.choice([0, 0, 0, 7, -1]) if not frac else rng.choice(["0/1", "0/1", "7/1"]),
            "xs_pat": _pat(rng, n, frac), "xs_as": rng.choice(["list", "list", "iter", "tuple", "stream"]),
            "fast": True, "long": shape}


def _gen_cascade(rng, tier, scale):
    """re-entrant use: one filter object applied 2-4 times to its own lazy output (exact regime only: integer
    coefficients, Fraction data, integer-valued zero)"""
    out = []
    for _ in range((120 if tier == "quick" else 700) * scale):
        route = rng.choice(["list", "list", "dict", "zexpr", "linear", "poly"])
        lb, la = rng.choice([1, 2, 2, 3]), rng.choice([1, 2, 2, 3])
        b = [rng.choice([0, 1, -1, 2, 3, -2]) for _ in range(lb)]
        a = [rng.choice([1, -1, 2, 3])] + [rng.choice([0, 1, -1, 2, -3]) for _ in range(la - 1)]
        num, den = [[k, v] for k, v in enumerate(b)], [[k, v] for k, v in enumerate(a)]
        if route in ("dict", "zexpr"):
            num = [[k, v] for k, v in num if v != 0]
            den = [[k, v] for k, v in den if v != 0]
            if rng.random() < 0.08:
                num.append([-1, 2])                       # non-causal: refuses at the first stage
        lm = _lm_of(den)
        mems = []
        for _ in range(rng.choice([2, 2, 3, 4])):
            r = rng.random()
            mems.append(None if r < 0.35 else
                        {"kind": "iter", "vals": [_sample(rng, "frac") for _ in range(lm + rng.choice([0, 0, 1]))],
                         "as": rng.choice(["list", "tuple", "gen", "stream", "deque"])} if r < 0.85 else
                        {"kind": "callable", "form": "arith", "base": _sample(rng, "frac"), "step": _sample(rng, "frac")})
        out.append({"entry": "cascade", "route": route, "num": num, "den": den, "mems": mems,
                    "zero": rng.choice(["0/1", "0/1", "7/1", "-2/1"]),
                    "xs": [_sample(rng, "frac") for _ in range(rng.choice([0, 1, 3, 5, 8]))],
                    "xs_as": rng.choice(["list", "iter", "tuple", "gen", "stream"])})
    return out


def _gen_long(rng, tier, scale):
    quick = tier == "quick"
    out = []
    reps = (2 if quick else 4) * scale
    for _ in range(reps):
        for D in LONG_DELAYS:
            for shape in ("fir-sparse", "iir-sparse", "fir-dense", "both"):
                if quick and shape == "fir-dense" and D > 130 and rng.random() < 0.5:
                    continue
                out.append(_long_case(rng, shape, D))
        for n in ([1000, 1024, 1025, 2048, 4096, 4097, 5000] if quick else [1000, 1023, 1024, 1025, 2047, 2048, 2049, 4095, 4096, 4097, 8192, 8193, 10000]):
            out.append(_long_case(rng, "long-input", rng.choice([1, 2, 3, 64, 100]), n=n))
        for D in ([511, 512, 513] if not quick else [rng.choice([511, 512, 513])]):
            out.append(_long_case(rng, "fir-sparse", D))
            out.append(_long_case(rng, "iir-sparse", D))
    return out



# ---- round 4 families: the free response, the gain operator, how memories are read ---------------------------
ZERO_SPELLINGS = {"int": 0, "frac": "0/1", "float": {"f": 0.0}}


def _gen_gcascade(rng, tier, scale):
    """re-entrant use with COMPLEX coefficients (entry gcascade): one filter object applied 2-4 times to its own lazy
    output; Gaussian-integer coefficients and data, gain 1 / -1 in every spelling (no division: complex doubles exact)"""
    gi = X._c
    pool = [0, 1, -1, gi(0, 1), gi(0, -1), gi(1, 1), 2, gi(0, 2), gi(1, 0), gi(-1, 0), gi(2, -1), {"b": True}, -2]
    smp = lambda: gi(rng.randint(-3, 3), rng.randint(-3, 3)) if rng.random() < 0.75 else rng.randint(-5, 5)
    out = []
    for _ in range((120 if tier == "quick" else 700) * scale):
        route = rng.choice(["list", "list", "dict", "linear", "poly", "cast"])
        lb, la = rng.choice([1, 2, 2, 3]), rng.choice([1, 2, 2, 3])
        b = [rng.choice(pool) for _ in range(lb)]
        a = [rng.choice([1, -1, gi(1, 0), gi(-1, 0), {"b": True}, {"f": 1.0}, "-1/1"])] + [rng.choice(pool) for _ in range(la - 1)]
        num, den = [[k, v] for k, v in enumerate(b)], [[k, v] for k, v in enumerate(a)]
        if route == "dict":
            num = [[k, v] for k, v in num if val(v) != 0]
            den = [[k, v] for k, v in den if val(v) != 0]
        lm = _lm_of(den)
        mems = []
        for _ in range(rng.choice([2, 2, 3, 4])):
            r = rng.random()
            mems.append(None if r < 0.35 else
                        {"kind": "iter", "vals": [smp() for _ in range(lm + rng.choice([0, 0, 1]))],
                         "as": rng.choice(["list", "tuple", "gen", "stream", "deque"])} if r < 0.85 else
                        {"kind": "callable", "form": "arith", "base": smp(), "step": smp()})
        out.append({"entry": "gcascade", "route": route, "num": num, "den": den, "mems": mems,
                    "zero": rng.choice([0, 0, gi(0, 0), 7, gi(2, -1)]),
                    "xs": [smp() for _ in range(rng.choice([0, 1, 3, 5, 8]))],
                    "xs_as": rng.choice(["list", "iter", "tuple", "gen", "stream"])})
    return out


def _gen_gcompile(rng, tier, scale):
    """T3 on dense lists (entry gcompile): every spelling of the special values in every position of the numerator,
    the feedback part and the gain, + random vectors over all pools, + the all-zero filter with every zero spelling"""
    gi = X._c
    nz = lambda v: not X.g_of(X.val(v)).is_zero()
    out = []
    zeros = [0, {"f": 0.0}, "0/1", gi(0, 0), {"b": False}, 7, gi(0, 1), gi(2, -1), "1/2", {"f": 0.5}, {"b": True}, -3, X.HUGE]
    if scale == 1:
        for sv in X.SPECIALS:
            for side, k in (("b", 0), ("b", 1), ("b", 2), ("a", 1), ("a", 2), ("a", 0)):
                b = [2, 3, gi(1, 1), 5]
                a = [rng.choice([1, -1, 2, gi(0, 1), 1]), 3, gi(0, 2), -7]
                if side == "a" and k == 0 and not nz(sv):
                    continue
                (b if side == "b" else a)[k] = sv
                out.append({"entry": "gcompile", "b": b, "a": a, "zero": rng.choice(zeros)})
        for z in zeros:                       # the all-zero filter: `yield {zero}`
            out.append({"entry": "gcompile", "b": rng.choice([[], [0], [gi(0, 0), {"f": 0.0}]]),
                        "a": [rng.choice([1, 2, gi(0, 1), -1])] + rng.choice([[], [0], [0, {"f": 0.0}]]), "zero": z})
    for _ in range((150 if tier == "quick" else 900) * scale):
        pool = X.POOLS[rng.choice(["all", "all", "gaussint", "unit", "intbool", "huge", "dyadic", "frac"])]
        b = [rng.choice(pool) for _ in range(rng.choice([0, 1, 2, 3, 5]))]
        a = [rng.choice(pool) for _ in range(rng.choice([1, 2, 3, 4]))]
        if b and not nz(b[-1]):
            b[-1] = X._nz(rng, pool)
        if not nz(a[-1]):
            a[-1] = X._nz(rng, pool)
        if not nz(a[0]):
            a[0] = X._nz(rng, pool)
        out.append({"entry": "gcompile", "b": b, "a": a, "zero": rng.choice(zeros)})
    return out


def _gen_free(rng, tier, scale):
    """all-zero numerators (every spelling and length, incl. none at all) x denominators of order >= 1 x memory kinds x
    zero values: the trivial `yield zero` generator must NOT be chosen; exact regime (int coefficients, Fraction data)"""
    out = []
    for _ in range((220 if tier == "quick" else 900) * scale):
        route = rng.choice(["list", "list", "dict", "odict", "linear", "poly", "cast", "zexpr"])
        zs = ZERO_SPELLINGS[rng.choice(["int", "int", "frac", "float"])]
        nb = rng.choice([0, 1, 1, 2, 3])
        la = rng.choice([2, 2, 3, 4])
        a = [rng.choice([1, 1, -1, 2, -3])] + [rng.choice([0, 1, -1, 2, -2, 3]) for _ in range(la - 1)]
        a[-1] = rng.choice([1, -1, 2, -2, 3])
        num = [[k, zs] for k in range(nb)]
        den = [[k, v] for k, v in enumerate(a)]
        if route in ("dict", "odict", "zexpr"):
            num = [kv for kv in num if rng.random() < 0.5]
            den = [[k, v] for k, v in den if v != 0]
            if route != "zexpr" and rng.random() < 0.3:        # a common delay: normalised away
                off = rng.choice([1, 2])
                num, den = [[k + off, v] for k, v in num], [[k + off, v] for k, v in den]
        lm = la - 1
        r = rng.random()
        if r < 0.3:
            mem = None
        elif r < 0.75:
            mem = {"kind": "iter", "vals": [_sample(rng, "frac") for _ in range(lm + rng.choice([0, 0, 0, 1, 2]))],
                   "as": rng.choice(["list", "tuple", "gen", "iter", "stream", "deque", "counting"])}
        elif r < 0.85:
            mem = {"kind": "gen", "base": _sample(rng, "frac"), "step": _sample(rng, "frac"), "as": rng.choice(["counting", None])}
        else:
            mem = {"kind": "callable", "form": rng.choice(["arith", "arithrev"]), "base": _sample(rng, "frac"), "step": _sample(rng, "frac")}
        out.append({"entry": "call", "route": route, "num": num, "den": den, "mem": mem, "family": "free",
                    "zero": rng.choice(["7/1", "7/1", "-2/1", "1/1", "0/1", "1/3"]) if mem is None or rng.random() < 0.5 else "0/1",
                    "xs": [_sample(rng, "frac") for _ in range(rng.choice([1, 2, 3, 5, 6]))],
                    "xs_as": rng.choice(["list", "iter", "tuple", "gen", "stream"])})
    return out


GAIN_POOL = [2, 3, -3, 5, 7, -2, 4, 10, 10 ** 30, -(10 ** 18) - 1, "3/1", "-2/1", "7/1", "1/2", "-5/2", "3/7",
             {"f": 2.0}, {"f": -0.5}, {"f": 3.0}]
EXACT_SAMPLES = ["1/3", "-2/7", "5/1", "1/1", "22/9", "-13/11", "%d/1" % (10 ** 30 + 7), "%d/3" % (10 ** 20 + 1), "0/1", "1/1000003"]


def _gen_gain(rng, tier, scale):
    """a[0] of every spelling other than +-1 (int, negative, huge, integer-valued and other Fractions, floats) x exact
    samples (Fractions with odd denominators, huge integers as Fractions): with an int gain the outputs are EXACT"""
    out = []
    for i in range((260 if tier == "quick" else 900) * scale):
        g = GAIN_POOL[i % len(GAIN_POOL)] if i < 3 * len(GAIN_POOL) else rng.choice(GAIN_POOL)
        lb, la = rng.choice([1, 2, 3]), rng.choice([1, 2, 2, 3])
        b = [rng.choice([1, -1, 2, 3, 0, -5]) for _ in range(lb)]
        if all(v == 0 for v in b) and la == 1:
            b[0] = 1
        a = [g] + [rng.choice([1, -1, 2, 0, -3]) for _ in range(la - 1)]
        route = rng.choice(["list", "list", "dict", "odict", "linear", "poly", "cast", "zexpr"])
        num, den = [[k, v] for k, v in enumerate(b)], [[k, v] for k, v in enumerate(a)]
        if route in ("dict", "odict", "zexpr"):
            num = [[k, v] for k, v in num if v != 0]
            den = [[k, v] for k, v in den if val(v) != 0]
        lm = _lm_of(den)
        mem = None if rng.random() < 0.4 else {"kind": "iter", "vals": [rng.choice(EXACT_SAMPLES) for _ in range(lm)],
                                               "as": rng.choice(["list", "tuple", "gen", "counting"])}
        out.append({"entry": "call", "route": route, "num": num, "den": den, "mem": mem, "family": "gain",
                    "zero": rng.choice(["0/1", "0/1", "7/1", "1/3"]),
                    "xs": [rng.choice(EXACT_SAMPLES) for _ in range(rng.choice([1, 2, 3, 5]))],
                    "xs_as": rng.choice(["list", "iter", "tuple"])})
    return out


def _gen_memread(rng, tier, scale):
    """iterator memories of every length around the order (0 .. lm+3, endless) on filters of order 0..4: the caller's
    iterator is observed right after the call (items pulled, what it delivers next)"""
    out = []
    for _ in range((220 if tier == "quick" else 900) * scale):
        lm = rng.choice([0, 0, 1, 1, 2, 3, 4])
        a = [rng.choice([1, -1, 2])] + [rng.choice([0, 1, -1, 2]) for _ in range(lm)]
        if lm:
            a[-1] = rng.choice([1, -1, 2, -3])
        b = [rng.choice([1, -1, 2, 0, 3]) for _ in range(rng.choice([0, 1, 2, 3]))]
        if rng.random() < 0.8:
            n = rng.choice([0, max(0, lm - 1), lm, lm, lm + 1, lm + 1, lm + 2, lm + 3])
            mem = {"kind": "iter", "vals": ["%d/1" % (10 + i) for i in range(n)], "as": rng.choice(["counting", "counting", "gen", "iter", "stream"])}
        else:
            mem = {"kind": "gen", "base": _sample(rng, "frac"), "step": rng.choice(["1/1", "1/2", "-3/1"]), "as": rng.choice(["counting", None])}
        out.append({"entry": "call", "route": rng.choice(["list", "linear", "poly"]), "family": "memread",
                    "num": [[k, v] for k, v in enumerate(b)], "den": [[k, v] for k, v in enumerate(a)], "mem": mem,
                    "zero": rng.choice(["0/1", "7/1"]), "xs": [_sample(rng, "frac") for _ in range(rng.choice([0, 1, 3]))],
                    "xs_as": rng.choice(["list", "iter"])})
    return out


def generate(rng, tier, scale=1):
    # the process every history is forked from is started now, while this process is still small (a fork copies the
    # page tables: forked after tens of thousands of cases exist, every child costs 10x more)
    H._zygote_start()
    cases = []
    quick = tier == "quick"
    if scale == 1:
        # exhaustive small universe: every special-case branch combination of the string building
        U4 = [-1, 0, 1, 2]
        xs = ["1/1", "2/1", "-3/2", "5/1", "1/3"]
        for lb in range(0, 4):
            for la in range(1, 4):
                for b in itertools.product(U4, repeat=lb):
                    for a in itertools.product(U4, repeat=la):
                        if not quick or (hash((b, a)) % 3 == 0) or lb + la <= 4:
                            mem = None if (len(b) + len(a)) % 2 else {"kind": "iter", "vals": ["3/1", "-4/1", "1/2"][:la - 1]}
                            cases.append({"entry": "call", "route": "list",
                                          "num": [[k, v] for k, v in enumerate(b)],
                                          "den": [[k, v] for k, v in enumerate(a)],
                                          "mem": mem, "zero": "0/1" if a[0] != 2 else "7/1", "xs": xs})
    nshapes = (1200 if quick else 9000) * scale
    max_order = 8
    max_len = 12 if quick else 64
    for _ in range(nshapes):
        route, num, den = _shape(rng, max_order)
        for _ in range(3):
            cases.append(_case(rng, route, num, den, max_len))
    # malformed stream: negative delays, empty / all-zero denominators
    for _ in range((150 if quick else 700) * scale):
        route = rng.choice(["dict", "zexpr", "list"])
        if route == "list":
            lead = rng.randint(1, 3)
            den = [[k, 0] for k in range(lead)] + [[lead, _nonzero(rng, "int")]]
            if rng.random() < 0.3:
                den = [[k, 0] for k in range(lead)]
            num = [[k, _coef(rng, "int")] for k in range(rng.randint(0, lead + 1))]
        else:
            num = [[rng.randint(-3, 4), _nonzero(rng, "int")] for _ in range(rng.randint(0, 3))]
            den = [[rng.randint(-3, 4), _nonzero(rng, "int")] for _ in range(rng.randint(1, 3))]
            num = [[k, v] for k, v in dict((k, v) for k, v in num).items()]
            den = [[k, v] for k, v in dict((k, v) for k, v in den).items()]
        cases.append(_case(rng, route, num, den, 6, "frac"))
    cases.extend(_gen_cascade(random.Random(rng.random()), tier, scale))
    r4 = random.Random(rng.random())
    cases.extend(_gen_free(r4, tier, scale))
    cases.extend(_gen_gain(r4, tier, scale))
    cases.extend(_gen_memread(r4, tier, scale))
    cases.extend(_gen_gcascade(r4, tier, scale))
    cases.extend(_gen_gcompile(r4, tier, scale))
    # long runs / large orders, then histories (own random streams: the batches above keep their draws)
    cases.extend(_gen_long(random.Random(rng.random()), tier, scale))
    cases.extend(H.generate(random.Random(rng.random()), tier, scale))
    # coefficient kinds (complex / bool / huge / Fraction / float spellings), constructor and call shapes over Q(i)
    cases.extend(X.generate(random.Random(rng.random()), tier, scale))
    return cases


# ---------------------------------------------------------------------------------------------
# evidence histograms
# ---------------------------------------------------------------------------------------------
def tally(eng, c, io):
    eng.count("entry", c["entry"] + ("/long" if c.get("long") else ""))
    if c["entry"] in ("hist", "ghist"):
        return H.tally(eng, c, io)
    if c["entry"] == "gcall":
        return X.tally(eng, c, io)
    if c["entry"] == "gcompile":
        ir = io.get("ir", {})
        eng.count("gcompile_ir", ir.get("kind"))
        if ir.get("kind") == "loop":
            eng.count("gcompile_gain", ir["gain"][0] + (":complex" if len(ir["gain"]) > 1 and isinstance(ir["gain"][1], list) else ""))
            for a in ir["sum"]:
                eng.count("gcompile_atom", "%s:%s%s" % (a[-2], a[0], ":complex" if a[0] == "mul" and isinstance(a[1], list) else ""))
        return
    if c["entry"] in ("cascade", "gcascade"):
        eng.count("cascade_stages", len(c["mems"]))
        eng.count("cascade_memories", "+".join(sorted({"none" if m is None else m.get("as", m["kind"]) for m in c["mems"]})) or "-")
        eng.count("cascade_result", "error" if "err" in io else "outputs")
        return
    if c.get("long"):
        eng.count("long_shape", c["long"])
        ks = [k for k, v in c["num"] + c["den"] if val(v) != 0]
        eng.count("long_order", max(ks) - min(ks) if ks else 0)
        n = len(xs_of(c))
        eng.count("long_input_len", "<100" if n < 100 else "100-999" if n < 1000 else "1000-4095" if n < 4096 else "4096+")
        eng.count("long_samples", "Fraction" if c.get("xs_pat", {}).get("frac") or any(isinstance(x, str) for x in c.get("xs", [])) else "int")
    eng.count("xs_flavour", c.get("xs_as", "list"))
    eng.count("route", c.get("route", "dict"))
    if c.get("family"):
        eng.count("family", c["family"])
        if c["family"] == "gain":
            g = gain_of(c)
            eng.count("gain_family_spelling", gain_spelling(g) + (":negative" if val(g) < 0 else "") + (":huge" if abs(val(g)) > 2 ** 63 else ""))
        if c["family"] == "free" and "out" in io:
            eng.count("free_response", "non-zero" if any(dec(v) != 0 for v in io["out"]) else "silent")
    if "mem_next" in io:
        eng.count("iterator_memory_pulled", io.get("mem_pulled", "uncounted"))
    if "asked" in io:
        eng.count("callable_memory_asked", len(io["asked"]))
    m = c.get("mem")
    eng.count("memory", "none" if m is None else (m["kind"] + ":" + ((m.get("form") + ("/" + m["ret"] if "ret" in m else "")) if m.get("form")
                                                                     else (m.get("as", "list") if m["kind"] == "iter" else "endless"))))
    eng.count("zero", "zero=0" if val(c["zero"]) == 0 else "zero!=0")
    eng.count("len_x", min(len(xs_of(c)), 16))
    eng.count("regime", "float(bounded)" if float_expected(c) else "exact")
    if "err" in io:
        eng.count("impl_error", "%s@%s" % (io["err"], io.get("stage")))
        eng.count("branch", "error")
        return
    ir = io.get("ir", {})
    eng.count("ir_kind", ir.get("kind"))
    if ir.get("kind") == "loop":
        eng.count("gain_branch", ir["gain"][0])
        for a in ir["sum"]:
            eng.count("atom_branch", "%s:%s" % (a[-2], a[0]))
        eng.count("order_den", min(ir["nm"], 9))
        eng.count("order_num", min(ir["nd"], 9))
    nd, dd = io.get("numdict", []), io.get("dendict", [])
    dense_b = (max(k for k, _ in nd) + 1) if nd else 0
    dense_a = (max(k for k, _ in dd) + 1) if dd else 0
    eng.count("zero_coefficient_skipped", (dense_b - len(nd)) + (dense_a - len(dd)) > 0)
    if m is not None and m["kind"] == "iter":
        lm = dense_a - 1
        eng.count("memory_len", "short" if len(m["vals"]) < lm else ("exact" if len(m["vals"]) == lm else "longer"))
    eng.count("float_in_output", bool(io.get("float_out")))


# ---------------------------------------------------------------------------------------------
# shrinking / neighbours
# ---------------------------------------------------------------------------------------------
def _simplify_num(j):
    if isinstance(j, dict) and "f" not in j:          # complex / bool tags (entry gcascade)
        return X._simpler(j)
    v = val(j)
    outs = []
    if is_float(j):
        outs.append(tag(Fraction(v)) if Fraction(v).denominator != 1 else int(v))
    if v not in (0, 1):
        outs.append("1/1" if isinstance(j, str) else 1)
    if v != 0:
        outs.append("0/1" if isinstance(j, str) else 0)
    return outs


def shrink(c):
    if c["entry"] in ("hist", "ghist"):
        for d in H.shrink(c):
            yield d
        return
    if c["entry"] == "gcall":
        for d in X.shrink(c):
            yield d
        return
    if c["entry"] == "gcompile":
        for side in ("b", "a"):
            l = c[side]
            for i in range(len(l)):
                if len(l) > 1 and not (side == "a" and i == 0) and i < len(l) - 1:
                    yield dict(c, **{side: l[:i] + l[i + 1:]})
                for sv in X._simpler(l[i]):
                    if not (X.g_of(X.val(sv)).is_zero() and (i == len(l) - 1 or (side == "a" and i == 0))):
                        yield dict(c, **{side: l[:i] + [sv] + l[i + 1:]})
        return
    if c["entry"] in ("cascade", "gcascade"):
        ms = c["mems"]
        for i in range(len(ms)):
            yield dict(c, mems=ms[:i] + ms[i + 1:])
            if ms[i] is not None:
                yield dict(c, mems=ms[:i] + [None] + ms[i + 1:])
                if ms[i].get("as", "list") != "list":
                    yield dict(c, mems=ms[:i] + [dict(ms[i], **{"as": "list"})] + ms[i + 1:])
        for d in _shrink_rest(dict(c, mem=None)):
            if d.get("mem") is None and "fast" not in d:
                d = dict(d)
                d.pop("mem", None)
                yield d
        return
    if "xs_pat" in c:
        p = c["xs_pat"]
        n = p["n"]
        if n <= 12:
            d = dict(c, xs=xs_of(c))
            del d["xs_pat"]
            yield d
        for m in sorted({n // 2, (3 * n) // 4, n - 8, n - 1}):
            if 0 <= m < n:
                yield dict(c, xs_pat=dict(p, n=m))
        if p["kind"] != "impulse":
            yield dict(c, xs_pat={"n": n, "kind": "impulse", "at": 0, "v": 1, "frac": p.get("frac", False)})
        c = dict(c, xs=[])           # the remaining candidates keep the pattern
        pat = True
    else:
        pat = False
    for d in _shrink_rest(c):
        if pat:
            d = dict(d)
            d.pop("xs", None)
        yield d


BIGLIST = 12      # above this length a list is first shrunk in bulk (halves, all-equal), not item by item


def _zero_like(v):
    return "0/1" if isinstance(v, str) else ({"f": 0.0} if isinstance(v, dict) else 0)


def _bulk_vals(vs):
    """bulk simplifications of a long list of tagged numbers (same length)"""
    n = len(vs)
    if any(val(v) != 0 for v in vs[:n // 2]):
        yield [_zero_like(v) for v in vs[:n // 2]] + vs[n // 2:]
    if any(val(v) != 0 for v in vs[n // 2:]):
        yield vs[:n // 2] + [_zero_like(v) for v in vs[n // 2:]]
    if any(val(v) != 0 for v in vs[1:-1]):
        yield vs[:1] + [_zero_like(v) for v in vs[1:-1]] + vs[-1:]
    q = n // 4
    if q and any(val(v) != 0 for v in vs[q:n - q]):
        yield vs[:q] + [_zero_like(v) for v in vs[q:n - q]] + vs[n - q:]


def _edge_items(n):
    return range(n) if n <= BIGLIST else list(range(4)) + list(range(n - 4, n))


def _retarget(c, side, nk):
    """move the highest delay of one side down to nk (dict-like routes) / cut the list after delay nk (list-like
    routes), cutting a given memory list to the new order so that it stays 'of sufficient length'"""
    ps = c[side]
    if c.get("route") in LIST_ROUTES:
        d = dict(c, **{side: ps[:nk + 1]})
    else:
        j = max(range(len(ps)), key=lambda t: ps[t][0])
        if any(q[0] == nk for q in ps):
            return None
        d = dict(c, **{side: [q for q in ps[:j] + [[nk, ps[j][1]]] + ps[j + 1:] if q[0] <= nk]})
    m = c.get("mem")
    if side == "den" and m is not None and "vals" in m:
        lm = _lm_of(d["den"])
        if len(m["vals"]) > lm:
            d["mem"] = dict(m, vals=m["vals"][:lm])
    return d


def _shrink_rest(c):
    # ---- large orders first: halve / decrement the highest delay of each side -----------------------------
    for side in ("num", "den"):
        ps = c[side]
        ks = [k for k, v in ps]
        if ks and max(ks) > 1:
            k = max(ks)
            for nk in sorted({k // 2, (3 * k) // 4, k - 1}):
                if 0 < nk < k:
                    d = _retarget(c, side, nk)
                    if d is not None:
                        yield d
    xs = c["xs"]
    if xs:
        if len(xs) > BIGLIST:
            yield dict(c, xs=xs[:len(xs) // 2])
            yield dict(c, xs=xs[len(xs) // 2:])
            for b in _bulk_vals(xs):
                yield dict(c, xs=b)
        yield dict(c, xs=xs[:-1])
        yield dict(c, xs=xs[1:])
        for i in _edge_items(len(xs)):
            for s in _simplify_num(xs[i])[:2]:
                yield dict(c, xs=xs[:i] + [s] + xs[i + 1:])
    if c.get("xs_as") == "iter":
        yield dict(c, xs_as="list")
    if c.get("mem") is not None:
        yield dict(c, mem=None)
        m = c["mem"]
        if m["kind"] != "iter" or m.get("as", "list") != "list":
            if "vals" in m:
                yield dict(c, mem={"kind": "iter", "vals": m["vals"], "as": "list"})
        if "vals" in m and m["vals"]:
            vs = m["vals"]
            lm = _lm_of(c["den"])
            if len(vs) > lm:
                yield dict(c, mem=dict(m, vals=vs[:lm]))
            if len(vs) > BIGLIST:
                for b in _bulk_vals(vs):
                    yield dict(c, mem=dict(m, vals=b))
            yield dict(c, mem=dict(m, vals=vs[:-1]))
            for i in _edge_items(len(vs)):
                for s in _simplify_num(vs[i])[:2]:
                    yield dict(c, mem=dict(m, vals=vs[:i] + [s] + vs[i + 1:]))
    if val(c["zero"]) != 0 or not isinstance(c["zero"], str):
        yield dict(c, zero="0/1")
    for side in ("num", "den"):
        ps = c[side]
        listlike = c.get("route") in LIST_ROUTES
        if len(ps) > BIGLIST:
            if listlike:
                for b in _bulk_vals([v for _, v in ps]):
                    if side == "num" or val(b[0]) != 0:
                        yield dict(c, **{side: [[k, v] for (k, _), v in zip(ps, b)]})
            else:
                srt = sorted(ps, key=lambda q: q[0])
                yield dict(c, **{side: [srt[0], srt[-1]]})
                yield dict(c, **{side: srt[:len(srt) // 2] + srt[-1:]})
        for i in _edge_items(len(ps)):
            if side == "den" and len(ps) == 1:
                break
            if listlike:
                if i == len(ps) - 1:
                    yield dict(c, **{side: ps[:-1]})
            else:
                yield dict(c, **{side: ps[:i] + ps[i + 1:]})
        for i in _edge_items(len(ps)):
            k, v = ps[i]
            for s in _simplify_num(v):
                yield dict(c, **{side: ps[:i] + [[k, s]] + ps[i + 1:]})
    if c.get("route") in ("zexpr", "linear", "poly", "cast", "odict"):
        yield dict(c, route="dict" if c["route"] in ("zexpr", "odict") else "list")
    if c.get("mem") is not None and "ret" in c["mem"] and c["mem"]["ret"] != "list":
        yield dict(c, mem=dict(c["mem"], ret="list"))
    if c.get("xs_as") not in ("list", "iter", None):
        yield dict(c, xs_as="list")
    if c.get("fast") and len(xs) <= 64 and all(k <= 16 for k, _ in c["num"] + c["den"]):
        d = dict(c)
        d.pop("fast", None)
        d.pop("long", None)
        yield d


def neighbours(c):
    if c["entry"] == "gcall":
        for d in X.neighbours(c):
            yield d
        return
    if c["entry"] in ("hist", "ghist", "cascade", "gcascade", "gcompile") or c.get("long"):
        return
    for side in ("num", "den"):
        ps = c[side]
        for i, (k, v) in enumerate(ps):
            x = val(v)
            for nv in (-x, 0, 1, -1, x + 1):
                yield dict(c, **{side: ps[:i] + [[k, tag(Fraction(nv)) if isinstance(v, str) else (
                    {"f": float(nv)} if is_float(v) else int(nv))]] + ps[i + 1:]})
    base = dict(c, xs=c["xs"] if c["xs"] else ["1/1", "2/1", "-3/2"])
    yield base
    yield dict(base, xs=["1/1", "2/1", "-3/2", "5/1", "1/3", "-2/1"], zero="0/1")
    yield dict(base, mem=None)
    lm = _lm_of(c["den"])
    yield dict(base, mem={"kind": "iter", "vals": ["3/1", "-4/1", "1/2", "5/1", "-1/3", "2/1", "7/1", "1/1", "-6/1"][:lm], "as": "list"})


# ---------------------------------------------------------------------------------------------
# translator self-test: T3 must see seeded edits of a generated source
# ---------------------------------------------------------------------------------------------
_SELFTEST_SRC = """def gen(seq, memory, zero):
  m1 , m2 , = memory
  d1 = d2 = d3 = zero
  for d0 in seq:
    m0 = (d0 + -d1 + 1/3 * d3 + -m1 + --5/2 * m2) / 2
    yield m0
    m2 = m1
    m1 = m0
    d3 = d2
    d2 = d1
    d1 = d0"""
_SELFTEST_IR = {"kind": "loop", "nm": 2, "nd": 3,
                "sum": [["var", "d", 0], ["neg", "d", 1], ["mul", "1/3", "d", 3], ["neg", "m", 1], ["mul", "5/2", "m", 2]],
                "gain": ["div", 2],
                "shifts": [["m", 2, "m", 1], ["m", 1, "m", 0], ["d", 3, "d", 2], ["d", 2, "d", 1], ["d", 1, "d", 0]]}
_SELFTEST_EDITS = [
    ("-d1", "d1"), ("1/3 * d3", "1/3 * d2"), ("+ -m1", "+ m1"), (") / 2", ") / 3"), (") / 2", ") / 2/1"),
    ("    m2 = m1\n    m1 = m0", "    m1 = m0\n    m2 = m1"), ("    d3 = d2\n", ""), ("d1 = d0", "d1 = d1"),
    ("--5/2", "-5/2"), ("m1 , m2 , = memory", "m2 , m1 , = memory"), ("d1 = d2 = d3 = zero", "d1 = d2 = zero"),
    ("(d0 + ", "-(d0 + "), ("yield m0", "yield d0"), ("1/3", "1/4"),
    # the gain is applied by DIVISION: a reciprocal multiplication is another program (exact samples would be rounded)
    (") / 2", ") * 0.5"), (") / 2", ") * (1/2)"), ("m0 = (d0", "m0 = 0.5 * (d0"), (") / 2", ") // 2"),
]


_SELFTEST_CX_SRC = """def gen(seq, memory, zero):
  m1 , = memory
  d1 = d2 = d3 = zero
  for d0 in seq:
    m0 = (1j * d0 + (-0-1j) * d1 + (0.5+0.25j) * d2 + 1000000000000000000000000000001 * d3 + --1j * m1) / ((1+2j))
    yield m0
    m1 = m0
    d3 = d2
    d2 = d1
    d1 = d0"""
_SELFTEST_CX_IR = {"kind": "loop", "nm": 1, "nd": 3,
                   "sum": [["mul", [0, 1], "d", 0], ["mul", [0, -1], "d", 1], ["mul", ["1/2", "1/4"], "d", 2],
                           ["mul", 10 ** 30 + 1, "d", 3], ["mul", [0, 1], "m", 1]],
                   "gain": ["div", [1, 2]],
                   "shifts": [["m", 1, "m", 0], ["d", 3, "d", 2], ["d", 2, "d", 1], ["d", 1, "d", 0]]}
_SELFTEST_CX_EDITS = [
    ("1j * d0", "-d0"), ("1j * d0", "d0"), ("1j * d0", "1 * d0"), ("1j * d0", "-1j * d0"), ("(-0-1j)", "(-0+1j)"), ("(-0-1j)", "-1"),
    ("--1j", "-1j"), ("((1+2j))", "((1-2j))"), ("((1+2j))", "(1)"), ("0.25j", "0.5j"), ("0000001 * d3", "0000000 * d3"),
    ("1000000000000000000000000000001", "1e30"),
]


def regenerate(eng=None):
    """translator of the source of LinearFilter.__call__ -> lean/ALV/Gen/C04Src.lean (c04_tr.py)"""
    return TR.regenerate(eng)


def extra_checks(eng):
    for item in TR.selftest(eng):
        yield item
    ok = parse_source(_SELFTEST_CX_SRC) == _SELFTEST_CX_IR
    yield ("T3-parser-reference-source-complex", ok, "parse_source gave %r" % (parse_source(_SELFTEST_CX_SRC),))
    blind = []
    for old, new in _SELFTEST_CX_EDITS:
        assert old in _SELFTEST_CX_SRC
        if parse_source(_SELFTEST_CX_SRC.replace(old, new, 1)) == _SELFTEST_CX_IR:
            blind.append((old, new))
    yield ("T3-parser-sees-seeded-edits-complex(%d)" % len(_SELFTEST_CX_EDITS), not blind, "edits not seen: %r" % (blind,))
    ok = parse_source(_SELFTEST_SRC) == _SELFTEST_IR
    yield ("T3-parser-reference-source", ok, "parse_source gave %r" % (parse_source(_SELFTEST_SRC),))
    blind = []
    for old, new in _SELFTEST_EDITS:
        assert old in _SELFTEST_SRC
        if parse_source(_SELFTEST_SRC.replace(old, new, 1)) == _SELFTEST_IR:
            blind.append((old, new))
    yield ("T3-parser-sees-seeded-edits(%d)" % len(_SELFTEST_EDITS), not blind, "edits not seen: %r" % (blind,))
    lits = [("(2)", "int"), ("(-3)", "int"), ("(2.0)", "float"), ("(-5/2)", "frac"), ("((1+2j))", "complex"), ("(1e+30)", "float"),
            ("(1000000000000000000000000000000)", "int")]
    bad = [(l, gain_literal(_SELFTEST_SRC.replace(") / 2", ") / " + l))) for l, k in lits
           if gain_literal(_SELFTEST_SRC.replace(") / 2", ") / " + l)) != k]
    yield ("T3-gain-literal-spelling(%d)" % len(lits), not bad and gain_literal(_SELFTEST_SRC.replace(") / 2", ") * 0.5")) is None,
           "misread: %r" % (bad,))
    neg = parse_source("def gen(seq, memory, zero):\n  for d0 in seq:\n    m0 = -(d0)\n    yield m0")
    pos = parse_source("def gen(seq, memory, zero):\n  for d0 in seq:\n    m0 = -d0\n    yield m0")
    yield ("T3-parser-separates-gain-minus-from-atom-minus",
           neg.get("gain") == ["negone"] and pos.get("gain") == ["one"] and pos.get("sum") == [["neg", "d", 0]],
           "%r / %r" % (neg, pos))
