"""C07 — source translator: the BODIES of the `Poly` methods of `audiolazy/lazy_poly.py` -> Lean definitions.

Reads the source text of the repo under test with `ast` (nothing is imported from the repo) and writes
`lean/ALV/Gen/C07Src.lean`: one Lean definition per translated method (per kind of argument where the method
dispatches with `isinstance`), in the vocabulary of the hand-written model `ALV/Model/C07Zero.lean`
(`ZPoly`, `PyNum`, `PyVal`, the ordered dictionary `MPoly PyNum` with `ofPairs / has / set / del / accum / find? / iter`)
plus the few idiom definitions of `ALV/Model/C07Src.lean`.  `Props/C07.lean` proves `src_<f>_is_model : py_<f> = <model f>`
for each of them, so every theorem about the model function is a theorem about the regenerated definition, and an edit of a
method that changes its meaning breaks that theorem on the next run.

The translator is a small partial evaluator over a typed environment:

  * every method is translated once per argument typing of the model (`other` a Poly / a number; `data` a list / a dict /
    a Poly / None / a number): `isinstance(x, T)` and `x is None` are DECIDED by the type, the dead branch is dropped
    (`and` / `or` / `not` / `if` fold Python's short-circuit way), so float powers and Stream coefficients (outside the model)
    disappear and everything else must be understood;
  * statements: docstring, `name = e`, `a, b = next(iteritems(d))` (only under `len(d) == 1`), `self._data = e`,
    `self._zero = e`, `self._data[k] = v`, `del self._data[k]`, `if / elif / else` (`x is None` becomes a `match`,
    `k in d` with a use of `d[k]` becomes a `match find? d k`), `return`, `raise <Known>Error`, nested `def` (inlined at
    its calls), and three loop shapes: `for _ in xrange(n): d = f(d)` (-> `iter`), `for k, v in list(iteritems(D)):
    if C: del D[k]` (-> `filter`, the compaction loop), nested `for k, v in L:` loops updating one dictionary
    (-> `foldl`, with `if K in D: D[K] += V else: D[K] = V` -> `accum`);
  * expressions: names, int / float literals, `+ - *` on powers and on numbers (an int meeting a number is `PyNum.int`),
    `operator.truediv` and `/` (-> `Py.truediv`, may raise), unary minus, `== != in is`, `and or not`, conditional expressions,
    tuples, list literals, generator expressions / list comprehensions over `iteritems(d)` (-> `filter` / `map` / `mapM`),
    `[... for key in set(A).intersection(B)]` (-> `Py.interWith`), `all`, calls of `OrderedDict enumerate iteritems list
    it.chain len thub Poly cls next hasattr getattr`, of a function parameter (`op_func`) and of a nested def.

Anything else inside a chosen method is a `TranslationError` (= broken obligation); nothing is skipped silently.
Local variable names are normalised (x1, x2, ... in order of first assignment; loop targets become `kv`, nested defs are
inlined), comments, docstrings, whitespace and the messages of exceptions do not reach the output.
"""
import ast
import os
from fractions import Fraction

import common

GEN_REL = os.path.join("ALV", "Gen", "C07Src.lean")
SRC = "lazy_poly.py"


class TranslationError(Exception):
    pass


def read_source():
    with open(os.path.join(common.REPO, "audiolazy", SRC)) as f:
        return f.read()


# =============================================================================================
# translated expressions
# =============================================================================================
class E(object):
    """lean text + type + (constant value when folded) + effect bindings [(tmp, lean text of an Except value)]"""

    def __init__(self, lean, ty, const=None, binds=(), isnone=None, lit=None):
        self.lean, self.ty, self.const, self.binds, self.isnone, self.lit = lean, ty, const, list(binds), isnone, lit


TRUE = lambda: E("true", "bool", const=True)
FALSE = lambda: E("false", "bool", const=False)

LEAN_KEYWORDS = set("at end from fun do then else if let have show match with in open where by def theorem instance "
                    "class structure inductive namespace section variable universe import local prefix infix notation "
                    "macro syntax deriving mutual private protected partial unsafe return for unless try catch finally "
                    "mut this Type Prop Sort".split())

ERRORS = {"TypeError": ".type", "ValueError": ".value", "ZeroDivisionError": ".zeroDivision",
          "NotImplementedError": ".notImplemented", "AttributeError": ".attribute"}

LEAN_TY = {"int": "Int", "nat": "Nat", "num": "PyNum", "val": "PyVal", "optval": "Option PyVal", "poly": "ZPoly",
           "bool": "Bool", "dict": "MPoly PyNum", "fn_num": "PyNum → PyNum", "fn_poly2": "ZPoly → ZPoly → ZPoly",
           "hashed": "Bool", "polyref": "(Option ZPoly)"}


def lname(n):
    if not (n.isidentifier() and n.isascii()):
        raise TranslationError("bad identifier %r" % (n,))
    return n + "_" if n in LEAN_KEYWORDS or n.startswith("py_") else n


class Cx(object):
    def __init__(self):
        self.env = {}          # python name / pseudo name ("self._data") -> E
        self.facts = set()     # ("len1", lean text of a dict)
        self.funcs = {}        # nested defs, inlined at their calls
        self.subs = {}         # (dump(value), dump(slice)) -> E : subscripts bound by an idiom
        self.lams = set()      # lambda variable names in scope
        self.fx = False        # result type is Except PyErr _
        self.mut = False       # the method changes self and returns None
        self.ret = None        # result type
        self.tmp = [0]
        self.locals = {}       # python local name -> canonical Lean name (x1, x2, ... in order of first assignment)

    def local(self, name):
        lname(name)
        if name not in self.locals:
            self.locals[name] = "x%d" % (len(self.locals) + 1)
        return self.locals[name]

    def child(self):
        c = Cx()
        c.env, c.facts, c.funcs, c.subs, c.lams = dict(self.env), set(self.facts), dict(self.funcs), dict(self.subs), set(self.lams)
        c.fx, c.mut, c.ret, c.tmp, c.locals = self.fx, self.mut, self.ret, self.tmp, self.locals
        return c

    def fresh(self):
        self.tmp[0] += 1
        return "t%d" % self.tmp[0]


def fail(node, why):
    raise TranslationError("line %s: %s: %s" % (getattr(node, "lineno", "?"), why, ast.dump(node)[:100]))


def coerce(e, ty, node=None):
    if e.ty == ty:
        return e
    if e.ty == "intlit":
        if ty in ("int", "nat"):
            if ty == "nat" and e.lit < 0:
                fail(node, "negative literal where a length is expected")
            return E(e.lean, ty, binds=e.binds, lit=e.lit)
        if ty == "num":
            return E("(PyNum.int %s)" % e.lean, "num", binds=e.binds)
        if ty == "val":
            return E("(PyVal.num (PyNum.int %s))" % e.lean, "val", binds=e.binds)
    if e.ty == "int" and ty == "num":
        return E("(PyNum.int %s)" % e.lean, "num", binds=e.binds)
    if e.ty == "expo" and ty == "int":
        # an exponent in the position of a POWER (dictionary key): only its integral value matters (2.0 and 2 are one key)
        return E(e.lean, "int", binds=e.binds)
    if e.ty == "poly" and ty == "polyref":
        return E("(some %s)" % e.lean, "polyref", binds=e.binds)      # a NEW instance (`none` = the object `self` itself)
    if e.ty == "num" and ty == "val":
        return E("(PyVal.num %s)" % e.lean, "val", binds=e.binds)
    if e.ty == "dict" and ty == "pairs" or e.ty == "pairs" and ty == "dict":
        return E(e.lean, ty, binds=e.binds)
    raise TranslationError("line %s: a value of kind %s where %s is expected: %s"
                           % (getattr(node, "lineno", "?"), e.ty, ty, e.lean[:80]))


def is_name(node, *names):
    return isinstance(node, ast.Name) and node.id in names


def is_attr(node, base, attr):
    return isinstance(node, ast.Attribute) and is_name(node.value, base) and node.attr == attr


def sub_key(node):
    return (ast.dump(node.value), ast.dump(node.slice))


ISINST = {  # type of the value -> the classes it is an instance of (every other class of the vocabulary: not)
    "numlist": {"list"}, "pairs": {"dict"}, "dict": {"dict"}, "poly": {"Poly"}, "none": set(),
    "num": None, "intlit": None, "int": None, "val": None, "expo": None,
}
KNOWN_CLASSES = {"list", "dict", "Poly", "float", "Stream"}


def tr_isinstance(node, cx):
    if len(node.args) != 2 or node.keywords or not isinstance(node.args[1], ast.Name):
        fail(node, "isinstance shape")
    cls = node.args[1].id
    if cls not in KNOWN_CLASSES:
        fail(node, "isinstance of a class outside the vocabulary")
    x = tr_expr(node.args[0], cx)
    if x.ty not in ISINST:
        fail(node, "isinstance of a value of kind %s" % x.ty)
    inst = ISINST[x.ty]
    if inst is not None:
        return TRUE() if cls in inst else FALSE()
    # numbers / powers / zeros: never a container, a Poly or a Stream (model: number coefficients, int powers)
    if cls in ("list", "dict", "Poly", "Stream"):
        return FALSE()
    if cls == "float" and x.ty == "int":
        return FALSE()            # powers are ints in the model
    fail(node, "isinstance(%s, %s) is not decided by the typing of the model" % (x.ty, cls))


def tr_source(node, cx):
    """an iterable of (power, coefficient) pairs -> E of type dict / pairs"""
    if isinstance(node, ast.Call) and is_name(node.func, "list") and len(node.args) == 1 and not node.keywords:
        return tr_source(node.args[0], cx)
    if isinstance(node, ast.Call) and is_name(node.func, "iteritems") and len(node.args) == 1 and not node.keywords:
        d = tr_expr(node.args[0], cx)
        if d.ty not in ("dict", "pairs"):
            fail(node, "iteritems of a non-dictionary")
        return d
    if isinstance(node, ast.Name):
        d = tr_expr(node, cx)
        if d.ty in ("pairs",):
            return d
    if isinstance(node, ast.Call) and isinstance(node.func, ast.Attribute) and node.func.attr == "terms":
        return tr_call(node, cx)
    fail(node, "unsupported iterable")


def lam_name(cx, target):
    digits = ""
    if isinstance(target, ast.Tuple) and all(isinstance(t, ast.Name) for t in target.elts):
        tails = set()
        for t in target.elts:
            s = t.id.rstrip("0123456789")
            tails.add(t.id[len(s):])
        if len(tails) == 1:
            digits = tails.pop()
    base = "kv" + digits
    n = base
    while n in cx.lams:
        n += "'"
    return n


def bind_pair_target(target, lam, cx):
    if not (isinstance(target, ast.Tuple) and len(target.elts) == 2 and all(isinstance(t, ast.Name) for t in target.elts)):
        fail(target, "loop target is not a pair of names")
    c = cx.child()
    c.lams.add(lam)
    c.env[target.elts[0].id] = E(lam + ".1", "int")
    c.env[target.elts[1].id] = E(lam + ".2", "num")
    return c


def tr_comp(node, cx):
    """generator expression / list comprehension -> (lean text, element type, binds)"""
    if len(node.generators) != 1 or node.generators[0].is_async:
        fail(node, "comprehension with several generators")
    g = node.generators[0]
    # [(key, f(A[key], B[key])) for key in set(A).intersection(B)]
    it_ = g.iter
    if (isinstance(it_, ast.Call) and isinstance(it_.func, ast.Attribute) and it_.func.attr == "intersection"
            and isinstance(it_.func.value, ast.Call) and is_name(it_.func.value.func, "set")
            and len(it_.func.value.args) == 1 and len(it_.args) == 1 and not it_.keywords and not it_.func.value.keywords):
        if g.ifs or not isinstance(g.target, ast.Name):
            fail(node, "intersection comprehension shape")
        a_node, b_node = it_.func.value.args[0], it_.args[0]
        a, b = tr_expr(a_node, cx), tr_expr(b_node, cx)
        if a.ty != "dict" or b.ty != "dict":
            fail(node, "intersection of non-dictionaries")
        key = g.target
        if not (isinstance(node.elt, ast.Tuple) and len(node.elt.elts) == 2 and is_name(node.elt.elts[0], key.id)):
            fail(node, "intersection comprehension element is not (key, value)")
        c = cx.child()
        kd = ast.dump(ast.Name(id=key.id, ctx=ast.Load()))
        c.subs[(ast.dump(a_node), kd)] = E("a", "num")
        c.subs[(ast.dump(b_node), kd)] = E("w", "num")
        v = coerce(tr_expr(node.elt.elts[1], c), "num", node)
        if v.binds:
            fail(node, "effect inside the intersection comprehension")
        return E("(Py.interWith (fun a w => %s) %s %s)" % (v.lean, a.lean, b.lean), "pairs")
    src = tr_source(g.iter, cx)
    lam = lam_name(cx, g.target)
    c = bind_pair_target(g.target, lam, cx)
    text = src.lean
    conds = []
    for t in g.ifs:
        e = tr_expr(t, c)
        if e.ty != "bool" or e.binds:
            fail(t, "comprehension condition")
        if e.const is True:
            continue
        if e.const is False:
            conds = [FALSE()]
            break
        conds.append(e)
    if conds:
        text = "(%s.filter (fun %s => %s))" % (text, lam, " && ".join(x.lean for x in conds))
    elt = tr_expr(node.elt, c)
    if elt.ty == "intlit":
        elt = coerce(elt, "num", node)
    ety = "pairs" if elt.ty == "pair" else "list:" + elt.ty
    if elt.binds:
        inner = "(.ok %s)" % elt.lean
        for (t, ex) in reversed(elt.binds):
            inner = "(Except.bind %s (fun %s => %s))" % (ex, t, inner)
        t0 = cx.fresh()
        return E(t0, ety, binds=[(t0, "(%s.mapM (fun %s => %s))" % (text, lam, inner))])
    return E("(%s.map (fun %s => %s))" % (text, lam, elt.lean), ety)


def tr_poly_ctor(node, cx):
    args, kws = list(node.args), {k.arg: k.value for k in node.keywords}
    if len(args) > 2 or any(k not in ("data", "zero") for k in kws) or None in kws:
        fail(node, "Poly(...) call shape")
    data = args[0] if args else kws.get("data")
    zero = args[1] if len(args) > 1 else kws.get("zero")
    if len(args) > 1 and "zero" in kws or args and "data" in kws:
        fail(node, "Poly(...) argument given twice")
    binds = []
    if data is None:
        d = ".none"
    else:
        e = tr_expr(data, cx)
        binds += e.binds
        if e.ty == "numlist":
            d = "(.list %s)" % e.lean
        elif e.ty in ("pairs", "dict"):
            d = "(.dict %s)" % e.lean
        elif e.ty == "poly":
            d = "(.poly %s)" % e.lean
        elif e.ty in ("num", "intlit"):
            d = "(.num %s)" % coerce(e, "num").lean
        elif e.ty == "none":
            d = ".none"
        else:
            fail(node, "Poly(data) with data of kind %s" % e.ty)
    if zero is None:
        z = "none"
    else:
        e = tr_expr(zero, cx)
        binds += e.binds
        if e.ty == "optval":
            z = e.lean
        elif e.ty == "none":
            z = "none"
        elif e.ty in ("val", "num", "intlit"):
            z = "(some %s)" % coerce(e, "val").lean
        else:
            fail(node, "Poly(zero=) of kind %s" % e.ty)
    return E("(py_init %s %s)" % (d, z), "poly", binds=binds)


def tr_call(node, cx):
    f = node.func
    if isinstance(f, ast.Name):
        n = f.id
        if n in cx.funcs:
            return inline_call(cx.funcs[n], node, cx)
        if n in cx.env and cx.env[n].ty in ("fn_num", "fn_poly2"):
            fn = cx.env[n]
            want = ["num"] if fn.ty == "fn_num" else ["poly", "poly"]
            if len(node.args) != len(want) or node.keywords:
                fail(node, "call of a function parameter")
            args = [coerce(tr_expr(a, cx), w, node) for a, w in zip(node.args, want)]
            return E("(%s %s)" % (fn.lean, " ".join(a.lean for a in args)), "num" if fn.ty == "fn_num" else "poly",
                     binds=[b for a in args for b in a.binds])
        if n == "isinstance":
            return tr_isinstance(node, cx)
        if n in ("Poly", "cls"):
            if n == "cls" and "cls" not in cx.env:
                fail(node, "cls outside the metaclass")
            return tr_poly_ctor(node, cx)
        if n == "OrderedDict" and not node.keywords:
            if not node.args:
                return E("(ofPairs [])", "dict")
            if len(node.args) == 1:
                a = tr_expr(node.args[0], cx)
                if a.ty in ("pairs", "dict"):
                    return E("(ofPairs %s)" % a.lean, "dict", binds=a.binds)
            fail(node, "OrderedDict(...) of something that is not a sequence of pairs")
        if n == "enumerate" and len(node.args) == 1 and not node.keywords:
            a = tr_expr(node.args[0], cx)
            if a.ty != "numlist":
                fail(node, "enumerate of a non-list")
            return E("(enumFrom 0 %s)" % a.lean, "pairs", binds=a.binds)
        if n in ("iteritems", "list") and len(node.args) == 1 and not node.keywords:
            if n == "list":
                a = tr_expr(node.args[0], cx)
                if a.ty in ("pairs", "dict", "numlist") or a.ty.startswith("list:"):
                    return a
                fail(node, "list(...) of kind %s" % a.ty)
            return tr_source(node, cx)
        if n == "len" and len(node.args) == 1 and not node.keywords:
            a = tr_expr(node.args[0], cx)
            if a.ty in ("dict", "pairs", "numlist"):
                return E("%s.length" % a.lean, "nat", binds=a.binds)
            if a.ty == "poly":
                return E("(py_len %s)" % a.lean, "nat", binds=a.binds)
            fail(node, "len of kind %s" % a.ty)
        if n == "thub" and len(node.args) == 2 and not node.keywords:
            v = coerce(tr_expr(node.args[0], cx), "num", node)
            k = coerce(tr_expr(node.args[1], cx), "nat", node)
            return E("(Py.thub %s %s)" % (v.lean, k.lean), "num", binds=v.binds + k.binds)
        if n == "next" and len(node.args) == 1 and not node.keywords:
            d = tr_source(node.args[0], cx)
            if ("len1", d.lean) not in cx.facts:
                fail(node, "next(iteritems(d)) outside a branch guarded by len(d) == 1")
            return E("(Py.next %s)" % d.lean, "pair")
        if n == "all" and len(node.args) == 1 and not node.keywords and isinstance(node.args[0], (ast.GeneratorExp, ast.ListComp)):
            g = node.args[0]
            if len(g.generators) != 1:
                fail(node, "all(...) with several generators")
            src = tr_source(g.generators[0].iter, cx)
            lam = lam_name(cx, g.generators[0].target)
            c = bind_pair_target(g.generators[0].target, lam, cx)
            if g.generators[0].ifs:
                fail(node, "all(... if ...)")
            e = tr_expr(g.elt, c)
            if e.ty != "bool" or e.binds:
                fail(node, "all(...) of non-booleans")
            return E("%s.all (fun %s => %s)" % (src.lean, lam, e.lean), "bool")
        if n == "reduce" and len(node.args) == 2 and not node.keywords and isinstance(node.args[0], ast.Name) \
                and node.args[0].id in cx.funcs:
            fn = cx.funcs[node.args[0].id]
            seq = tr_expr(node.args[1], cx)
            a = fn.args
            if a.vararg or a.kwarg or a.kwonlyargs or a.defaults or len(a.args) != 2 or seq.ty != "pairs" or seq.binds:
                fail(node, "reduce(step, pairs) shape")
            if ("nonempty", seq.lean) not in cx.facts:
                fail(node, "reduce without an initial value over a sequence not known to be non-empty")
            c = cx.child()
            c.ret, c.fx, c.mut = "pair", False, False
            c.locals = dict(cx.locals)
            ps = [lname(p.arg) for p in a.args]
            for p_, nm in zip(a.args, ps):
                c.env[p_.arg] = E(nm, "pair")
            body = tr_block(fn.body, c, "      ", fn)
            return E("(Py.reduce1 (fun %s %s =>\n%s) %s)" % (ps[0], ps[1], "\n".join(body), seq.lean), "pair")
        if n == "sum" and len(node.args) == 1 and not node.keywords and isinstance(node.args[0], ast.GeneratorExp):
            g = tr_comp(node.args[0], cx)
            if g.ty != "list:num" or g.binds:
                fail(node, "sum(...) of kind %s" % g.ty)
            return E("(%s.foldl (fun acc x => acc + x) (PyNum.int 0))" % g.lean, "num")      # sum starts from the int 0
        if n == "reduce" and len(node.args) == 2 and not node.keywords:
            # reduce(operator.mul, [A] * C + [B]): A, B instances, C an exponent-valued count
            op, seq = node.args
            if not (is_attr(op, "operator", "mul") and isinstance(seq, ast.BinOp) and isinstance(seq.op, ast.Add)
                    and isinstance(seq.left, ast.BinOp) and isinstance(seq.left.op, ast.Mult)
                    and isinstance(seq.left.left, ast.List) and len(seq.left.left.elts) == 1
                    and isinstance(seq.right, ast.List) and len(seq.right.elts) == 1 and "expo.kind" in cx.env):
                fail(node, "reduce(...) that is not reduce(operator.mul, [A] * C + [B])")
            a = tr_expr(seq.left.left.elts[0], cx)
            cnt = tr_expr(seq.left.right, cx)
            last = seq.right.elts[0]
            b = tr_expr(last, cx)
            if a.ty != "poly" or b.ty != "poly" or cnt.ty != "expo" or not is_name(last, "self"):
                fail(node, "reduce(operator.mul, [A] * C + [self]) with A of kind %s, C of kind %s" % (a.ty, cnt.ty))
            t = cx.fresh()
            return E("(Py.reduceMul py_mul %s %s)" % (t, b.lean), "polyref",
                     binds=a.binds + cnt.binds + b.binds + [(t, "(Py.rep %s %s %s)" % (a.lean, cnt.lean, cx.env["expo.kind"].lean))])
        if n == "hasattr" and len(node.args) == 2 and is_name(node.args[0], "self") and \
                isinstance(node.args[1], ast.Constant) and node.args[1].value == "_hash" and "hashed" in cx.env:
            return E("hashed", "bool")
        if n == "getattr" and len(node.args) == 3 and is_name(node.args[0], "self") and \
                isinstance(node.args[1], ast.Constant) and node.args[1].value == "_hash" and \
                isinstance(node.args[2], ast.Constant) and node.args[2].value is False and "hashed" in cx.env:
            return E("hashed", "bool")      # the stored hash VALUE being 0 is outside the model (TRUSTED)
        fail(node, "call of %s outside the vocabulary" % n)
    if isinstance(f, ast.Attribute):
        if f.attr == "is_polynomial" and not node.args and not node.keywords:
            x = tr_expr(f.value, cx)
            if x.ty != "poly":
                fail(node, ".is_polynomial() of kind %s" % x.ty)
            return E("(isPolynomial %s.data)" % x.lean, "bool", binds=x.binds)
        if f.attr == "terms" and not node.args:
            x = tr_expr(f.value, cx)
            kws = {}
            for k in node.keywords:
                if k.arg not in ("sort", "reverse") or not (isinstance(k.value, ast.Constant) and k.value.value in (True, False)
                                                              and isinstance(k.value.value, bool)):
                    fail(node, ".terms(...) keyword")
                kws[k.arg] = k.value.value
            if x.ty != "poly" or kws.get("sort", True) is not True:
                fail(node, ".terms() unsorted / of kind %s" % x.ty)
            # sort="auto" is True for integer powers (the typing of the model)
            return E("(%s %s.data)" % ("sortDesc" if kws.get("reverse", False) else "sortAsc", x.lean), "pairs", binds=x.binds)
        if f.attr == "copy" and not node.args and not node.keywords:
            x = tr_expr(f.value, cx)
            if x.ty != "poly":
                fail(node, ".copy() of kind %s" % x.ty)
            return E("(py_copy %s none)" % x.lean, "poly", binds=x.binds)
        if is_name(f.value, "it") and f.attr == "chain" and node.args and not node.keywords:
            parts = []
            for a in node.args:
                if isinstance(a, ast.Call) and is_name(a.func, "iteritems"):
                    parts.append(tr_source(a, cx))
                else:
                    e = tr_expr(a, cx)
                    if e.ty not in ("pairs", "dict"):
                        fail(a, "chain of a non-pair sequence")
                    parts.append(e)
            return E("(%s)" % " ++ ".join(p.lean for p in parts), "pairs", binds=[b for p in parts for b in p.binds])
        if is_name(f.value, "operator") and f.attr == "truediv" and len(node.args) == 2 and not node.keywords:
            return tr_div(node.args[0], node.args[1], cx, node)
    fail(node, "call outside the vocabulary")


def tr_div(a_node, b_node, cx, node):
    a = coerce(tr_expr(a_node, cx), "num", node)
    b = coerce(tr_expr(b_node, cx), "num", node)
    t = cx.fresh()
    return E(t, "num", binds=a.binds + b.binds + [(t, "(Py.truediv %s %s)" % (a.lean, b.lean))])


def inline_call(fn, node, cx):
    a = fn.args
    if a.vararg or a.kwarg or a.kwonlyargs or a.defaults or node.keywords or len(a.args) != len(node.args):
        fail(node, "call of a nested def")
    c = cx.child()
    for p, arg in zip(a.args, node.args):
        c.env[p.arg] = tr_expr(arg, cx)
    return tr_fbody(fn.body, c, fn)


def tr_fbody(stmts, cx, fn):
    """body of an inlined nested def: `if C: return A` ... `return B`"""
    if not stmts:
        fail(fn, "nested def falls off its end")
    s = stmts[0]
    if isinstance(s, ast.Expr) and isinstance(s.value, ast.Constant) and isinstance(s.value.value, str):
        return tr_fbody(stmts[1:], cx, fn)
    if isinstance(s, ast.Return) and s.value is not None:
        return tr_expr(s.value, cx)
    if isinstance(s, ast.If) and not s.orelse:
        t = tr_expr(s.test, cx)
        if t.ty != "bool" or t.binds:
            fail(s, "condition")
        if t.const is False:
            return tr_fbody(stmts[1:], cx, fn)
        if t.const is True:
            return tr_fbody(s.body, cx, fn)
        a, b = tr_fbody(s.body, cx, fn), tr_fbody(stmts[1:], cx, fn)
        a, b = unify(a, b, s)
        return E("(if %s then %s else %s)" % (t.lean, a.lean, b.lean), a.ty, binds=a.binds + b.binds)
    fail(s, "statement of a nested def")


def unify(a, b, node):
    if a.ty == b.ty:
        return a, b
    for ty in ("int", "num", "val"):
        try:
            return coerce(a, ty, node), coerce(b, ty, node)
        except TranslationError:
            pass
    fail(node, "branches of kinds %s and %s" % (a.ty, b.ty))


def tr_eq(a, b, node):
    """Python `a == b` -> Bool"""
    tys = (a.ty, b.ty)
    if a.ty == "nat" or b.ty == "nat":
        a, b = coerce(a, "nat", node), coerce(b, "nat", node)
        return "(%s == %s)" % (a.lean, b.lean)
    if all(t in ("int", "intlit") for t in tys):
        a, b = coerce(a, "int", node), coerce(b, "int", node)
        return "decide (%s = %s)" % (a.lean, b.lean)
    if "expo" in tys and all(t in ("expo", "intlit") for t in tys):
        # an exponent (int / bool / float of integral value) against an int literal: equality of the values
        return "decide (%s = %s)" % (a.lean, b.lean)
    if "val" in tys:
        a, b = coerce(a, "val", node), coerce(b, "val", node)
        return "PyVal.eq %s %s" % (a.lean, b.lean)
    if "num" in tys and all(t in ("num", "intlit") for t in tys):
        a, b = coerce(a, "num", node), coerce(b, "num", node)
        return "PyNum.eq %s %s" % (a.lean, b.lean)
    if tys == ("poly", "poly"):
        return "py_eq %s %s" % (a.lean, b.lean)
    if a.ty == "poly" and b.ty in ("num", "intlit"):
        return "py_eq_num %s %s" % (a.lean, coerce(b, "num", node).lean)
    fail(node, "== between kinds %s and %s" % tys)


def tr_expr(node, cx):
    if isinstance(node, ast.Name):
        if node.id in cx.env:
            return cx.env[node.id]
        fail(node, "unknown name %r" % node.id)
    if isinstance(node, ast.Constant):
        v = node.value
        if v is None:
            return E("none", "none")
        if v is True or v is False:
            return TRUE() if v else FALSE()
        if isinstance(v, str) and v.isidentifier():
            return E('"%s"' % v, "str", const=v)
        if isinstance(v, int):
            return E(str(v) if v >= 0 else "(%d)" % v, "intlit", lit=v)
        if isinstance(v, float) and v == v and abs(v) != float("inf"):
            q = Fraction(v)
            txt = str(q.numerator) if q.denominator == 1 else "((%d : Rat) / %d)" % (q.numerator, q.denominator)
            if q.numerator < 0 and q.denominator == 1:
                txt = "(%s)" % txt
            return E("(PyNum.float %s true)" % txt, "num")
        fail(node, "constant")
    if isinstance(node, ast.Attribute):
        if isinstance(node.value, ast.Name):
            base = node.value.id
            attr = "_zero" if node.attr == "zero" else node.attr
            if attr in ("_data", "_zero"):
                if base + "." + attr in cx.env:
                    return cx.env[base + "." + attr]
                if base in cx.env and cx.env[base].ty == "poly" and base + "._init" not in cx.env:
                    x = cx.env[base].lean
                    if attr == "_data":
                        return E("%s.data" % x, "dict")
                    # `.zero` is the property, `._zero` the attribute behind it
                    return E("(py_zero %s)" % x if node.attr == "zero" else "%s.zero" % x, "val")
            if base == "op" and node.attr == "func" and "op.func" in cx.env:
                return cx.env["op.func"]
        fail(node, "attribute")
    if isinstance(node, ast.Tuple):
        if len(node.elts) != 2:
            fail(node, "tuple that is not a pair")
        a = coerce(tr_expr(node.elts[0], cx), "int", node)
        b = coerce(tr_expr(node.elts[1], cx), "num", node)
        return E("(%s, %s)" % (a.lean, b.lean), "pair", binds=a.binds + b.binds)
    if isinstance(node, ast.List):
        es = [tr_expr(x, cx) for x in node.elts]
        if es and all(e.ty == "pair" for e in es) and not any(e.binds for e in es):
            return E("[%s]" % ", ".join(e.lean for e in es), "pairs")
        fail(node, "list literal")
    if isinstance(node, (ast.GeneratorExp, ast.ListComp)):
        return tr_comp(node, cx)
    if isinstance(node, ast.Subscript):
        k = sub_key(node)
        if k in cx.subs:
            return cx.subs[k]
        base = tr_expr(node.value, cx)
        if base.ty == "poly":
            i = coerce(tr_expr(node.slice, cx), "int", node)
            return E("(py_getitem %s %s)" % (base.lean, i.lean), "val")
        fail(node, "d[k] that is not guarded by `k in d`")
    if isinstance(node, ast.UnaryOp):
        if isinstance(node.op, ast.Not):
            e = tr_expr(node.operand, cx)
            if e.ty == "dict":
                return E("%s.isEmpty" % e.lean, "bool", binds=e.binds)      # truth value of a dictionary
            if e.ty != "bool":
                fail(node, "not of a non-boolean")
            if e.const is not None:
                return FALSE() if e.const else TRUE()
            return E("!(%s)" % e.lean, "bool", binds=e.binds)
        if isinstance(node.op, ast.USub):
            e = tr_expr(node.operand, cx)
            if e.ty == "intlit":
                return E("(%d)" % -e.lit if e.lit > 0 else str(-e.lit), "intlit", lit=-e.lit)
            if e.ty in ("int", "num"):
                return E("(-%s)" % e.lean, e.ty, binds=e.binds)
            if e.ty == "poly":
                return E("(py_neg %s)" % e.lean, "poly", binds=e.binds)
        fail(node, "unary operator")
    if isinstance(node, ast.BinOp):
        if isinstance(node.op, ast.Div):
            return tr_div(node.left, node.right, cx, node)
        if isinstance(node.op, ast.Pow):
            a, b = tr_expr(node.left, cx), tr_expr(node.right, cx)
            if a.ty in ("num", "intlit") and b.ty == "expo" and "expo.kind" in cx.env:
                t = cx.fresh()
                return E(t, "num", binds=a.binds + b.binds + [(t, "(Py.pow %s %s %s)" % (coerce(a, "num").lean, b.lean,
                                                                                       cx.env["expo.kind"].lean))])
            if a.ty == "num" and b.ty in ("int", "intlit") and not a.binds and not b.binds:
                if ("nonzero", a.lean) not in cx.facts:
                    fail(node, "number ** int where the number is not known to be != 0 (0 ** negative raises)")
                return E("(PyNum.powInt %s %s)" % (a.lean, coerce(b, "int").lean), "num")
            fail(node, "** between kinds %s and %s" % (a.ty, b.ty))
        ops = {ast.Add: "+", ast.Sub: "-", ast.Mult: "*"}
        if type(node.op) not in ops:
            fail(node, "binary operator")
        o = ops[type(node.op)]
        a, b = tr_expr(node.left, cx), tr_expr(node.right, cx)
        binds = a.binds + b.binds
        if "expo" in (a.ty, b.ty) and all(t in ("int", "intlit", "expo") for t in (a.ty, b.ty)):
            # the VALUE of the exponent arithmetic; its kind (float stays float, bool becomes int) rides on `ek`
            return E("(%s %s %s)" % (a.lean, o, b.lean), "expo", binds=binds)
        if all(t in ("int", "intlit") for t in (a.ty, b.ty)):
            a, b = coerce(a, "int"), coerce(b, "int")
            return E("(%s %s %s)" % (a.lean, o, b.lean), "int", binds=binds)
        if all(t in ("int", "intlit", "num") for t in (a.ty, b.ty)):
            a, b = coerce(a, "num"), coerce(b, "num")
            return E("(%s %s %s)" % (a.lean, o, b.lean), "num", binds=binds)
        if a.ty == "poly" and o in ("+", "*"):
            f = {"+": "py_add", "*": "py_mul"}[o]
            if b.ty == "poly":
                return E("(%s %s %s)" % (f, a.lean, b.lean), "poly", binds=binds)
            if b.ty in ("num", "intlit"):
                return E("(%s_num %s %s)" % (f, a.lean, coerce(b, "num").lean), "poly", binds=binds)
        fail(node, "%s between kinds %s and %s" % (o, a.ty, b.ty))
    if isinstance(node, ast.Compare):
        if len(node.ops) != 1:
            fail(node, "chained comparison")
        op, ln, rn = node.ops[0], node.left, node.comparators[0]
        if isinstance(op, (ast.Is, ast.IsNot)):
            if not (isinstance(rn, ast.Constant) and rn.value is None):
                fail(node, "`is` with something other than None")
            x = tr_expr(ln, cx)
            neg = isinstance(op, ast.IsNot)
            if x.ty == "optval":
                if not isinstance(ln, ast.Name):
                    fail(node, "`is None` of a non-name")
                return E("%s.isNone" % x.lean if not neg else "%s.isSome" % x.lean, "bool", isnone=(ln.id, neg))
            r = x.ty == "none"
            return TRUE() if r != neg else FALSE()
        a, b = tr_expr(ln, cx), tr_expr(rn, cx)
        binds = a.binds + b.binds
        if isinstance(op, ast.Eq) and "str" in (a.ty, b.ty):
            # a flag parameter (True / False / "auto") against a string constant: decided by the kind of the flag
            if not all(x.ty == "str" or (x.ty == "bool" and x.const is not None) for x in (a, b)):
                fail(node, "== of a string and a value that is not a decided flag")
            return TRUE() if (a.ty == b.ty and a.const == b.const) else FALSE()
        if isinstance(op, ast.Eq):
            return E(tr_eq(a, b, node), "bool", binds=binds)
        if isinstance(op, ast.NotEq):
            if (a.ty, b.ty) == ("poly", "poly"):
                return E("py_ne %s %s" % (a.lean, b.lean), "bool", binds=binds)
            return E("!(%s)" % tr_eq(a, b, node), "bool", binds=binds)
        if isinstance(op, (ast.In, ast.NotIn)):
            if b.ty != "dict":
                fail(node, "`in` of a non-dictionary")
            k = coerce(a, "int", node)
            t = "has %s %s" % (b.lean, k.lean)
            return E(t if isinstance(op, ast.In) else "!(%s)" % t, "bool", binds=binds)
        fail(node, "comparison operator")
    if isinstance(node, ast.BoolOp):
        is_and = isinstance(node.op, ast.And)
        return tr_boolop(list(node.values), is_and, cx, node)
    if isinstance(node, ast.IfExp):
        t = tr_expr(node.test, cx)
        if t.ty != "bool" or t.binds:
            fail(node, "condition")
        if t.const is not None:
            return tr_expr(node.body if t.const else node.orelse, cx)
        if t.isnone:
            name, neg = t.isnone
            c = cx.child()
            c.env[name] = E(lname(name), "val")
            yes, no = (node.orelse, node.body) if neg else (node.body, node.orelse)
            a, b = tr_expr(yes, cx), tr_expr(no, c)
            a, b = unify(a, b, node)
            if a.binds or b.binds:
                fail(node, "effect inside a conditional expression")
            return E("(match %s with | none => %s | some %s => %s)" % (cx.env[name].lean, a.lean, lname(name), b.lean), a.ty)
        a, b = tr_expr(node.body, cx), tr_expr(node.orelse, cx)
        a, b = unify(a, b, node)
        if a.binds or b.binds:
            if not cx.fx:
                fail(node, "effect inside a conditional expression")
            # only the chosen branch is evaluated: the effects stay inside their branch
            def arm(e):
                inner = "(Except.ok %s)" % e.lean
                for (t_, ex) in reversed(e.binds):
                    inner = ex if inner == "(Except.ok %s)" % t_ else "(Except.bind %s (fun %s => %s))" % (ex, t_, inner)
                return inner
            t0 = cx.fresh()
            return E(t0, a.ty, binds=[(t0, "(if %s then %s else %s)" % (t.lean, arm(a), arm(b)))])
        return E("(if %s then %s else %s)" % (t.lean, a.lean, b.lean), a.ty)
    if isinstance(node, ast.Call):
        return tr_call(node, cx)
    fail(node, "expression outside the subset")


def uses_subscript(nodes, d_node, k_node):
    key = (ast.dump(d_node), ast.dump(k_node))
    for n in nodes:
        for s in ast.walk(n):
            if isinstance(s, ast.Subscript) and isinstance(s.ctx, ast.Load) and sub_key(s) == key:
                return True
    return False


def tr_boolop(values, is_and, cx, node):
    """short-circuit `and` / `or` with constant folding; `k in d and ... d[k] ...` binds d[k]"""
    out, binds = [], []
    i = 0
    while i < len(values):
        v = values[i]
        if is_and and isinstance(v, ast.Compare) and len(v.ops) == 1 and isinstance(v.ops[0], ast.In) \
                and uses_subscript(values[i + 1:], v.comparators[0], v.left):
            d = tr_expr(v.comparators[0], cx)
            k = coerce(tr_expr(v.left, cx), "int", v)
            if d.ty != "dict":
                fail(v, "`in` of a non-dictionary")
            c = cx.child()
            c.subs[(ast.dump(v.comparators[0]), ast.dump(v.left))] = E("w", "num")
            rest = tr_boolop(values[i + 1:], True, c, node)
            if rest.binds:
                fail(node, "effect under `and`")
            out.append(E("(match find? %s %s with | some w => %s | none => false)" % (d.lean, k.lean, rest.lean), "bool"))
            break
        e = tr_expr(v, cx)
        if e.ty != "bool":
            fail(v, "operand of and / or is not a boolean")
        if e.const is not None:
            if e.const == is_and:        # neutral element
                i += 1
                continue
            if not out:
                return E(e.lean, "bool", const=e.const)      # decided before anything is evaluated
            out.append(e)
            break
        if e.binds and out:
            fail(v, "effect on the right of and / or")
        binds += e.binds
        out.append(e)
        i += 1
    if not out:
        return TRUE() if is_and else FALSE()
    if len(out) == 1:
        return E(out[0].lean, "bool", const=out[0].const, binds=binds, isnone=out[0].isnone)
    return E("(%s)" % (" && " if is_and else " || ").join(x.lean for x in out), "bool", binds=binds)


# =============================================================================================
# statements
# =============================================================================================
def terminates(stmts):
    if not stmts:
        return False
    s = stmts[-1]
    if isinstance(s, (ast.Return, ast.Raise)):
        return True
    if isinstance(s, ast.If):
        return terminates(s.body) and terminates(s.orelse)
    return False


def wrap_binds(binds, lines, ind):
    """lines (an Except value) under the effect bindings"""
    if not binds:
        return lines
    out, close = [], ""
    for (t, ex) in binds:
        out.append("%sExcept.bind %s (fun %s =>" % (ind, ex, t))
        close += ")"
    out += lines
    out[-1] += close
    return out


def finish(cx, ind, node):
    if not cx.mut:
        fail(node, "the method falls off its end")
    if "self._data" not in cx.env or "self._zero" not in cx.env:
        fail(node, "the method ends without having set _data and _zero")
    r = "⟨%s, %s⟩" % (cx.env["self._data"].lean, cx.env["self._zero"].lean)
    return [ind + ("(.ok %s)" % r if cx.fx else r)]


def branch(lines, ind):
    """parenthesised block"""
    return ["%s(" % ind] + lines + ["%s)" % ind]


def self_target(t):
    return isinstance(t, ast.Attribute) and is_name(t.value, "self") and t.attr in ("_data", "_zero")


def dict_of_subscript_target(t, cx):
    """`D[k]` as an assignment / del target -> (pseudo name or python name of D, E of D, E of k)"""
    if not isinstance(t, ast.Subscript):
        return None
    if is_attr(t.value, "self", "_data") and cx.mut:
        nm = "self._data"
    elif isinstance(t.value, ast.Name) and t.value.id in cx.env and cx.env[t.value.id].ty == "dict":
        nm = t.value.id
    else:
        return None
    if nm not in cx.env:
        fail(t, "assignment into a dictionary that does not exist yet")
    return nm, cx.env[nm], coerce(tr_expr(t.slice, cx), "int", t)


def let_name(nm, cx):
    return {"self._data": "self_data", "self._zero": "self_zero"}.get(nm) or cx.local(nm)


def accum_idiom(s, cx):
    """`if K in D: D[K] += V else: D[K] = V` -> (name of D, lean of `accum D K V`)"""
    if not (isinstance(s, ast.If) and len(s.body) == 1 and len(s.orelse) == 1):
        return None
    t, a, b = s.test, s.body[0], s.orelse[0]
    if not (isinstance(t, ast.Compare) and len(t.ops) == 1 and isinstance(t.ops[0], ast.In)):
        return None
    if not (isinstance(a, ast.AugAssign) and isinstance(a.op, ast.Add) and isinstance(b, ast.Assign) and len(b.targets) == 1):
        return None
    ta, tb = a.target, b.targets[0]
    if not (isinstance(ta, ast.Subscript) and isinstance(tb, ast.Subscript)):
        return None
    d, k = ast.dump(t.comparators[0]), ast.dump(t.left)
    if not (ast.dump(ta.value) == d == ast.dump(tb.value) and ast.dump(ta.slice) == k == ast.dump(tb.slice)):
        return None
    if ast.dump(a.value) != ast.dump(b.value):
        return None
    tgt = dict_of_subscript_target(tb, cx)
    if tgt is None:
        return None
    nm, D, K = tgt
    V = coerce(tr_expr(b.value, cx), "num", s)
    if V.binds or K.binds:
        fail(s, "effect inside the accumulate idiom")
    return nm, "accum %s %s %s" % (D.lean, K.lean, V.lean)


def tr_state(stmts, cx, node):
    """a loop body that updates exactly one dictionary -> (name of the dictionary, lean text of its new value)"""
    if len(stmts) != 1:
        fail(node, "loop body with more than one statement")
    s = stmts[0]
    acc = accum_idiom(s, cx)
    if acc:
        return acc
    if isinstance(s, ast.For) and not s.orelse:
        src = tr_source(s.iter, cx)
        lam = lam_name(cx, s.target)
        c = bind_pair_target(s.target, lam, cx)
        nm, body = tr_state(s.body, c, s)
        D = cx.env[nm]
        return nm, "%s.foldl (fun %s %s => %s) %s" % (src.lean, D.lean, lam, body, D.lean)
    if isinstance(s, ast.Assign) and len(s.targets) == 1:
        tgt = dict_of_subscript_target(s.targets[0], cx)
        if tgt:
            nm, D, K = tgt
            V = coerce(tr_expr(s.value, cx), "num", s)
            if V.binds:
                fail(s, "effect inside a loop")
            return nm, "ALV.C07.set %s %s %s" % (D.lean, K.lean, V.lean)
    fail(s, "loop body outside the subset")


def tr_block(stmts, cx, ind, node):
    if not stmts:
        return finish(cx, ind, node)
    s, rest = stmts[0], list(stmts[1:])
    if isinstance(s, ast.Expr) and isinstance(s.value, ast.Constant) and isinstance(s.value.value, str):
        return tr_block(rest, cx, ind, node)
    if isinstance(s, ast.FunctionDef):
        if s.decorator_list:
            fail(s, "decorated nested def")
        c = cx.child()
        c.funcs[s.name] = s
        return tr_block(rest, c, ind, node)
    if isinstance(s, ast.Return):
        if s.value is None:
            return finish(cx, ind, s)
        if cx.mut:
            fail(s, "a mutating method returns a value")
        e = coerce(tr_expr(s.value, cx), cx.ret, s)
        if e.binds and not cx.fx:
            fail(s, "an operation that may raise inside a method the model has as total")
        if cx.fx:
            return wrap_binds(e.binds, ["%s(.ok %s)" % (ind, e.lean)], ind)
        return [ind + e.lean]
    if isinstance(s, ast.Raise):
        if not cx.fx:
            fail(s, "raise inside a method the model has as total")
        exc = s.exc
        name = exc.func.id if isinstance(exc, ast.Call) and isinstance(exc.func, ast.Name) else \
            exc.id if isinstance(exc, ast.Name) else None
        if name not in ERRORS or s.cause is not None:
            fail(s, "raise of an exception outside the vocabulary")
        return ["%s(.error %s)" % (ind, ERRORS[name])]
    if isinstance(s, ast.Assign):
        if len(s.targets) != 1:
            fail(s, "chained assignment")
        t = s.targets[0]
        c = cx.child()
        if isinstance(t, ast.Name):
            e = tr_expr(s.value, cx)
            if e.ty == "intlit":
                c.env[t.id] = e
                return tr_block(rest, c, ind, node)
            if e.ty == "bool" and e.const is not None:
                fail(s, "assignment of a decided condition")
            if e.binds and not cx.fx:
                fail(s, "an operation that may raise inside a method the model has as total")
            n = cx.local(t.id)
            c.env[t.id] = E(n, e.ty)
            for k in [k for k in c.env if k.startswith(t.id + ".")]:
                del c.env[k]
            if isinstance(s.value, ast.Call) and is_name(s.value.func, "thub") and len(s.value.args) == 2 and \
                    is_name(s.value.args[0], t.id) and t.id in cx.env and ("nonzero", cx.env[t.id].lean) in cx.facts:
                c.facts.add(("nonzero", n))          # thub of a number is the number
            if e.ty == "pairs" and e.lean.startswith("(sortDesc ") and ("nonempty", e.lean[len("(sortDesc "):-1]) in cx.facts:
                c.facts.add(("nonempty", n))         # sorting keeps the length
            return wrap_binds(e.binds, ["%slet %s := %s" % (ind, n, e.lean)] + tr_block(rest, c, ind, node), ind)
        if isinstance(t, ast.Tuple) and len(t.elts) == 2 and all(isinstance(x, ast.Name) for x in t.elts):
            e = tr_expr(s.value, cx)
            if e.ty != "pair" or e.binds:
                fail(s, "unpacking of something that is not a (power, coefficient) pair")
            pre, src_ = [], e.lean
            if "\n" in src_:
                src_ = cx.fresh()
                pre = ["%slet %s := %s" % (ind, src_, e.lean)]
            a, b = cx.local(t.elts[0].id), cx.local(t.elts[1].id)
            c.env[t.elts[0].id] = E(a, "int")
            c.env[t.elts[1].id] = E(b, "num")
            return pre + ["%slet %s := %s.1" % (ind, a, src_), "%slet %s := %s.2" % (ind, b, src_)] + tr_block(rest, c, ind, node)
        if self_target(t) and cx.mut:
            nm = "self." + t.attr
            e = coerce(tr_expr(s.value, cx), "dict" if t.attr == "_data" else "val", s)
            if e.binds:
                fail(s, "effect in an attribute assignment")
            n = let_name(nm, cx)
            c.env[nm] = E(n, e.ty)
            return ["%slet %s := %s" % (ind, n, e.lean)] + tr_block(rest, c, ind, node)
        tgt = dict_of_subscript_target(t, cx)
        if tgt:
            nm, D, K = tgt
            V = coerce(tr_expr(s.value, cx), "num", s)
            if V.binds or K.binds:
                fail(s, "effect in an item assignment")
            n = let_name(nm, cx)
            c.env[nm] = E(n, "dict")
            return ["%slet %s := ALV.C07.set %s %s %s" % (ind, n, D.lean, K.lean, V.lean)] + tr_block(rest, c, ind, node)
        fail(s, "assignment target")
    if isinstance(s, ast.Delete):
        if len(s.targets) != 1:
            fail(s, "del of several targets")
        tgt = dict_of_subscript_target(s.targets[0], cx)
        if not tgt:
            fail(s, "del target")
        nm, D, K = tgt
        c = cx.child()
        n = let_name(nm, cx)
        c.env[nm] = E(n, "dict")
        return ["%slet %s := del %s %s" % (ind, n, D.lean, K.lean)] + tr_block(rest, c, ind, node)
    if isinstance(s, ast.Try):
        # try: X = self.terms(sort=True, reverse=True) / except TypeError: raise ... -- integer powers are always sortable,
        # so the handler is dead under the typing of the model
        if not (len(s.body) == 1 and isinstance(s.body[0], ast.Assign) and not s.orelse and not s.finalbody
                and len(s.handlers) == 1 and is_name(s.handlers[0].type, "TypeError") and s.handlers[0].name is None
                and len(s.handlers[0].body) == 1 and isinstance(s.handlers[0].body[0], ast.Raise)
                and isinstance(s.body[0].value, ast.Call) and is_attr(s.body[0].value.func, "self", "terms")):
            fail(s, "try statement that is not `try: X = self.terms(...) except TypeError: raise ...`")
        return tr_block([s.body[0]] + rest, cx, ind, node)
    if isinstance(s, ast.If):
        return tr_if(s, rest, cx, ind, node)
    if isinstance(s, ast.For):
        return tr_for(s, rest, cx, ind, node)
    fail(s, "statement outside the subset")


def tr_if(s, rest, cx, ind, node):
    test = s.test
    # `if K in D:` whose body reads D[K]  ->  match find? D K
    if isinstance(test, ast.Compare) and len(test.ops) == 1 and isinstance(test.ops[0], ast.In) \
            and uses_subscript(s.body, test.comparators[0], test.left):
        d = tr_expr(test.comparators[0], cx)
        k = coerce(tr_expr(test.left, cx), "int", test)
        if d.ty != "dict":
            fail(test, "`in` of a non-dictionary")
        c = cx.child()
        c.subs[(ast.dump(test.comparators[0]), ast.dump(test.left))] = E("w", "num")
        yes = tr_block(list(s.body) + ([] if terminates(s.body) else rest), c, ind + "    ", node)
        no = tr_block(list(s.orelse) + rest, cx, ind + "    ", node)
        return (["%smatch find? %s %s with" % (ind, d.lean, k.lean), "%s| some w =>" % ind] + branch(yes, ind + "  ")
                + ["%s| none =>" % ind] + branch(no, ind + "  "))
    t = tr_expr(test, cx)
    if t.ty != "bool" or t.binds:
        fail(s, "condition")
    if t.const is True:
        return tr_block(list(s.body) + ([] if terminates(s.body) else rest), cx, ind, node)
    if t.const is False:
        return tr_block(list(s.orelse) + rest, cx, ind, node)
    body_rest = list(s.body) + ([] if terminates(s.body) else rest)
    else_rest = list(s.orelse) + ([] if (s.orelse and terminates(s.orelse)) else rest)
    if t.isnone:
        name, neg = t.isnone
        c = cx.child()
        c.env[name] = E(lname(name), "val")
        yes_s, no_s = (else_rest, body_rest) if neg else (body_rest, else_rest)
        yes = tr_block(yes_s, cx, ind + "    ", node)
        no = tr_block(no_s, c, ind + "    ", node)
        return (["%smatch %s with" % (ind, cx.env[name].lean), "%s| none =>" % ind] + branch(yes, ind + "  ")
                + ["%s| some %s =>" % (ind, lname(name))] + branch(no, ind + "  "))
    c = cx.child()
    # a fact the body may rely on: len(d) == 1
    if isinstance(test, ast.Compare) and len(test.ops) == 1 and isinstance(test.ops[0], ast.Eq) and \
            isinstance(test.comparators[0], ast.Constant) and test.comparators[0].value == 1 and \
            isinstance(test.left, ast.Call) and is_name(test.left.func, "len") and len(test.left.args) == 1:
        x = tr_expr(test.left.args[0], cx)
        c.facts.add(("len1", x.lean + ".data" if x.ty == "poly" else x.lean))
    cn = cx
    if terminates(s.body) and not s.orelse:
        # facts the REST may rely on once the guarded return did not happen: x != 0, D not empty
        cn = cx.child()
        if isinstance(test, ast.Compare) and len(test.ops) == 1 and isinstance(test.ops[0], ast.Eq) and \
                isinstance(test.comparators[0], ast.Constant) and test.comparators[0].value == 0 and \
                type(test.comparators[0].value) is int and isinstance(test.left, ast.Name):
            x = tr_expr(test.left, cx)
            if x.ty == "num":
                cn.facts.add(("nonzero", x.lean))
        if isinstance(test, ast.UnaryOp) and isinstance(test.op, ast.Not):
            x = tr_expr(test.operand, cx)
            if x.ty == "dict":
                cn.facts.add(("nonempty", x.lean))
    yes = tr_block(body_rest, c, ind + "  ", node)
    no = tr_block(else_rest, cn, ind + "  ", node)
    return ["%sif %s then (" % (ind, t.lean)] + yes + ["%s) else (" % ind] + no + ["%s)" % ind]


def tr_for(s, rest, cx, ind, node):
    if s.orelse:
        fail(s, "for ... else")
    it_ = s.iter
    # for _ in xrange(n): d = f(d)
    if isinstance(it_, ast.Call) and is_name(it_.func, "xrange", "range") and len(it_.args) == 1 and not it_.keywords:
        n = coerce(tr_expr(it_.args[0], cx), "nat", s)
        if not (isinstance(s.target, ast.Name) and len(s.body) == 1 and isinstance(s.body[0], ast.Assign)
                and len(s.body[0].targets) == 1 and isinstance(s.body[0].targets[0], ast.Name)):
            fail(s, "counted loop shape")
        var = s.body[0].targets[0].id
        if var == s.target.id or var not in cx.env or cx.env[var].ty != "dict":
            fail(s, "counted loop does not update one dictionary variable")
        if any(isinstance(x, ast.Name) and x.id == s.target.id for x in ast.walk(s.body[0].value)):
            fail(s, "counted loop uses its counter")
        c = cx.child()
        v = cx.local(var)
        c.env[var] = E(v, "dict")
        e = coerce(tr_expr(s.body[0].value, c), "dict", s)
        if e.binds:
            fail(s, "effect inside a counted loop")
        c2 = cx.child()
        c2.env[var] = E(v, "dict")
        return ["%slet %s := iter (fun %s => %s) %s %s" % (ind, v, v, e.lean, n.lean, cx.env[var].lean)] + \
            tr_block(rest, c2, ind, node)
    # for k, v in list(iteritems(D)): if C: del D[k]      (the snapshot makes deleting while iterating legal)
    if isinstance(it_, ast.Call) and is_name(it_.func, "list") and len(it_.args) == 1 and \
            isinstance(it_.args[0], ast.Call) and is_name(it_.args[0].func, "iteritems") and len(it_.args[0].args) == 1:
        d_node = it_.args[0].args[0]
        src = tr_source(it_, cx)
        lam = lam_name(cx, s.target)
        c = bind_pair_target(s.target, lam, cx)
        conds = []
        for b in s.body:
            if not (isinstance(b, ast.If) and not b.orelse):
                fail(b, "compaction loop: statement that is not `if C: del D[k]`")
            t = tr_expr(b.test, c)
            if t.ty != "bool" or t.binds:
                fail(b, "condition")
            if t.const is False:
                continue                  # dead in the model (float powers, Stream coefficients)
            if t.const is True or conds:
                fail(b, "compaction loop: more than one live deletion / an unconditional one")
            if not (len(b.body) == 1 and isinstance(b.body[0], ast.Delete) and len(b.body[0].targets) == 1):
                fail(b, "compaction loop: body is not one del")
            tg = b.body[0].targets[0]
            if not (isinstance(tg, ast.Subscript) and ast.dump(tg.value) == ast.dump(d_node)
                    and is_name(tg.slice, s.target.elts[0].id)):
                fail(b, "compaction loop: del of something other than the visited item")
            conds.append(t)
        tgt = dict_of_subscript_target(ast.Subscript(value=d_node, slice=ast.Constant(value=0), ctx=ast.Del()), cx)
        if not tgt:
            fail(s, "compaction loop over something that is not the instance's dictionary")
        nm = tgt[0]
        if not conds:
            return tr_block(rest, cx, ind, node)
        c2 = cx.child()
        n = let_name(nm, cx)
        c2.env[nm] = E(n, "dict")
        return ["%slet %s := %s.filter (fun %s => !(%s))" % (ind, n, src.lean, lam, conds[0].lean)] + tr_block(rest, c2, ind, node)
    # nested accumulation loops over lists of pairs
    nm, val = tr_state([s], cx, s)
    c = cx.child()
    n = let_name(nm, cx)
    c.env[nm] = E(n, "dict")
    return ["%slet %s := %s" % (ind, n, val)] + tr_block(rest, c, ind, node)


# =============================================================================================
# methods
# =============================================================================================
def find_class(tree, name):
    for n in tree.body:
        if isinstance(n, ast.ClassDef) and n.name == name:
            return n
    raise TranslationError("class %s not found" % name)


def find_methods(cls, name):
    return [n for n in cls.body if isinstance(n, ast.FunctionDef) and n.name == name]


def the_method(cls, name, decorator=None):
    ms = find_methods(cls, name)
    if decorator is not None:
        ms = [m for m in ms if [ast.unparse(d) for d in m.decorator_list] == [decorator]]
    elif name != "zero":
        ms = [m for m in ms if not m.decorator_list] if len(ms) > 1 else ms
        if ms and ms[0].decorator_list:
            raise TranslationError("%s.%s is decorated" % (cls.name, name))
    if len(ms) != 1:
        raise TranslationError("%s.%s: %d definitions" % (cls.name, name, len(ms)))
    return ms[0]


def check_sig(fn, names, defaults):
    a = fn.args
    if a.vararg or a.kwarg or a.kwonlyargs or getattr(a, "posonlyargs", None):
        raise TranslationError("%s: */**/keyword-only parameters" % fn.name)
    got = [p.arg for p in a.args]
    if got != names:
        raise TranslationError("%s: parameters %r, expected %r" % (fn.name, got, names))
    dfl = [ast.unparse(d) for d in a.defaults]
    if dfl != defaults:
        raise TranslationError("%s: defaults %r, expected %r" % (fn.name, dfl, defaults))


def emit(name, params, ret, fx, lines, doc):
    sig = " ".join("(%s : %s)" % (n, t) for n, t in params)
    rt = LEAN_TY[ret]
    if fx:
        rt = "Except PyErr %s" % rt
    return "/-- %s -/\ndef %s %s : %s :=\n%s\n" % (doc, name, sig, rt, "\n".join(lines))


def base_cx(ret, fx=False, mut=False, self_fields=True):
    cx = Cx()
    cx.ret, cx.fx, cx.mut = ret, fx, mut
    cx.env["self"] = E("self", "poly")
    if mut and self_fields:
        cx.env["self._data"] = E("self.data", "dict")
        cx.env["self._zero"] = E("self.zero", "val")
    return cx


def translate(src):
    tree = ast.parse(src)
    poly = find_class(tree, "Poly")
    meta = find_class(tree, "PolyMeta")
    out = []

    # --- PolyMeta.__operators__ --------------------------------------------------------------
    ops = None
    for n in meta.body:
        if isinstance(n, ast.Assign) and len(n.targets) == 1 and is_name(n.targets[0], "__operators__"):
            try:
                ops = ast.literal_eval(n.value)
            except Exception:
                raise TranslationError("PolyMeta.__operators__ is not a literal")
    if not isinstance(ops, str) or not all(c.isalnum() or c in "+-* " for c in ops):
        raise TranslationError("PolyMeta.__operators__ is not a string of operator names")
    out.append("/-- `PolyMeta.__operators__` (the dunders the metaclass wires: unary / reflected ones through "
               "`__unary__` / `__rbinary__`) -/\ndef operators : List String := [%s]\n"
               % ", ".join('"%s"' % w for w in ops.split()))

    # --- Poly.__init__ : one arm per kind of `data` -------------------------------------------
    fn = the_method(poly, "__init__")
    check_sig(fn, ["self", "data", "zero"], ["None", "None"])
    arms = []
    for ctor, ty in (("list", "numlist"), ("dict", "pairs"), ("poly", "poly"), ("none", "none"), ("num", "num")):
        cx = base_cx(None, mut=True, self_fields=False)
        cx.env["self._init"] = E("", "marker")        # `self` has no attributes before they are assigned
        cx.env["zero"] = E("zero", "optval")
        cx.env["data"] = E("none", "none") if ty == "none" else E("data", ty)
        body = tr_block(fn.body, cx, "      ", fn)
        arms += ["  | .%s%s => (" % (ctor, "" if ty == "none" else " data")] + body + ["    )"]
    out.append(emit("py_init", [("data", "InitData"), ("zero", "Option PyVal")], "poly", False,
                    ["  match data with"] + arms,
                    "`Poly.__init__(self, data=None, zero=None)`: the resulting instance, per kind of `data`"))

    # --- the `zero` property ------------------------------------------------------------------
    fn = the_method(poly, "zero", "property")
    check_sig(fn, ["self"], [])
    cx = base_cx("val")
    out.append(emit("py_zero", [("self", "ZPoly")], "val", False, tr_block(fn.body, cx, "  ", fn), "`Poly.zero` (getter)"))
    fn = the_method(poly, "zero", "zero.setter")
    check_sig(fn, ["self", "value"], [])
    cx = base_cx(None, fx=True, mut=True)
    cx.env["hashed"] = E("hashed", "bool")
    cx.env["value"] = E("value", "val")
    out.append(emit("py_zero_set", [("hashed", "Bool"), ("self", "ZPoly"), ("value", "PyVal")], "poly", True,
                    tr_block(fn.body, cx, "  ", fn),
                    "`Poly.zero = value` (setter); `hashed` = the instance has the attribute `_hash`"))

    # --- __len__, __getitem__, __setitem__ ---------------------------------------------------------
    fn = the_method(poly, "__len__")
    check_sig(fn, ["self"], [])
    out.append(emit("py_len", [("self", "ZPoly")], "nat", False, tr_block(fn.body, base_cx("nat"), "  ", fn), "`Poly.__len__`"))
    fn = the_method(poly, "__getitem__")
    check_sig(fn, ["self", "item"], [])
    cx = base_cx("val")
    cx.env["item"] = E("item", "int")
    out.append(emit("py_getitem", [("self", "ZPoly"), ("item", "Int")], "val", False, tr_block(fn.body, cx, "  ", fn),
                    "`Poly.__getitem__`"))
    fn = the_method(poly, "__setitem__")
    check_sig(fn, ["self", "power", "coeff"], [])
    cx = base_cx(None, fx=True, mut=True)
    cx.env["hashed"] = E("hashed", "bool")
    cx.env["power"] = E("power", "int")
    cx.env["coeff"] = E("coeff", "num")
    out.append(emit("py_setitem", [("hashed", "Bool"), ("self", "ZPoly"), ("power", "Int"), ("coeff", "PyNum")], "poly", True,
                    tr_block(fn.body, cx, "  ", fn), "`Poly.__setitem__`: the instance afterwards"))

    # --- copy, diff, integrate ---------------------------------------------------------------------
    fn = the_method(poly, "copy")
    check_sig(fn, ["self", "zero"], ["None"])
    cx = base_cx("poly")
    cx.env["zero"] = E("zero", "optval")
    out.append(emit("py_copy", [("self", "ZPoly"), ("zero", "Option PyVal")], "poly", False, tr_block(fn.body, cx, "  ", fn),
                    "`Poly.copy(zero=None)`"))
    fn = the_method(poly, "diff")
    check_sig(fn, ["self", "n"], ["1"])
    cx = base_cx("poly")
    cx.env["n"] = E("n", "nat")
    out.append(emit("py_diff", [("self", "ZPoly"), ("n", "Nat")], "poly", False, tr_block(fn.body, cx, "  ", fn),
                    "`Poly.diff(n=1)`"))
    fn = the_method(poly, "integrate")
    check_sig(fn, ["self"], [])
    out.append(emit("py_integrate", [("self", "ZPoly")], "poly", True, tr_block(fn.body, base_cx("poly", fx=True), "  ", fn),
                    "`Poly.integrate()`"))

    # --- the metaclass: unary and reflected operators ---------------------------------------------------
    for mname, gname, fty, pars, doc in (
            ("__unary__", "py_unary", "fn_num", [("self", "ZPoly")], "`PolyMeta.__unary__(cls, op)`: the dunder it returns"),
            ("__rbinary__", "py_rbinary", "fn_poly2", [("self", "ZPoly"), ("other", "PyNum")],
             "`PolyMeta.__rbinary__(cls, op)`: the dunder it returns (`other` a number)")):
        fn = the_method(meta, mname)
        check_sig(fn, ["cls", "op"], [])
        body = [b for b in fn.body if not (isinstance(b, ast.Expr) and isinstance(b.value, ast.Constant))]
        if not (len(body) == 3 and isinstance(body[0], ast.Assign) and len(body[0].targets) == 1
                and is_name(body[0].targets[0], "op_func") and is_attr(body[0].value, "op", "func")
                and isinstance(body[1], ast.FunctionDef) and not body[1].decorator_list
                and isinstance(body[2], ast.Return) and is_name(body[2].value, body[1].name)):
            raise TranslationError("PolyMeta.%s: not `op_func = op.func; def dunder(...): ...; return dunder`" % mname)
        d = body[1]
        check_sig(d, [p for p, _ in pars], [])
        cx = base_cx("poly")
        cx.env["cls"] = E("", "marker")
        cx.env["op_func"] = E("op_func", fty)
        if len(pars) == 2:
            cx.env["other"] = E("other", "num")
        out.append(emit(gname, [("op_func", LEAN_TY[fty])] + pars, "poly", False, tr_block(d.body, cx, "  ", d), doc))
    if "-" not in ops.split() or "+" not in ops.split():
        raise TranslationError("PolyMeta.__operators__ lacks + / -")
    out.append("/-- `-p`: `__neg__ = PolyMeta.__unary__(operator.neg)` -/\ndef py_neg (self : ZPoly) : ZPoly := "
               "py_unary (fun v => -v) self\n")

    # --- binary operators: once for a Poly, once for a number on the right --------------------------
    for mname, gname, ret, doc in (("__add__", "py_add", "poly", "`Poly.__add__`"),
                                   ("__sub__", "py_sub", "poly", "`Poly.__sub__`"),
                                   ("__mul__", "py_mul", "poly", "`Poly.__mul__`"),
                                   ("__eq__", "py_eq", "bool", "`Poly.__eq__`"),
                                   ("__ne__", "py_ne", "bool", "`Poly.__ne__`")):
        fn = the_method(poly, mname)
        check_sig(fn, ["self", "other"], [])
        for oty, suffix, what in (("poly", "", "other a Poly"), ("num", "_num", "other a number")):
            cx = base_cx(ret)
            cx.env["other"] = E("other", oty)
            out.append(emit(gname + suffix, [("self", "ZPoly"), ("other", LEAN_TY[oty])], ret, False,
                            tr_block(fn.body, cx, "  ", fn), "%s, %s" % (doc, what)))
    fn = the_method(poly, "__truediv__")
    check_sig(fn, ["self", "other"], [])
    for oty, suffix, what in (("poly", "", "other a Poly"), ("num", "_num", "other a number")):
        cx = base_cx("poly", fx=True)
        cx.env["other"] = E("other", oty)
        out.append(emit("py_truediv" + suffix, [("self", "ZPoly"), ("other", LEAN_TY[oty])], "poly", True,
                        tr_block(fn.body, cx, "  ", fn), "`Poly.__truediv__`, %s" % what))

    # --- __pow__ with a number exponent (value `other`, kind `ek`); the Poly-exponent prologue is decided away ------
    fn = the_method(poly, "__pow__")
    check_sig(fn, ["self", "other"], [])
    cx = base_cx("polyref", fx=True)
    cx.env["other"] = E("other", "expo")
    cx.env["expo.kind"] = E("ek", "marker")
    out.append(emit("py_pow", [("self", "ZPoly"), ("other", "Int"), ("ek", "ExpKind")], "polyref", True,
                    tr_block(fn.body, cx, "  ", fn),
                    "`Poly.__pow__`, other a number of integral value `other` and kind `ek` (int / bool / float); "
                    "`none` = the object `self` itself"))

    # --- __call__ on a number: one definition per kind of the flag `horner` --------------------------------
    fn = the_method(poly, "__call__")
    check_sig(fn, ["self", "value", "horner"], ["'auto'"])
    arms = []
    for ctor, flag in (("auto", E('"auto"', "str", const="auto")), ("yes", TRUE()), ("no", FALSE())):
        cx = base_cx("val")
        cx.env["value"] = E("value", "num")
        cx.env["horner"] = flag
        arms += ["  | .%s => (" % ctor] + tr_block(fn.body, cx, "      ", fn) + ["    )"]
    out.append(emit("py_call", [("self", "ZPoly"), ("value", "PyNum"), ("horner", "Horner")], "val", False,
                    ["  match horner with"] + arms,
                    "`Poly.__call__(value, horner)` for a number `value`, per kind of the flag (\"auto\" / True / False)"))

    head = ["/- GENERATED by harness/props/c07_tr.py from audiolazy/lazy_poly.py (method bodies of `Poly` / `PolyMeta` read with",
            "   `ast`, translated statement by statement into the vocabulary of ALV/Model/C07Zero.lean + ALV/Model/C07Src.lean).",
            "   Do not edit: rewritten on every check.  `ALV.Props.C07.src_*_is_model` prove these definitions equal to the",
            "   hand-written model functions. -/",
            "import ALV.Model.C07Src", "set_option linter.unusedVariables false", "namespace ALV.Gen.C07", "open ALV.C07", ""]
    return "\n".join(head) + "\n".join(out) + "\nend ALV.Gen.C07\n"


TRANSLATED = [
    "Poly.__init__ (list / dict / Poly / None / number; compaction loop)", "Poly.zero getter and setter", "Poly.__len__",
    "Poly.__getitem__", "Poly.__setitem__", "Poly.copy", "Poly.diff", "Poly.integrate", "PolyMeta.__unary__ (-p, +p)",
    "PolyMeta.__rbinary__ (c + p, c - p, c * p)", "PolyMeta.__operators__", "Poly.__add__", "Poly.__sub__", "Poly.__mul__",
    "Poly.__eq__", "Poly.__ne__", "Poly.__truediv__",
    "Poly.__pow__ (number exponent: int / bool / float of integral value; exponent 0, empty, one term, reduce over copies)",
    "Poly.__call__ (number value; horner = 'auto' / True / False: empty, value == 0, Horner-like scheme with its closure, direct sum)",
]


def regenerate(eng=None):
    """Rewrite lean/ALV/Gen/C07Src.lean from the repo under test; on a translation failure the last COMMITTED file is put
    back (so that the build speaks about the last translatable state) and the error propagates (= broken obligation)."""
    path = os.path.join(common.LEAN, GEN_REL)
    try:
        text = translate(read_source())
    except Exception:
        try:
            import subprocess
            good = subprocess.run(["git", "-C", common.VERIF, "show", "HEAD:lean/" + GEN_REL.replace(os.sep, "/")],
                                  capture_output=True, text=True, timeout=30)
            if good.returncode == 0 and good.stdout and (not os.path.exists(path) or open(path).read() != good.stdout):
                with open(path, "w") as f:
                    f.write(good.stdout)
        except Exception:
            pass
        raise
    old = open(path).read() if os.path.exists(path) else None
    if old != text:
        os.makedirs(os.path.dirname(path), exist_ok=True)
        with open(path, "w") as f:
            f.write(text)
        return "rewritten (%d bytes)" % len(text)
    return "unchanged (%d bytes)" % len(text)


NOT_TRANSLATED = {
    "Poly.__pow__ with a Poly exponent": "the prologue `if isinstance(other, Poly): ... other = other[0]` re-types `other` from an "
                                         "instance to a coefficient OR the zero (any value); the model `powPolyZ` reads it through "
                                         "`getZ` and a classification of the number: tied by sampling only",
    "Poly.__call__ with a Poly value": "`Poly(sum(coeff * value ** power ...), self.zero)`: a sum of instances built by the reflected "
                                       "operators (`0 + term`), each `value ** power` through __pow__'s alias marker; the model "
                                       "`composeZ` is tied by sampling (and `erase_compose` relates it to the field model)",
    "Poly.__hash__": "`hash((frozenset(items), zero))`: the model abstracts CPython's frozenset / tuple hash (TRUSTED)",
    "Poly.values / terms / is_polynomial / is_laurent / order": "generators and `sorted` / `max`; tied by sampling only",
    "lagrange.func / lagrange.poly": "`zip(*pairs)`, nested closures, a lambda applied to a duck-typed argument (number or Poly)",
    "Poly.__str__, Poly.roots": "outside the property",
}

THEOREMS = ["src_init_is_model", "src_zero_is_model", "src_zero_set_is_model", "src_len_is_model", "src_getitem_is_model",
            "src_setitem_is_model", "src_copy_is_model", "src_diff_is_model", "src_integrate_is_model", "src_unary_is_model",
            "src_rbinary_is_model", "src_operators_is_model", "src_add_is_model", "src_sub_is_model", "src_mul_is_model",
            "src_scalar_is_model", "src_eq_is_model", "src_eq_num_is_model", "src_ne_is_model", "src_truediv_is_model",
            "src_truediv_num_is_model", "src_pow_is_model", "src_call_is_model"]

# deliberate edits of the (normalised: `ast.unparse`) source text; each must change the translation or be refused
SELFTEST_EDITS = [
    ("diff: swap a comparison", "for k, v in iteritems(d) if k != 0)", "for k, v in iteritems(d) if k == 0)"),
    ("diff: change a constant", "OrderedDict(((k - 1, k * v) for", "OrderedDict(((k - 2, k * v) for"),
    ("__init__: default zero 0. -> 0", "self._zero = 0.0 if zero is None else zero", "self._zero = 0 if zero is None else zero"),
    ("__mul__: drop a thub", "[(k, thub(v, len(other._data))) for", "[(k, v) for"),
    ("__mul__: swap the two statements of the accumulate", "new_data[k1 + k2] += v1 * v2\n                else:\n"
     "                    new_data[k1 + k2] = v1 * v2", "new_data[k1 + k2] = v1 * v2\n                else:\n"
     "                    new_data[k1 + k2] += v1 * v2"),
    ("zero setter: assign the zero after the compaction loop (reorder)", None, None),
    ("__add__: result does not inherit the zero", "iteritems(other._data), intersect)), zero=self.zero)",
     "iteritems(other._data), intersect)))"),
    ("__add__: union instead of intersection", "set(self._data).intersection(other._data)", "set(self._data).union(other._data)"),
    ("__eq__: the number is wrapped with the default zero", "other = Poly(other, zero=self.zero)", "other = Poly(other)"),
    ("__ne__: compares the dictionaries", "return not self == other", "return self._data != other._data"),
    ("__setitem__: the zero test is dropped", "if isinstance(coeff, Stream) or coeff != self.zero:", "if isinstance(coeff, Stream) or coeff != 0:"),
    ("integrate: guard on the wrong power", "if -1 in self._data:", "if 1 in self._data:"),
    ("__truediv__: shifts the powers the wrong way", "((k - delta, operator.truediv(v, value))", "((k + delta, operator.truediv(v, value))"),
    ("__pow__: exponent 1 answers the constant", "if other == 0:\n            return Poly(1, zero=self.zero)",
     "if other == 1:\n            return Poly(1, zero=self.zero)"),
    ("__pow__: the `v == 1` shortcut is dropped", "1 if v == 1 else v ** other", "v ** other"),
    ("__pow__: powers added instead of multiplied", "((k * other, 1 if v == 1", "((k + other, 1 if v == 1"),
    ("__pow__: one factor too many", "[self.copy()] * (other - 1) + [self]", "[self.copy()] * other + [self]"),
    ("__call__: Horner step merges powers off by one", "scale = value if opower == npower + 1 else value ** (opower - npower)",
     "scale = value if opower == npower + 2 else value ** (opower - npower)"),
    ("__call__: the final power of the Horner scheme is lost", "return result * value ** last_power", "return result"),
    ("__call__: the shortcut tests value == 1", "if value == 0:", "if value == 1:"),
    ("__call__: Horner step adds in the wrong place", "return (npower, ncoeff + oresult * scale)", "return (npower, (ncoeff + oresult) * scale)"),
    ("__call__: Horner scheme over ascending powers", "pairs = self.terms(sort=True, reverse=True)", "pairs = self.terms(sort=True, reverse=False)"),
    ("__pow__: the last factor is a copy too", "[self.copy()] * (other - 1) + [self])", "[self.copy()] * (other - 1) + [self.copy()])"),
]


def _reorder_zero_setter(text):
    a = "        self._zero = value\n"
    i = text.find(a)
    j = text.find("    def __hash__", i)
    if i < 0 or j < 0:
        return None
    return text[:i] + text[i + len(a):j] + a + text[j:]


def committed_text():
    import subprocess
    r = subprocess.run(["git", "-C", common.VERIF, "show", "HEAD:lean/" + GEN_REL.replace(os.sep, "/")],
                       capture_output=True, text=True, timeout=30)
    return r.stdout if r.returncode == 0 else None


def selftest():
    """-> (ok, detail, report)"""
    src = read_source()
    report = {"edits": {}}
    try:
        base = translate(src)
    except Exception as e:
        return False, "the source under test does not translate: %s" % e, report
    norm = ast.unparse(ast.parse(src))
    try:
        same = translate(norm) == base
    except Exception as e:
        return False, "normalised source does not translate: %s" % e, report
    bad = []
    if not same:
        bad.append("translation depends on layout / comments")
    com = committed_text()
    report["reproduces_committed_file"] = (com == base)
    if com != base:
        bad.append("translation of the source under test differs from the committed lean/%s" % GEN_REL)
    for (name, old, new) in SELFTEST_EDITS:
        if old is None:
            text = _reorder_zero_setter(norm)
        else:
            text = norm.replace(old, new) if norm.count(old) == 1 else None
        if text is None:
            report["edits"][name] = "anchor not found in the source under test"
            if com == base:
                bad.append("edit %r does not apply to the reference source" % name)
            continue
        try:
            t = translate(text)
            if t == base:
                report["edits"][name] = "NOT DETECTED"
                bad.append("edit %r leaves the translation unchanged" % name)
            else:
                report["edits"][name] = "different Gen text"
        except TranslationError as e:
            report["edits"][name] = "TranslationError: %s" % str(e)[:90]
    return not bad, "; ".join(bad), report


if __name__ == "__main__":
    import sys
    if sys.argv[1:] == ["selftest"]:
        import json
        print(json.dumps(selftest(), indent=1))
    else:
        sys.stdout.write(translate(read_source()))
