"""
Translator T1b (DESIGN.md 3.2): the BODIES of the closures that make a Stream's operators, read from the SOURCE TEXT
with `ast` (nothing is imported or executed) and written as values of the program type `ALV.C01.Src.Closure`
(lean/ALV/Model/C01Src.lean) into lean/ALV/Gen/C01Src.lean.  `Props/C01.lean` proves `src_*_is_model`: the
interpretation of the regenerated programs IS the hand-written model function.

What is read
  lazy_stream.py  StreamMeta.__binary__ / __rbinary__ / __unary__ : `F = op.func`, the inner `def dunder(self[, other])`
                  (its `if …: return …` chain), `return dunder`
                  Stream.__getattr__(self, name), Stream.__call__(self, *args, **kwargs)
                  the module-level bindings of the vocabulary (xmap, NEXT_NAME, Iterable, Stream)
  lazy_compat.py  `xmap = getattr(it, "imap", map)` (= the builtin `map` on python 3), `NEXT_NAME`, STR_TYPES, SOME_GEN_TYPES
  lazy_misc.py    elementwise(name="", pos=None): the decorator-level default, `def wrapper(*args, **kwargs)`; the wrapper is
                  executed symbolically (locals positional / arg / data / type_arg / is_numpy / np_type substituted) into the
                  decision tree of its returns, a value of `ALV.C01.Src.EwProg` (lean/ALV/Model/C01SrcEw.lean); the tests,
                  the three ways `func` is called and the two lookups are matched against templates (`tpl`) written with the
                  function's own parameter names

Python subset (anything else in a translated function is a TranslationError = broken obligation)
  statements   docstring | `if TEST: return RET` | `if TEST: raise AttributeError/TypeError(…)` | `return RET`
               (an `else:` / `elif` branch is read as the statements that follow)
  TEST         isinstance(v, cls.__ignored_classes__) | isinstance(v, Iterable) | name == NEXT_NAME
  RET          NotImplemented | Stream(MAP)
  MAP          xmap(F, IT, …) | xmap(lambda a: ELEM, IT) | (ELEM for a in IT)          (`map` = `xmap`)
  ELEM         F(arg, …) with arg the bound variable or a parameter        (the builders)
               getattr(a, name)                                           (__getattr__)
               a(*args, **kwargs)                                         (__call__)
  IT           iter(v) | v._data
Normalised away: white space, comments, docstrings, the names of the parameters, of `op_func`, of the inner function, of
the lambda's parameter / the loop variable.
"""
import ast, os


class TranslationError(Exception):
    pass


def _need(cond, msg):
    if not cond:
        raise TranslationError(msg)


def _d(n):
    return ast.dump(n)[:160] if isinstance(n, ast.AST) else repr(n)[:160]


def _find_class(tree, name):
    for n in tree.body:
        if isinstance(n, ast.ClassDef) and n.name == name:
            return n
    raise TranslationError("class %s not found" % name)


def _find_func(cls, name):
    fs = [n for n in cls.body if isinstance(n, ast.FunctionDef) and n.name == name]
    _need(len(fs) == 1, "method %s.%s not found exactly once" % (cls.name, name))
    _need(not fs[0].decorator_list, "%s.%s is decorated" % (cls.name, name))
    return fs[0]


def _is_name(n, ident):
    return isinstance(n, ast.Name) and n.id == ident


def _body_wo_doc(fn):
    body = list(fn.body)
    if body and isinstance(body[0], ast.Expr) and isinstance(body[0].value, ast.Constant) and isinstance(body[0].value.value, str):
        body = body[1:]
    return body


def _plain_params(fn, n=None):
    a = fn.args
    _need(not a.posonlyargs and not a.kwonlyargs and not a.defaults and not a.kw_defaults,
          "%s: parameters with defaults / keyword-only parameters" % fn.name)
    names = [x.arg for x in a.args]
    _need(len(set(names)) == len(names), "%s: repeated parameter" % fn.name)
    if n is not None:
        _need(len(names) == n, "%s: expected %d parameters, found %r" % (fn.name, n, names))
    return names, (a.vararg.arg if a.vararg else None), (a.kwarg.arg if a.kwarg else None)


ERRS = {"AttributeError": ".attributeError", "TypeError": ".typeError"}


class Ctx(object):
    """ names in scope while a closure body is translated """
    def __init__(self, where, vars_, mode, fvar=None, clsname=None, name=None, va=None, kw=None):
        self.where, self.vars, self.mode = where, vars_, mode     # vars_: python name -> ".self" / ".other"
        self.fvar, self.clsname, self.name, self.va, self.kw = fvar, clsname, name, va, kw

    def var(self, n, what):
        _need(isinstance(n, ast.Name) and n.id in self.vars, "%s: %s is not a parameter: %s" % (self.where, what, _d(n)))
        return self.vars[n.id]


def tr_it(cx, n):
    if isinstance(n, ast.Call) and _is_name(n.func, "iter") and len(n.args) == 1 and not n.keywords:
        return "(.iterOf %s)" % cx.var(n.args[0], "argument of iter()")
    if isinstance(n, ast.Attribute) and n.attr == "_data":
        return "(.dataOf %s)" % cx.var(n.value, "owner of ._data")
    raise TranslationError("%s: unknown iterator expression %s" % (cx.where, _d(n)))


def tr_elem(cx, n, bound):
    """ the element computation inside a lambda / generator expression -> list of LArg """
    _need(isinstance(n, ast.Call), "%s: element computation is not a call: %s" % (cx.where, _d(n)))
    if cx.mode == "op":
        _need(_is_name(n.func, cx.fvar) and not n.keywords and n.args, "%s: element computation is not %s(…): %s" % (cx.where, cx.fvar, _d(n)))
        out = []
        for a in n.args:
            _need(isinstance(a, ast.Name), "%s: argument of %s is not a name: %s" % (cx.where, cx.fvar, _d(a)))
            out.append(".bound" if a.id == bound else ".var %s" % cx.var(a, "argument of " + cx.fvar))
        return out
    if cx.mode == "getattr":
        _need(_is_name(n.func, "getattr") and len(n.args) == 2 and not n.keywords and _is_name(n.args[0], bound)
              and _is_name(n.args[1], cx.name), "%s: element computation is not getattr(<element>, %s): %s" % (cx.where, cx.name, _d(n)))
        return [".bound"]
    if cx.mode == "call":
        _need(_is_name(n.func, bound) and len(n.args) == 1 and isinstance(n.args[0], ast.Starred) and _is_name(n.args[0].value, cx.va)
              and len(n.keywords) == 1 and n.keywords[0].arg is None and _is_name(n.keywords[0].value, cx.kw),
              "%s: element computation is not <element>(*%s, **%s): %s" % (cx.where, cx.va, cx.kw, _d(n)))
        return [".bound"]
    raise TranslationError("unknown mode")


def tr_map(cx, n):
    if isinstance(n, ast.GeneratorExp):
        _need(len(n.generators) == 1, "%s: generator expression with several loops" % cx.where)
        g = n.generators[0]
        _need(not g.ifs and not g.is_async and isinstance(g.target, ast.Name), "%s: generator expression with a filter / a pattern" % cx.where)
        _need(g.target.id not in cx.vars, "%s: loop variable shadows a parameter" % cx.where)
        return "(.genLam [%s] %s)" % (", ".join(tr_elem(cx, n.elt, g.target.id)), tr_it(cx, g.iter))
    _need(isinstance(n, ast.Call) and isinstance(n.func, ast.Name) and n.func.id in ("xmap", "map") and not n.keywords and len(n.args) >= 2,
          "%s: argument of Stream(…) is neither xmap(…) nor a generator expression: %s" % (cx.where, _d(n)))
    f, its = n.args[0], n.args[1:]
    if isinstance(f, ast.Lambda):
        a = f.args
        _need(len(a.args) == 1 and not a.vararg and not a.kwarg and not a.defaults and not a.kwonlyargs and not a.posonlyargs,
              "%s: lambda is not of one plain parameter" % cx.where)
        _need(a.args[0].arg not in cx.vars, "%s: lambda parameter shadows a parameter" % cx.where)
        _need(len(its) == 1, "%s: xmap(lambda, …) over %d iterators" % (cx.where, len(its)))
        return "(.mapLam [%s] %s)" % (", ".join(tr_elem(cx, f.body, a.args[0].arg)), tr_it(cx, its[0]))
    _need(cx.mode == "op" and _is_name(f, cx.fvar), "%s: first argument of xmap is neither a lambda nor %s: %s" % (cx.where, cx.fvar, _d(f)))
    return "(.mapF [%s])" % ", ".join(tr_it(cx, i)[1:-1] for i in its)


def tr_ret(cx, n):
    if _is_name(n, "NotImplemented"):
        return ".notImplemented"
    _need(isinstance(n, ast.Call) and _is_name(n.func, "Stream") and len(n.args) == 1 and not n.keywords
          and not isinstance(n.args[0], ast.Starred), "%s: returned value is neither NotImplemented nor Stream(<one argument>): %s" % (cx.where, _d(n)))
    return "(.stream %s)" % tr_map(cx, n.args[0])


def tr_test(cx, n):
    if isinstance(n, ast.Call) and _is_name(n.func, "isinstance") and len(n.args) == 2 and not n.keywords:
        v, c = n.args
        if isinstance(c, ast.Attribute) and c.attr == "__ignored_classes__" and cx.clsname and _is_name(c.value, cx.clsname):
            return "(.isIgnored %s)" % cx.var(v, "first argument of isinstance")
        if _is_name(c, "Iterable"):
            return "(.isIterable %s)" % cx.var(v, "first argument of isinstance")
    if isinstance(n, ast.Compare) and len(n.ops) == 1 and isinstance(n.ops[0], ast.Eq) and cx.name:
        l, r = n.left, n.comparators[0]
        if (_is_name(l, cx.name) and _is_name(r, "NEXT_NAME")) or (_is_name(r, cx.name) and _is_name(l, "NEXT_NAME")):
            return ".nameIsNext"
    raise TranslationError("%s: unknown test %s" % (cx.where, _d(n)))


def tr_stmts(cx, stmts):
    out = []
    for i, st in enumerate(stmts):
        if isinstance(st, ast.Return):
            _need(st.value is not None, "%s: bare return" % cx.where)
            out.append(".ret %s" % tr_ret(cx, st.value))
            _need(i == len(stmts) - 1, "%s: statements after a return" % cx.where)
        elif isinstance(st, ast.If):
            _need(len(st.body) == 1, "%s: an `if` with %d statements in its body" % (cx.where, len(st.body)))
            b = st.body[0]
            t = tr_test(cx, st.test)
            if isinstance(b, ast.Return) and b.value is not None:
                out.append(".ifReturn %s %s" % (t, tr_ret(cx, b.value)))
            elif isinstance(b, ast.Raise) and b.cause is None and b.exc is not None:
                e = b.exc.func if isinstance(b.exc, ast.Call) else b.exc
                _need(isinstance(e, ast.Name) and e.id in ERRS, "%s: raise of an unknown exception %s" % (cx.where, _d(b.exc)))
                out.append(".ifRaise %s %s" % (t, ERRS[e.id]))
            else:
                raise TranslationError("%s: body of an `if` is neither a return nor a raise: %s" % (cx.where, _d(b)))
            if st.orelse:      # the branch taken returns / raises: `else:` is what follows
                _need(i == len(stmts) - 1, "%s: statements after if/else" % cx.where)
                out.extend(tr_stmts(cx, st.orelse))
        else:
            raise TranslationError("%s: statement outside the subset: %s" % (cx.where, _d(st)))
    return out


def tr_builder(meta, mname, nparams):
    fn = _find_func(meta, mname)
    (clsname, opname), va, kw = _plain_params(fn, 2)
    _need(va is None and kw is None, mname + ": *args / **kwargs")
    body = _body_wo_doc(fn)
    _need(len(body) == 3, "%s: expected `F = op.func`, `def dunder…`, `return dunder` (found %d statements)" % (mname, len(body)))
    a, d, r = body
    _need(isinstance(a, ast.Assign) and len(a.targets) == 1 and isinstance(a.targets[0], ast.Name)
          and isinstance(a.value, ast.Attribute) and a.value.attr == "func" and _is_name(a.value.value, opname),
          "%s: first statement is not `<name> = %s.func`: %s" % (mname, opname, _d(a)))
    fvar = a.targets[0].id
    _need(isinstance(d, ast.FunctionDef) and not d.decorator_list, "%s: second statement is not a plain `def`" % mname)
    _need(isinstance(r, ast.Return) and _is_name(r.value, d.name), "%s: the inner function is not what is returned" % mname)
    params, va, kw = _plain_params(d, nparams)
    _need(va is None and kw is None, mname + ": inner function with *args / **kwargs")
    _need(fvar not in params and clsname not in params, mname + ": a parameter shadows a closure variable")
    vars_ = dict(zip(params, [".self", ".other"]))
    cx = Ctx("StreamMeta." + mname, vars_, "op", fvar=fvar, clsname=clsname)
    return [vars_[p] for p in params], tr_stmts(cx, _body_wo_doc(d))


def tr_getattr(cls):
    fn = _find_func(cls, "__getattr__")
    (selfn, name), va, kw = _plain_params(fn, 2)
    _need(va is None and kw is None, "__getattr__: *args / **kwargs")
    cx = Ctx("Stream.__getattr__", {selfn: ".self"}, "getattr", name=name)
    return [".self"], tr_stmts(cx, _body_wo_doc(fn))


def tr_call(cls):
    fn = _find_func(cls, "__call__")
    (selfn,), va, kw = _plain_params(fn, 1)
    _need(va is not None and kw is not None, "__call__: not of the form (self, *args, **kwargs)")
    cx = Ctx("Stream.__call__", {selfn: ".self"}, "call", va=va, kw=kw)
    return [".self"], tr_stmts(cx, _body_wo_doc(fn))


# ----------------------------------------------------------------------------------------------
# lazy_misc.elementwise : decorator level + wrapper, executed symbolically into a decision tree
# ----------------------------------------------------------------------------------------------
class EwCtx(object):
    def __init__(self, name, pos, func, va, kw):
        self.name, self.pos, self.func, self.va, self.kw = name, pos, func, va, kw
        self.locals = {}        # python local -> ("test", lean) | ("lookup", lean) | ("val", lean) | ("typearg",) | ("nptype",)
        self.argvar = None      # the local that holds the looked-up argument
        self.positional = None  # the local that holds the first test
        self.stream_imported = False

    def tpl(self, text, **extra):
        d = dict(name=self.name, pos=self.pos, func=self.func, args=self.va, kwargs=self.kw, arg=self.argvar or "arg")
        d.update(extra)
        return ast.dump(ast.parse(text.format(**d), mode="eval").body)


def ew_test(cx, n):
    w = "elementwise"
    if isinstance(n, ast.BoolOp) and isinstance(n.op, ast.And):
        out = ew_test(cx, n.values[-1])
        for v in reversed(n.values[:-1]):
            out = "(.and %s %s)" % (ew_test(cx, v), out)
        return out
    if isinstance(n, ast.UnaryOp) and isinstance(n.op, ast.Not):
        return "(.not %s)" % ew_test(cx, n.operand)
    if isinstance(n, ast.Name) and n.id in cx.locals and cx.locals[n.id][0] == "test":
        return cx.locals[n.id][1]
    d = ast.dump(n)
    if d == cx.tpl("{name} == ''") or d == cx.tpl("'' == {name}"):
        return ".nameIsEmpty"
    if d == cx.tpl("{pos} is None"):
        return ".posIsNone"
    if d == cx.tpl("{pos} is not None"):
        return "(.not .posIsNone)"
    if d == cx.tpl("{pos} < len({args})") or d == cx.tpl("len({args}) > {pos}"):
        return ".posLtLenArgs"
    if cx.argvar:
        for cls, lean in (("Iterable", ".argIsIterable"), ("STR_TYPES", ".argIsStr"), ("SOME_GEN_TYPES", ".argIsSomeGen")):
            if d == cx.tpl("isinstance({arg}, %s)" % cls):
                return lean
        if isinstance(n, ast.Call) and _is_name(n.func, "issubclass") and len(n.args) == 2 and not n.keywords \
                and _is_name(n.args[1], "Stream") and ew_is_typearg(cx, n.args[0]):
            _need(cx.stream_imported, w + ": Stream used before `from .lazy_stream import Stream`")
            return ".typeArgIsStream"
    raise TranslationError("%s: unknown test %s" % (w, _d(n)))


def ew_is_typearg(cx, n):
    if isinstance(n, ast.Name) and cx.locals.get(n.id) == ("typearg",):
        return True
    return cx.argvar is not None and ast.dump(n) == cx.tpl("type({arg})")


def ew_callargs(cx, call, x):
    """ the arguments of one call of func -> EwCallArgs """
    d = ast.dump(call)
    if x is not None:
        if d == cx.tpl("{func}(*({args}[:{pos}] + ({x},) + {args}[{pos}+1:]), **{kwargs})", x=x):
            return ".splice"
        if d == cx.tpl("{func}(*{args}, **dict(it.chain(iteritems({kwargs}), [({name}, {x})])))", x=x):
            return ".kwChain"
    if d == cx.tpl("{func}(*{args}, **{kwargs})"):
        return ".plain"
    raise TranslationError("elementwise: unknown way of calling %s: %s" % (cx.func, ast.unparse(call)[:160]))


def ew_expr(cx, n):
    if isinstance(n, ast.Name) and n.id in cx.locals and cx.locals[n.id][0] == "val":
        return cx.locals[n.id][1]
    if isinstance(n, ast.GeneratorExp):
        _need(len(n.generators) == 1, "elementwise: generator expression with several loops")
        g = n.generators[0]
        _need(not g.ifs and not g.is_async and isinstance(g.target, ast.Name) and cx.argvar and _is_name(g.iter, cx.argvar),
              "elementwise: generator expression is not `(… for x in %s)`" % cx.argvar)
        _need(isinstance(n.elt, ast.Call), "elementwise: element of the generator expression is not a call")
        return "(.genOver %s)" % ew_callargs(cx, n.elt, g.target.id)
    if isinstance(n, ast.Call) and not n.keywords and len(n.args) == 1 and not isinstance(n.args[0], ast.Starred):
        if _is_name(n.func, "Stream"):
            _need(cx.stream_imported, "elementwise: Stream used before `from .lazy_stream import Stream`")
            return "(.streamOf %s)" % ew_expr(cx, n.args[0])
        if ew_is_typearg(cx, n.func):
            return "(.typeArgOf %s)" % ew_expr(cx, n.args[0])
        if isinstance(n.func, ast.Name) and cx.locals.get(n.func.id) == ("nptype",):
            a = n.args[0]
            _need(isinstance(a, ast.Call) and _is_name(a.func, "list") and len(a.args) == 1 and not a.keywords,
                  "elementwise: np_type(…) not applied to list(…)")
            return "(.npOfList %s)" % ew_expr(cx, a.args[0])
    if isinstance(n, ast.Call) and _is_name(n.func, cx.func):
        return "(.callFunc %s)" % ew_callargs(cx, n, None)
    raise TranslationError("elementwise: unknown value %s" % ast.unparse(n)[:160])


def ew_lookup(cx, n):
    d = ast.dump(n)
    if d == cx.tpl("{args}[{pos}]"):
        return ".argsAtPos"
    if d == cx.tpl("{kwargs}[{name}]"):
        return ".kwargsAtName"
    if isinstance(n, ast.IfExp):
        return "(.cond %s %s %s)" % (ew_test(cx, n.test), ew_lookup(cx, n.body), ew_lookup(cx, n.orelse))
    raise TranslationError("elementwise: unknown way of finding the argument: %s" % ast.unparse(n)[:160])


def _single_assign(st):
    if isinstance(st, ast.Assign) and len(st.targets) == 1 and isinstance(st.targets[0], ast.Name):
        return st.targets[0].id
    return None


def ew_block(cx, stmts, ind):
    """ statements -> EwTree (every path must end in a return) """
    _need(stmts, "elementwise: a path of the wrapper ends without a return")
    st, rest = stmts[0], stmts[1:]
    pad = "\n" + "  " * ind
    if isinstance(st, ast.Return):
        _need(st.value is not None and not rest, "elementwise: bare return / statements after a return")
        return "(.ret %s)" % ew_expr(cx, st.value)
    if isinstance(st, ast.ImportFrom):
        _need(st.level == 1 and st.module == "lazy_stream" and [(a.name, a.asname) for a in st.names] == [("Stream", None)],
              "elementwise: unknown import")
        cx.stream_imported = True
        return ew_block(cx, rest, ind)
    tgt = _single_assign(st)
    if tgt is not None:
        _need(tgt not in (cx.name, cx.pos, cx.func, cx.va, cx.kw, cx.argvar, cx.positional), "elementwise: assignment to " + tgt)
        v = st.value
        if cx.argvar and ast.dump(v) == cx.tpl("type({arg})"):
            cx.locals[tgt] = ("typearg",)
        elif isinstance(v, ast.Subscript) and isinstance(v.value, ast.Dict):
            # np_type = {"ndarray": sys.modules["numpy"].array, "matrix": sys.modules["numpy"].mat}[type_arg.__name__]
            _need(isinstance(v.slice, ast.Attribute) and v.slice.attr == "__name__" and ew_is_typearg(cx, v.slice.value)
                  and all(isinstance(k, ast.Constant) and isinstance(k.value, str) for k in v.value.keys),
                  "elementwise: unknown dict lookup")
            for x in v.value.values:
                _need(isinstance(x, ast.Attribute) and ast.dump(x.value) == ast.dump(ast.parse("sys.modules['numpy']", mode="eval").body),
                      "elementwise: the numpy cast table holds something else than sys.modules['numpy'].<attr>")
            cx.locals[tgt] = ("nptype",)
        else:
            cx.locals[tgt] = ("val", ew_expr(cx, v))
        return ew_block(cx, rest, ind)
    if isinstance(st, ast.Try):
        # try: X = type_arg.__module__ == "numpy"   except AttributeError: X = False
        ok = len(st.body) == 1 and len(st.handlers) == 1 and not st.orelse and not st.finalbody
        x = _single_assign(st.body[0]) if ok else None
        h = st.handlers[0] if ok else None
        ok = ok and x is not None and _is_name(h.type, "AttributeError") and h.name is None and len(h.body) == 1 \
            and _single_assign(h.body[0]) == x and isinstance(h.body[0].value, ast.Constant) and h.body[0].value.value is False
        if ok:
            c = st.body[0].value
            ok = isinstance(c, ast.Compare) and len(c.ops) == 1 and isinstance(c.ops[0], ast.Eq) \
                and isinstance(c.left, ast.Attribute) and c.left.attr == "__module__" and ew_is_typearg(cx, c.left.value) \
                and isinstance(c.comparators[0], ast.Constant) and c.comparators[0].value == "numpy"
        _need(ok, "elementwise: a try statement other than the numpy test")
        cx.locals[x] = ("test", ".isNumpy")
        return ew_block(cx, rest, ind)
    if isinstance(st, ast.If):
        t = ew_test(cx, st.test)
        a_t, b_t = [_single_assign(x) for x in st.body], [_single_assign(x) for x in st.orelse]
        if len(a_t) == 1 and a_t == b_t and a_t[0] is not None:
            # a local assigned in both branches: one conditional value
            a, b = ew_expr(cx, st.body[0].value), ew_expr(cx, st.orelse[0].value)
            _need(a_t[0] not in (cx.name, cx.pos, cx.func, cx.va, cx.kw, cx.argvar, cx.positional), "elementwise: assignment to " + a_t[0])
            cx.locals[a_t[0]] = ("val", "(.cond %s %s %s)" % (t, a, b))
            return ew_block(cx, rest, ind)
        saved = dict(cx.locals), cx.stream_imported
        a = ew_block(cx, list(st.body), ind + 1)          # must return on every path
        cx.locals, cx.stream_imported = dict(saved[0]), saved[1]
        b = ew_block(cx, list(st.orelse) + rest, ind + 1)
        return "(.ite %s%s%s%s%s)" % (t, pad + "  ", a, pad + "  ", b)
    raise TranslationError("elementwise: statement outside the subset: %s" % _d(st))


def tr_elementwise(misc_tree):
    fs = [n for n in misc_tree.body if isinstance(n, ast.FunctionDef) and n.name == "elementwise"]
    _need(len(fs) == 1 and not fs[0].decorator_list, "lazy_misc.py: elementwise not defined exactly once (undecorated)")
    fn = fs[0]
    a = fn.args
    _need(len(a.args) == 2 and not a.vararg and not a.kwarg and not a.kwonlyargs and not a.posonlyargs and len(a.defaults) == 2
          and isinstance(a.defaults[0], ast.Constant) and a.defaults[0].value == ""
          and isinstance(a.defaults[1], ast.Constant) and a.defaults[1].value is None,
          "elementwise: signature is not (name=\"\", pos=None)")
    name, pos = a.args[0].arg, a.args[1].arg
    body = _body_wo_doc(fn)
    cx = EwCtx(name, pos, None, None, None)
    default = "none"
    if len(body) == 3:
        st = body[0]
        _need(isinstance(st, ast.If) and not st.orelse and len(st.body) == 1 and _single_assign(st.body[0]) == pos
              and isinstance(st.body[0].value, ast.Constant) and type(st.body[0].value.value) is int and st.body[0].value.value >= 0,
              "elementwise: first statement is not `if …: pos = <int>`")
        default = "(some (%s, %d))" % (ew_test(cx, st.test), st.body[0].value.value)
        body = body[1:]
    _need(len(body) == 2 and isinstance(body[0], ast.FunctionDef) and isinstance(body[1], ast.Return)
          and _is_name(body[1].value, body[0].name) and not body[0].decorator_list, "elementwise: expected `def decorator(func)`, `return decorator`")
    deco = body[0]
    (func,), va, kw = _plain_params(deco, 1)
    _need(va is None and kw is None and func not in (name, pos), "elementwise: decorator parameters")
    dbody = _body_wo_doc(deco)
    _need(len(dbody) == 2 and isinstance(dbody[0], ast.FunctionDef) and isinstance(dbody[1], ast.Return)
          and _is_name(dbody[1].value, dbody[0].name), "elementwise: expected `def wrapper(*args, **kwargs)`, `return wrapper`")
    wr = dbody[0]
    _need(len(wr.decorator_list) == 1 and ast.dump(wr.decorator_list[0]) == ast.dump(ast.parse("wraps(%s)" % func, mode="eval").body),
          "elementwise: wrapper is not decorated by wraps(%s) only" % func)
    ps, va, kw = _plain_params(wr, 0)
    _need(va is not None and kw is not None and len({va, kw, name, pos, func}) == 5, "elementwise: wrapper is not (*args, **kwargs)")
    cx.func, cx.va, cx.kw = func, va, kw
    wbody = _body_wo_doc(wr)
    _need(len(wbody) >= 3, "elementwise: wrapper too short")
    p = _single_assign(wbody[0])
    _need(p is not None and p not in (name, pos, func, va, kw), "elementwise: first statement of the wrapper is not `positional = <test>`")
    positional = ew_test(cx, wbody[0].value)
    cx.positional = p
    cx.locals[p] = ("test", ".positional")
    g = _single_assign(wbody[1])
    _need(g is not None and g not in (name, pos, func, va, kw, p), "elementwise: second statement of the wrapper is not `arg = <lookup>`")
    lookup = ew_lookup(cx, wbody[1].value)
    cx.argvar = g
    tree = ew_block(cx, wbody[2:], 2)
    return ("/-- `lazy_misc.elementwise(name, pos)` : decorator level and the `wrapper(*args, **kwargs)` it returns -/\n"
            "def elementwise : EwProg where\n  defaultPos := %s\n  positional := %s\n  arg := %s\n  body :=\n    %s\n\n"
            % (default, positional, lookup, tree))


def check_vocabulary_misc(misc_tree, compat_tree):
    b = _module_bindings(misc_tree)
    for n in ("STR_TYPES", "SOME_GEN_TYPES", "iteritems"):
        _need(b.get(n) == ["from .lazy_compat import " + n], "lazy_misc.py: %s is not (only) imported from .lazy_compat: %r" % (n, b.get(n)))
    _need(sorted(b.get("Iterable", [])) == ["from collections import Iterable", "from collections.abc import Iterable"],
          "lazy_misc.py: Iterable is not collections.abc.Iterable: %r" % (b.get("Iterable"),))
    _need(b.get("it") == ["import itertools"] and b.get("wraps") == ["from functools import wraps"] and b.get("sys") == ["import sys"],
          "lazy_misc.py: it / wraps / sys are not itertools / functools.wraps / sys")
    for n in ("isinstance", "issubclass", "type", "len", "dict", "list", "Stream"):
        _need(n not in b, "lazy_misc.py: %s is bound at module level" % n)
    want = {"STR_TYPES": '(getattr(builtins, "basestring", str),)',
            "SOME_GEN_TYPES": "(types.GeneratorType, xrange(0).__class__, enumerate, xzip, xzip_longest, xmap, xfilter)",
            "xrange": 'getattr(builtins, "xrange", range)', "xzip": 'getattr(it, "izip", zip)',
            "xzip_longest": 'getattr(it, "izip_longest", getattr(it, "zip_longest", None))', "xfilter": 'getattr(it, "ifilter", filter)'}
    vals = {}
    for st in compat_tree.body:
        n = _single_assign(st)
        if n:
            vals.setdefault(n, []).append(st.value)
    for n, text in want.items():
        _need(len(vals.get(n, [])) == 1 and ast.dump(vals[n][0]) == ast.dump(ast.parse(text, mode="eval").body),
              "lazy_compat.py: %s is not `%s`" % (n, text))


# ----------------------------------------------------------------------------------------------
# the vocabulary: where the names used above come from
# ----------------------------------------------------------------------------------------------
def _module_bindings(tree):
    """ name -> list of descriptions of its module-level bindings """
    out = {}

    def add(n, what):
        out.setdefault(n, []).append(what)

    def visit(stmts):
        for st in stmts:
            if isinstance(st, ast.ImportFrom):
                for al in st.names:
                    add(al.asname or al.name, "from %s%s import %s" % ("." * st.level, st.module or "", al.name))
            elif isinstance(st, ast.Import):
                for al in st.names:
                    add(al.asname or al.name.split(".")[0], "import " + al.name)
            elif isinstance(st, (ast.FunctionDef, ast.ClassDef)):
                add(st.name, "def/class")
            elif isinstance(st, (ast.Assign, ast.AugAssign, ast.AnnAssign)):
                tg = st.targets if isinstance(st, ast.Assign) else [st.target]
                for t in tg:
                    for n in ast.walk(t):
                        if isinstance(n, ast.Name):
                            add(n.id, "assignment")
            elif isinstance(st, ast.Try):
                visit(st.body)
                for h in st.handlers:
                    visit(h.body)
                visit(st.orelse)
                visit(st.finalbody)
            elif isinstance(st, (ast.If, ast.For, ast.While, ast.With)):
                visit(st.body)
                visit(getattr(st, "orelse", []))
    visit(tree.body)
    return out


def check_vocabulary(stream_tree, compat_tree):
    b = _module_bindings(stream_tree)
    for n in ("xmap", "NEXT_NAME"):
        _need(b.get(n) == ["from .lazy_compat import " + n], "lazy_stream.py: %s is not (only) imported from .lazy_compat: %r" % (n, b.get(n)))
    _need(sorted(b.get("Iterable", [])) == ["from collections import Iterable", "from collections.abc import Iterable"],
          "lazy_stream.py: Iterable is not collections.abc.Iterable: %r" % (b.get("Iterable"),))
    _need(b.get("Stream") == ["def/class"], "lazy_stream.py: Stream bound more than once at module level")
    for n in ("map", "iter", "isinstance", "getattr", "NotImplemented", "AttributeError", "TypeError"):
        _need(n not in b, "lazy_stream.py: builtin %s is rebound at module level" % n)
    c = _module_bindings(compat_tree)
    for n in ("map", "getattr"):
        _need(n not in c, "lazy_compat.py: builtin %s is rebound" % n)
    vals = {}
    for st in compat_tree.body:
        if isinstance(st, ast.Assign) and len(st.targets) == 1 and isinstance(st.targets[0], ast.Name):
            vals.setdefault(st.targets[0].id, []).append(st.value)
    _need(len(vals.get("xmap", [])) == 1 and c.get("xmap") == ["assignment"], "lazy_compat.py: xmap not assigned exactly once")
    x = vals["xmap"][0]
    ok = _is_name(x, "map") or (isinstance(x, ast.Call) and _is_name(x.func, "getattr") and len(x.args) == 3
                                and _is_name(x.args[0], "it") and isinstance(x.args[1], ast.Constant) and x.args[1].value == "imap"
                                and _is_name(x.args[2], "map"))
    _need(ok, "lazy_compat.py: xmap is not `getattr(it, \"imap\", map)`: " + _d(x))
    _need(len(vals.get("NEXT_NAME", [])) == 1 and c.get("NEXT_NAME") == ["assignment"], "lazy_compat.py: NEXT_NAME not assigned exactly once")
    x = vals["NEXT_NAME"][0]
    ok = (isinstance(x, ast.Constant) and x.value == "__next__") or \
         (isinstance(x, ast.IfExp) and _is_name(x.test, "PYTHON2") and isinstance(x.body, ast.Constant) and x.body.value == "next"
          and isinstance(x.orelse, ast.Constant) and x.orelse.value == "__next__")
    _need(ok, "lazy_compat.py: NEXT_NAME is not `\"next\" if PYTHON2 else \"__next__\"`: " + _d(x))


# ----------------------------------------------------------------------------------------------
# Lean emission
# ----------------------------------------------------------------------------------------------
HEADER = """/-
  GENERATED by harness/props/c01_tr.py from
    audiolazy/lazy_stream.py (StreamMeta.__binary__ / __rbinary__ / __unary__, Stream.__getattr__ / __call__)
    audiolazy/lazy_misc.py   (elementwise)
  Rewritten on every run of ./check C01 — do not edit.
-/
import ALV.Model.C01Src
import ALV.Model.C01SrcEw
namespace ALV.Gen.C01
open ALV.C01 ALV.C01.Src

"""

FUNCS = [("binary", "`StreamMeta.__binary__` : the inner `def dunder(self, other)`, `F = op.func`"),
         ("rbinary", "`StreamMeta.__rbinary__` : the inner `def dunder(self, other)`, `F = op.func`"),
         ("unary", "`StreamMeta.__unary__` : the inner `def dunder(self)`, `F = op.func`"),
         ("getattr", "`Stream.__getattr__(self, name)`, `F = lambda a: getattr(a, name)`"),
         ("call", "`Stream.__call__(self, *args, **kwargs)`, `F = lambda a: a(*args, **kwargs)`")]


def emit(progs):
    o = [HEADER]
    for key, doc in FUNCS:
        params, stmts = progs[key]
        o.append("/-- %s -/\ndef %s : Closure where\n  params := [%s]\n  body := [\n    %s]\n\n"
                 % (doc, key, ", ".join(params), ",\n    ".join(stmts)))
    o.append(progs["elementwise"])
    o.append("end ALV.Gen.C01\n")
    return "".join(o)


def translate(stream_src, compat_src, misc_src):
    """ source texts -> text of lean/ALV/Gen/C01Src.lean """
    st = ast.parse(stream_src)
    ct, mt = ast.parse(compat_src), ast.parse(misc_src)
    check_vocabulary(st, ct)
    check_vocabulary_misc(mt, ct)
    meta = _find_class(st, "StreamMeta")
    cls = _find_class(st, "Stream")
    progs = {"binary": tr_builder(meta, "__binary__", 2), "rbinary": tr_builder(meta, "__rbinary__", 2),
             "unary": tr_builder(meta, "__unary__", 1), "getattr": tr_getattr(cls), "call": tr_call(cls),
             "elementwise": tr_elementwise(mt)}
    return emit(progs)


def sources(repo):
    return (open(os.path.join(repo, "audiolazy", "lazy_stream.py")).read(),
            open(os.path.join(repo, "audiolazy", "lazy_compat.py")).read(),
            open(os.path.join(repo, "audiolazy", "lazy_misc.py")).read())


GEN_REL = os.path.join("ALV", "Gen", "C01Src.lean")


def regenerate(repo, lean_dir):
    """ rewrite lean/ALV/Gen/C01Src.lean; on a translation failure the last good file stays and the error is raised """
    path = os.path.join(lean_dir, GEN_REL)
    try:
        text = translate(*sources(repo))
    except Exception:
        # the last good file = the committed one = the translation of the pinned source (and not what an earlier run on
        # another scratch copy may have left on disk)
        good = translate(FIXTURE_STREAM, FIXTURE_COMPAT, FIXTURE_MISC)
        if not os.path.exists(path) or open(path).read() != good:
            with open(path, "w") as f:
                f.write(good)
        raise
    old = open(path).read() if os.path.exists(path) else None
    if old != text:
        with open(path, "w") as f:
            f.write(text)
    return {"file": "lean/" + GEN_REL, "functions": [k for k, _ in FUNCS] + ["elementwise"], "changed": old != text}


# ----------------------------------------------------------------------------------------------
# self-test: the translator must SEE edits of the translated functions
# ----------------------------------------------------------------------------------------------
EDITS_MISC = [
    ("elementwise: the str exclusion dropped", "if isinstance(arg, Iterable) and not isinstance(arg, STR_TYPES):", "if isinstance(arg, Iterable):"),
    ("elementwise: `pos < len(args)` became `<=`", "(pos < len(args))", "(pos <= len(args))"),
    ("elementwise: the positional splice keeps the container (args[pos:] for args[pos+1:])", "args[pos+1:]", "args[pos:]"),
    ("elementwise: a Stream is returned for the lazy kinds", "          return data\n", "          return Stream(data)\n"),
    ("elementwise: the Stream test after the generic cast",
     "        if issubclass(type_arg, Stream):\n          return Stream(data)\n", ""),
    ("elementwise: the decorator default is pos = 1", "    pos = 0\n", "    pos = 1\n"),
    ("elementwise: keyword route forgets the other keyword arguments", "it.chain(iteritems(kwargs), [(name, x)])", "[(name, x)]"),
    ("elementwise: the two data branches exchanged", "        if positional:\n          data", "        if not positional:\n          data"),
]
EDITS = [
    ("rbinary: operands of the iterable branch swapped",
     "return Stream(xmap(op_func, iter(other), iter(self)))", "return Stream(xmap(op_func, iter(self), iter(other)))"),
    ("binary: arguments of the lambda swapped",
     "return Stream(xmap(lambda a: op_func(a, other), iter(self)))", "return Stream(xmap(lambda a: op_func(other, a), iter(self)))"),
    ("binary: the NotImplemented test dropped",
     "      if isinstance(other, cls.__ignored_classes__):\n        return NotImplemented\n      if isinstance(other, Iterable):\n        return Stream(xmap(op_func, iter(self), iter(other)))",
     "      if isinstance(other, Iterable):\n        return Stream(xmap(op_func, iter(self), iter(other)))"),
    ("unary: a generator expression instead of the map object",
     "return Stream(xmap(op_func, iter(self)))", "return Stream(op_func(a) for a in iter(self))"),
    ("__getattr__: a generator expression instead of the map object",
     "return Stream(xmap(lambda a: getattr(a, name), self._data))", "return Stream(getattr(a, name) for a in self._data)"),
    ("__call__: the keyword arguments dropped",
     "lambda a: a(*args, **kwargs)", "lambda a: a(*args)"),
    ("__getattr__: the test of the NEXT_NAME guard negated",
     "if name == NEXT_NAME:", "if name != NEXT_NAME:"),
    ("binary: the result is not wrapped in a Stream",
     "return Stream(xmap(op_func, iter(self), iter(other)))", "return xmap(op_func, iter(self), iter(other))"),
]
# rewrites that mean the same: the translator must give the SAME text
HARMLESS = [
    ("comments, renamed locals, map for xmap, else branch",
     [("    op_func = op.func\n    def dunder(self, other):\n      if isinstance(other, cls.__ignored_classes__):\n        return NotImplemented\n"
       "      if isinstance(other, Iterable):\n        return Stream(xmap(op_func, iter(self), iter(other)))\n"
       "      return Stream(xmap(lambda a: op_func(a, other), iter(self)))\n    return dunder\n",
       "    fn = op.func   # the operator\n    def template(me, you):\n      \"\"\" doc \"\"\"\n      if isinstance(you, cls.__ignored_classes__):\n        return NotImplemented\n"
       "      if isinstance(you, Iterable):\n        return Stream(map(fn, iter(me), iter(you)))\n"
       "      else:\n        return Stream(map(lambda el: fn(el, you), iter(me)))\n    return template\n")]),
]


FIXTURE_STREAM = '''
import itertools as it
try:
  from collections.abc import Iterable
except ImportError:
  from collections import Iterable
from .lazy_compat import meta, xrange, xmap, xfilter, NEXT_NAME
from .lazy_core import AbstractOperatorOverloaderMeta


class StreamMeta(AbstractOperatorOverloaderMeta):
  """ doc """
  def __binary__(cls, op):
    op_func = op.func
    def dunder(self, other):
      if isinstance(other, cls.__ignored_classes__):
        return NotImplemented
      if isinstance(other, Iterable):
        return Stream(xmap(op_func, iter(self), iter(other)))
      return Stream(xmap(lambda a: op_func(a, other), iter(self)))
    return dunder

  def __rbinary__(cls, op):
    op_func = op.func
    def dunder(self, other):
      if isinstance(other, cls.__ignored_classes__):
        return NotImplemented
      if isinstance(other, Iterable):
        return Stream(xmap(op_func, iter(other), iter(self)))
      return Stream(xmap(lambda a: op_func(other, a), iter(self)))
    return dunder

  def __unary__(cls, op):
    op_func = op.func
    def dunder(self):
      return Stream(xmap(op_func, iter(self)))
    return dunder


class Stream(meta(Iterable, metaclass=StreamMeta)):
  def __getattr__(self, name):
    """
    Returns a Stream of attributes or methods, got in an elementwise fashion.
    """
    if name == NEXT_NAME:
      raise AttributeError("Streams are iterable, not iterators")
    return Stream(xmap(lambda a: getattr(a, name), self._data))

  def __call__(self, *args, **kwargs):
    return Stream(xmap(lambda a: a(*args, **kwargs), self._data))
'''
FIXTURE_COMPAT = '''
import itertools as it
import sys
import types
PYTHON2 = sys.version_info.major == 2
if PYTHON2:
  builtins = sys.modules["__builtin__"]
else:
  import builtins
xrange = getattr(builtins, "xrange", range)
xzip = getattr(it, "izip", zip)
xzip_longest = getattr(it, "izip_longest", getattr(it, "zip_longest", None))
xmap = getattr(it, "imap", map)
xfilter = getattr(it, "ifilter", filter)
STR_TYPES = (getattr(builtins, "basestring", str),)
SOME_GEN_TYPES = (types.GeneratorType, xrange(0).__class__, enumerate, xzip,
                  xzip_longest, xmap, xfilter)
NEXT_NAME = "next" if PYTHON2 else "__next__"
'''
FIXTURE_MISC = r'''
from collections import deque
try:
  from collections.abc import Iterable
except ImportError:
  from collections import Iterable
from functools import wraps
import itertools as it
import sys
from .lazy_compat import (xrange, xzip_longest, STR_TYPES, SOME_GEN_TYPES,
                          iteritems)


def elementwise(name="", pos=None):
  """
  Function auto-map decorator broadcaster.

  Creates an "elementwise" decorator for one input parameter. To create such,
  it should know the name (for use as a keyword argument and the position
  "pos" (input as a positional argument). Without a name, only the
  positional argument will be used. Without both name and position, the
  first positional argument will be used.

  """
  if (name == "") and (pos is None):
    pos = 0
  def elementwise_decorator(func):
    """
    Element-wise decorator for functions known to have 1 input and 1
    output be applied directly on iterables. When made to work with more
    than 1 input, all "secondary" parameters will the same in all
    function calls (i.e., they will not even be a copy).

    """
    @wraps(func)
    def wrapper(*args, **kwargs):

      # Find the possibly Iterable argument
      positional = (pos is not None) and (pos < len(args))
      arg = args[pos] if positional else kwargs[name]

      if isinstance(arg, Iterable) and not isinstance(arg, STR_TYPES):
        if positional:
          data = (func(*(args[:pos] + (x,) + args[pos+1:]),
                       **kwargs)
                  for x in arg)
        else:
          data = (func(*args,
                       **dict(it.chain(iteritems(kwargs), [(name, x)])))
                  for x in arg)

        # Generators should still return generators
        if isinstance(arg, SOME_GEN_TYPES):
          return data

        # Cast to numpy array or matrix, if needed, without actually
        # importing its package
        type_arg = type(arg)
        try:
          is_numpy = type_arg.__module__ == "numpy"
        except AttributeError:
          is_numpy = False
        if is_numpy:
          np_type = {"ndarray": sys.modules["numpy"].array,
                     "matrix": sys.modules["numpy"].mat
                    }[type_arg.__name__]
          return np_type(list(data))

        # If it's a Stream, let's use the Stream constructor
        from .lazy_stream import Stream
        if issubclass(type_arg, Stream):
          return Stream(data)

        # Tuple, list, set, dict, deque, etc.. all falls here
        return type_arg(data)

      return func(*args, **kwargs) # wrapper returned value
    return wrapper # elementwise_decorator returned value
  return elementwise_decorator
'''
# sha256 of the committed lean/ALV/Gen/C01Src.lean (= the translation of the fixture, = of the clean /repo)
COMMITTED_SHA256 = "d382a95b0a6be0cb2b1eaebfc5a77ecabe4587ab7c2822474870130e767dab7f"


def selftest(repo, lean_dir):
    """ the translator run on a pinned copy of the translated functions (FIXTURE_*) and on edited copies of it
        -> (ok, detail, [(edit, how it was seen)], source_is_fixture) """
    import hashlib
    s_src, c_src, m_src = FIXTURE_STREAM, FIXTURE_COMPAT, FIXTURE_MISC
    base = translate(s_src, c_src, m_src)
    bad = []
    if hashlib.sha256(base.encode()).hexdigest() != COMMITTED_SHA256:
        bad.append("the pinned source does not reproduce the committed lean/%s byte for byte" % GEN_REL.replace(os.sep, "/"))
    try:
        same = translate(*sources(repo)) == base
    except Exception:
        same = False
    if same and open(os.path.join(lean_dir, GEN_REL)).read() != base:
        bad.append("lean/%s on disk is not the translation of the source" % GEN_REL.replace(os.sep, "/"))
    seen = []
    for what, old, new, misc in [e + (False,) for e in EDITS] + [e + (True,) for e in EDITS_MISC]:
        if (m_src if misc else s_src).count(old) < 1:
            bad.append("edit not applicable to the fixture: " + what)
            continue
        try:
            out = translate(s_src, c_src, m_src.replace(old, new, 1)) if misc else translate(s_src.replace(old, new, 1), c_src, m_src)
            res = "different program" if out != base else "SAME TEXT"
        except TranslationError:
            res = "TranslationError"
        except SyntaxError:
            res = "SyntaxError"
        seen.append((what, res))
        if res in ("SAME TEXT", "SyntaxError"):
            bad.append("edit not seen: %s (%s)" % (what, res))
    for what, reps in HARMLESS:
        edited = s_src
        for old, new in reps:
            if edited.count(old) != 1:
                bad.append("harmless rewrite not applicable: " + what)
            edited = edited.replace(old, new, 1)
        try:
            if translate(edited, c_src, m_src) != base:
                bad.append("harmless rewrite changes the program: " + what)
            else:
                seen.append((what, "same text"))
        except TranslationError as e:
            bad.append("harmless rewrite rejected: %s: %s" % (what, e))
    try:       # the vocabulary: xmap bound to something else in lazy_compat
        translate(s_src, c_src.replace('xmap = getattr(it, "imap", map)', 'xmap = getattr(it, "imap", filter)', 1), m_src)
        bad.append("edit not seen: xmap rebound in lazy_compat.py")
    except TranslationError:
        seen.append(("lazy_compat: xmap rebound to filter", "TranslationError"))
    try:       # SOME_GEN_TYPES loses a member
        translate(s_src, c_src.replace("enumerate, xzip,", "xzip,", 1), m_src)
        bad.append("edit not seen: SOME_GEN_TYPES without enumerate in lazy_compat.py")
    except TranslationError:
        seen.append(("lazy_compat: SOME_GEN_TYPES without enumerate", "TranslationError"))
    return (not bad, "; ".join(bad), seen, same)
