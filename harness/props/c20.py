"""C20 — sample-wise analysis tools (maverage, accumulate, amdf, envelope, clip, zcross, unwrap).

Tie: the real functions are run on exact `Fraction` (sometimes `int`) inputs; the Lean driver runs
the code-shaped models and the property-shaped specs at `Rat` on the same case.  Where the impl
itself injects floats (`1./size`, filter memory `0.`, designed low-pass coefficients) the case is
either in the *exact regime* (power-of-two sizes, dyadic samples: binary floating point is exact)
and compared with tolerance 0, or in the *float regime* and compared with tolerance 1e-9.

Besides the bulk of short cases there is a *long-run stream* (`gen_long`): per tool a few inputs of several
thousand samples, inputs of 2**k - 1, 2**k, 2**k + 1 samples (k = 8, 10, 12; more in the thorough tier) and one
input beyond 2**16 samples, for
state that only misbehaves after many iterations (periodic re-normalisation, wrapping counters, re-summed
buffers, drift corrections, block-wise processing).  Integer / dyadic data and power-of-two sizes keep the
impl's float arithmetic exact, so these are compared with tolerance 0 too.  The driver evaluates the
specification of an input of more than 64 samples through its one-pass recursion (`...SpecRec`, proved
equal to the closed form for all inputs: `ALV.Props.C20.rat_spec_recursions`).
"""
import math
import os
from fractions import Fraction as F

import common
from common import close, close_list, err_kind
from props import c20_calls as calls
from props import c20_sig as sig
from props import c20_tr as tr

# Exact number transport (common.enc / common.dec) with fast paths: the long-run stream moves hundreds of
# thousands of samples.  Same encodings as common.enc (int, or "p/q" in lowest terms; floats at their exact
# binary value); floats and the decoder are memoised (small value sets; Fractions are immutable).
_ENC, _DEC = {}, {}


def enc(x):
    t = type(x)
    if t is int:
        return x
    if t is F:
        d = x.denominator
        return x.numerator if d == 1 else "%d/%d" % (x.numerator, d)
    if t is float:
        try:
            return _ENC[x]
        except KeyError:     # (NaN never hits the memo)
            if len(_ENC) > 200000:
                _ENC.clear()
            j = _ENC[x] = common.enc(x)
            return j
    return common.enc(x)


def dec(j):
    try:
        return _DEC[j]
    except KeyError:
        if len(_DEC) > 200000:
            _DEC.clear()
        v = common.dec(j)
        if type(j) is not bool and v == v:
            _DEC[j] = v
        return v
    except TypeError:
        return common.dec(j)


def encl(xs):
    return [enc(x) for x in xs]


def decl(js):
    return [dec(j) for j in js]


ID = "C20"
RULE = ("structured random cases per tool (sizes/lags 1..9 + larger, all clip limit combinations incl. None and "
        "low>high, hysteresis x first_sign grids with samples placed on / next to the thresholds, (max_delta, step) "
        "pairs with samples placed on / next to the decision points) plus exhaustive tiny universes plus a long-run "
        "stream (per tool and strategy inputs of 255..257, 1023..1025, 4095..4097 samples, one of 5001..6500, one of 8193..9000 and - "
        "maverage, accumulate, zcross, unwrap - one beyond 65536 samples; the thorough tier adds 8191..8193, 16383..16385, "
        "up to 20000, 44099/44101/48001, 65535..65537, up to 100000, also for clip, and an envelope input beyond 65536; amdf stays "
        "below 20000; "
        "dense / sparse / impulse / constant / saw / block / quiet-interval / random-walk / wrapped-ramp / plateau shapes, integer "
        "or dyadic with power-of-two sizes so that the comparison stays exact, a few float-regime ones); a case is "
        "non-trivial when the input is non-empty and (clip: a sample is actually clipped or the error is raised; "
        "zcross: at least one crossing or a non-zero hysteresis/first_sign; unwrap: at least one sample changed; "
        "others: output not identically zero); distinct = distinct JSON case.  "
        "CALL LAYER (harness/props/c20_calls.py, driver entries <tool>_call running the Lean ...Call models): every tool x every call "
        "shape (each optional parameter positional / keyword / omitted - an omitted one is ABSENT from the driver request and the "
        "model fills in the documented default of exactly that parameter -, the input by keyword), spellings Fraction / int / float / "
        "bool / None / inf of every parameter, samples as Fraction / int / float, input kinds list / tuple / generator / iterator / "
        "Stream / thub / endless generator with a capped read (take / islice), every strategy of maverage / accumulate / envelope by "
        "name, alias, attribute and item access and through the dictionary default call, amdf(lag, size) positional / keyword / swapped "
        "keywords; unwrap: steps below and above 2*pi with jumps placed in (step/2, pi], (pi, step/2] and beyond, binary floats right "
        "at pi (Float twin of the model); clip: given limits on both sides of the default of the other one; exhaustive grid of "
        "shapes x parameter values on fixed inputs + random ones.  SOURCE TIE (no cases): before the build the bodies of clip, zcross, "
        "unwrap, accumulate.func, maverage.deque, amdf, envelope.abs/.squared are re-translated from the source text into "
        "lean/ALV/Gen/C20Src.lean; the translator self test edits the source text in 19 semantic and 2 harmless ways")
TRUSTED = [
    "call layer: hand-written Lean models ALV/Model/C20Call.lean (Option-al parameters, defaults from the documented table Dflt.*, "
    "strategy names / aliases / dictionary defaults); the table is tied to the source by translator harness/props/c20_sig.py "
    "(ast -> lean/ALV/Gen/C20Defaults.lean, theorem source_signatures_are_documented by decide) and cross-checked on every run against "
    "the ast reading and inspect.signature of the live objects (extra_checks); modelled, not verified: Python argument binding itself",
    "call layer: pi is the double math.pi at its exact rational value (piQ) in the Rat model - comparisons of exact samples with it are "
    "exact in Python too; with the default step 2*pi the impl computes `%` in floats (tolerance 1e-9); binary-float inputs right at pi "
    "run through the Float instance of the same model (Float.floor-based `%` instead of fmod: tolerance 1e-9, decisions bit-exact)",
    "call layer: inf / -inf parameters are sent to the model as a rational beyond every sample (theorems clip_limit_beyond_samples, "
    "zcross_all_inside, unwrap_identity: every such value gives the same output); an endless input is read through take / islice and the "
    "model gets the samples read (all tools are causal; laziness itself is property C02)",
    "envelope call layer: Float twin of the generic (TrigField) term ALV.C20.envelopePoleCall, whose design is ALV.C13.lowpassPole itself; "
    "at R it is proved to be the one-pole recursion y[n] = (1-R) u[n] + R y[n-1] with the documented R and cutoff pi/512 "
    "(envelope_pole_eq_spec, envelope_pole_contract); the driver also evaluates that recursion (envelopeSpec) at Float; both compared "
    "with tolerance 1e-9.  A cutoff given per sample (list / tuple / iterator / Stream, shorter or longer than the input): entry "
    "envelope_var, model envelopeVarCall = spec envelopeVarSpec at R (envelope_var_eq_spec), constant stream = constant cutoff "
    "(envelope_var_constant, also compared on the real code)",
    "exactness: unwrap on Fraction / int inputs with a given step is compared with tolerance 0 (theorem rat_unwrap_exact), including steps "
    "and samples with non-power-of-two denominators and jumps beyond 2**53 with int samples kept as ints; a non-zero memory value `zero` "
    "is drawn for every maverage strategy, the default maverage(size), amdf and accumulate.z (theorems maverageCall_eq_spec, "
    "maverage_window_starts_full_of_zero, amdfCall_eq_spec, accumulate_z_memory)",
    "hand-written Lean models ALV/Model/C20.lean of lazy_analysis.{maverage.*,amdf,envelope.*,clip,zcross,unwrap} and "
    "lazy_itertools.accumulate.* (modelled, not verified: collections.deque, itertools.accumulate, the generator protocol, "
    "Fraction/float arithmetic and Python's `%`); of these, clip, zcross, unwrap, accumulate.func, maverage.deque, amdf, envelope.abs "
    "and envelope.squared are additionally REGENERATED from the source on every run and proved equal to the model (src_*_is_model); "
    "maverage.recursive / .fir, accumulate.z (ZFilter operator expressions), accumulate.accumulate (itertools) and the sqrt of "
    "envelope.rms stay hand-written, tied by sampling only",
    "body translator harness/props/c20_tr.py (ast on the source text, ~800 lines, trusted like the harness): assumes the semantics of its "
    "Python subset - a generator reading ONE iterator over a finite input is the list of its yields; `for` over that iterator after "
    "`next` / `break` continues with the remaining items; `if/else`, conditional expressions, `x = e`, `x += e` as in Lean lets; "
    "`try: x = next(it) / except StopIteration: return` = match on the remaining list - and the vocabulary mapping abs -> absG, "
    "`%` -> pymod fl (a - b*floor(a/b)), min(a, b, key=abs) -> minAbs (first wins ties), deque -> List (popleft = head + drop 1 with "
    "head of an empty deque = 0, append = ++ [.], maxlen = initial length never exceeded), Stream(x) / @tostream / thub(x, n) -> x "
    "(laziness is property C02), abs(stream) / stream ** 2 -> map, lowpass(cutoff)(s) -> frun b a 0 s for the coefficient lists (b, a) "
    "of that filter (design: C13; loop: C04), maverage(size)(s, zero=z) -> the regenerated maverage.deque (first registered = default "
    "strategy, table Gen.C20Defaults.strategies), `(1 - z ** -lag).linearize()` called with zero=z -> frun (lagNum lag) [] z, "
    "`a <= b` -> not (b < a) (total order), 1. / 0. -> 1 / 0, `1. / size` -> 1 / (size : alpha), `is None` on a parameter -> match on "
    "Option; everything else inside a translated function is a TranslationError (= broken obligation).  A wrong mapping would show in "
    "the differential run, which executes the model the regenerated definitions are proved equal to",
    "the ZFilter-built strategies are modelled by a self-contained direct-form loop (frun); that LinearFilter.__call__ "
    "generates this loop for every coefficient shape is property C04",
    "envelope: the low-pass coefficients are read from the impl's own lowpass(cutoff) object (its design is property C13)",
    "envelope on inputs of more than 150 samples: the same polymorphic Lean model is run at Float instead of Rat "
    "(exact rationals of a recursive filter grow by ~50 bits per sample); compared with tolerance 1e-9",
    "inputs of more than 64 samples: the driver evaluates the specification through its one-pass recursion, "
    "proved equal to the closed form (theorems mavgSpecRec_eq_spec .. unwrapSpecRec_eq_spec, rat_spec_recursions)",
]
ASSUMPTIONS = [
    "size >= 1 (1./0 raises), lag >= 0 with zero=0 or lag >= 1, step > 0, hysteresis >= 0 for the closed zcross "
    "characterisation (negative hysteresis is only tied to the model)",
    "float regime (non power-of-two sizes or non-dyadic samples, envelope): compared with relative tolerance 1e-9",
    "still outside the model: size / lag spelled as float or Fraction (deque / fir: TypeError, recursive: integral floats work, Fractions "
    "ValueError; amdf accepts a float lag), non-number samples (str samples are concatenated by accumulate), a mid-stream exception "
    "followed by continued reads, the default-step (double 2*pi) unwrap of jumps beyond 2**53",
]
MANIFEST = {
    "text": ("Lean 4 theorems, for all inputs / sizes / lags / limits / thresholds: maverage.deque = .recursive = .fir = mean "
             "of the last size samples (zero extended); accumulate.* = running sums; amdf = moving average of |x[n]-x[n-lag]|; "
             "envelope.* = low-pass of |x| / x^2 by definition (non-negative for the one-pole design); clip = min(high,max(low,x)) "
             "with absent limits skipped, idempotent, bounded, error iff high<low; zcross two-loop state machine = closed "
             "characterisation by the latest sample outside the band (h >= 0); unwrap = cumulative nearest-residue correction, "
             "outputs differ by integer multiples of step, identity without large jumps, adjacent jump <= max(max_delta, step/2). "
             "The Rat instances executed by the driver are proved to be instances of these theorems; tied to /repo by a "
             "differential run on Fractions (exact regime / 1e-9 float regime) plus a structural comparison of the ZFilter "
             "coefficient lists.  Call layer: Lean ...Call models with Option-al parameters whose defaults are the documented table "
             "(unwrap max_delta = pi and step = 2 pi independently, clip -1 / 1 with None = no limit, zcross 0 / 0, zero = 0, cutoff = "
             "pi/512, dictionary defaults deque / itertools / rms, aliases); theorems relate every call with omitted parameters to the "
             "fully specified function and its defining formula (unwrapCall_eq, unwrapCall_step_only_identity, unwrapCall_clauses, "
             "clipCall_defaults, zcrossCall_default_spec, maverageCall_eq_spec, accumulateCall_eq_spec, amdfCall_eq_spec, "
             "envelopeCall_default), None -> TypeError where Python rejects it, insensitivity theorems (max_delta below step/2, limits "
             "beyond all samples); the table equals the signatures read from the source with ast (decide theorem over a generated file); "
             "the tie runs every tool x call shape x spelling x input kind x strategy name.  Source tie: the bodies of clip, zcross, "
             "unwrap, accumulate.func, maverage.deque, amdf, envelope.abs/.squared are translated from the source text (ast) into Lean "
             "definitions ALV.Gen.C20.* before every build and proved EQUAL to the model functions (src_clip_is_model, src_zcross_is_model, "
             "src_unwrap_is_model, src_accumulate_func_is_model, src_maverage_deque_is_model, src_amdf_is_model, src_envelope_is_model; "
             "src_tools_eq_spec restates the closed forms about the regenerated definitions)."),
    "note": ("Trusted: Lean kernel, propext/Classical.choice/Quot.sound, the Python harness; the filter-built strategies are "
             "modelled by a self-contained direct-form loop (the generated LinearFilter loop is property C04); the low-pass design "
             "used by envelope is property C13; sqrt of envelope.rms is compared in floats."),
    "technique": ("Lean 4 machine-checked proof over an executable model; the model functions of clip, zcross, unwrap, "
                  "accumulate.func, maverage.deque, amdf, envelope.abs/.squared are REGENERATED from the Python bodies on every run "
                  "(translator harness/props/c20_tr.py -> lean/ALV/Gen/C20Src.lean, theorems src_*_is_model) and the signatures / "
                  "defaults by harness/props/c20_sig.py; + differential correspondence for everything"),
    "design_ref": "DESIGN.md section 7, C20",
}
TOL = F(1, 10 ** 9)


# ----------------------------------------------------------------------------------------------
# value generators
# ----------------------------------------------------------------------------------------------
def _dy(rng, big=False):
    e = rng.choice([0, 0, 1, 2, 3, 4])
    m = rng.randint(-40, 40) if not big else rng.randint(-4000, 4000)
    return F(m, 2 ** e)


def _fr(rng):
    return F(rng.randint(-30, 30), rng.randint(1, 12))


def _seq(rng, n, dyadic):
    mode = rng.random()
    if mode < 0.08:
        v = _dy(rng)
        return [v] * n
    if mode < 0.16:
        return [F(rng.choice([-1, 0, 1])) for _ in range(n)]
    g = _dy if dyadic else _fr
    return [g(rng) for _ in range(n)]


def _len(rng, tier):
    r = rng.random()
    if r < 0.04:
        return 0
    if r < 0.10:
        return 1
    if r < 0.75:
        return rng.randint(2, 12)
    return rng.randint(13, 40 if tier == "quick" else 120)


def _is_dyadic(x):
    x = F(x)
    return x.denominator & (x.denominator - 1) == 0


def _is_dyadic_j(j):
    """`_is_dyadic(dec(j))` without building a Fraction (long inputs)"""
    if isinstance(j, int):
        return True
    if isinstance(j, str) and "/" in j:
        q = int(j.split("/", 1)[1])          # enc() writes lowest terms
        return q & (q - 1) == 0
    return _is_dyadic(dec(j))


def _pow2(n):
    return n & (n - 1) == 0


def _E(xs):
    return [enc(x) for x in xs]


# ----------------------------------------------------------------------------------------------
# case generation
# ----------------------------------------------------------------------------------------------
def gen_maverage(rng, tier):
    exact = rng.random() < 0.5
    if exact:
        size = rng.choice([1, 2, 4, 8, 16, 2, 4])
    else:
        size = rng.choice([1, 2, 3, 4, 5, 6, 7, 8, 9, rng.randint(10, 33)])
    n = rng.choice([_len(rng, tier), size - 1, size, size + 1, 2 * size + 1])
    xs = _seq(rng, max(n, 0), exact)
    zero = rng.choice([F(0), F(0), F(0), _dy(rng), F(1), _dy(rng) if exact else _fr(rng)])
    return {"entry": "maverage", "size": size, "zero": enc(zero), "xs": _E(xs)}


def gen_accumulate(rng, tier):
    xs = _seq(rng, _len(rng, tier), rng.random() < 0.6)
    ints = rng.random() < 0.2
    if ints:
        xs = [F(int(x)) for x in xs]
    return {"entry": "accumulate", "xs": _E(xs), "ints": ints, "zmode": rng.choice(["int0", "default", "frac0"])}


def gen_amdf(rng, tier):
    exact = rng.random() < 0.5
    size = rng.choice([1, 2, 4, 8]) if exact else rng.choice([1, 2, 3, 4, 5, 6, 7, 8, 9, 12])
    lag = rng.choice([1, 1, 2, 3, 4, 5, 6, 7, 8, rng.randint(9, 20), 0])
    n = rng.choice([_len(rng, tier), lag, lag + 1, lag + size, lag + size + 1])
    xs = _seq(rng, n, exact)
    zero = rng.choice([F(0), F(0), _dy(rng)]) if lag > 0 else F(0)
    return {"entry": "amdf", "lag": lag, "size": size, "zero": enc(zero), "xs": _E(xs)}


def gen_envelope(rng, tier):
    xs = _seq(rng, _len(rng, tier), rng.random() < 0.5)
    cutoff = rng.choice([math.pi / 512, 0.5, 1.0, rng.uniform(0.01, 3.0), rng.uniform(0.01, 3.0)])
    return {"entry": "envelope", "cutoff": cutoff, "xs": _E(xs), "lp": rng.choice(["default", "default", "default", "default", "pole", "z", "pole_exp", "z_exp"])}


def gen_envelope_var(rng, tier):
    """envelope.*(sig, cutoff=<one cutoff per sample>): list / iterator / Stream of cutoffs, shorter or longer than the input"""
    n = rng.choice([0, 1, 2, 3, 5, 8, 13, 30])
    xs = [float(_dy(rng)) for _ in range(n)]
    m = rng.choice([n, n, n, max(0, n - rng.randint(1, 3)), n + rng.randint(1, 4)])
    mode = rng.random()
    if mode < 0.25:          # stays put: must equal the constant-cutoff envelope (theorem envelope_var_constant)
        cs = [rng.choice([math.pi / 512, 0.5, 1.0])] * m
    elif mode < 0.5:         # a sweep
        a, b = rng.uniform(0.01, 3.0), rng.uniform(0.01, 3.0)
        cs = [a + (b - a) * k / max(1, m - 1) for k in range(m)]
    else:
        cs = [rng.choice([math.pi / 512, 0.25, 0.5, 1.0, 2.0, 3.0, rng.uniform(0.01, 3.1)]) for _ in range(m)]
    c = {"entry": "envelope_var", "xs": _E(xs), "cutoffs": [enc(v) for v in cs], "ckind": rng.choice(["list", "iter", "Stream", "tuple"])}
    s = rng.choice([None, "rms", "abs", "squared"])
    if s:
        c["strategy"] = s
    return c


def gen_clip(rng, tier, combo=None):
    xs = _seq(rng, _len(rng, tier), rng.random() < 0.5)
    combo = combo or rng.choice(["both", "both", "both", "low", "high", "none", "default", "bad", "equal"])
    a, b = sorted([_fr(rng), _fr(rng)])
    if combo == "both":
        low, high = a, b
    elif combo == "equal":
        low = high = a
    elif combo == "low":
        low, high = a, None
    elif combo == "high":
        low, high = None, b
    elif combo == "none":
        low = high = None
    elif combo == "bad":
        low, high = b, a
        if low == high:
            low = high + 1
    else:
        low, high = F(-1), F(1)
    if xs and low is not None and rng.random() < 0.5:          # samples exactly on / next to the limits
        xs[rng.randrange(len(xs))] = low
        xs[rng.randrange(len(xs))] = low - F(1, 7)
    if xs and high is not None and rng.random() < 0.5:
        xs[rng.randrange(len(xs))] = high
        xs[rng.randrange(len(xs))] = high + F(1, 7)
    return {"entry": "clip", "low": None if low is None else enc(low), "high": None if high is None else enc(high),
            "xs": _E(xs), "route": "default" if combo == "default" else rng.choice(["args", "stream"])}


def gen_zcross(rng, tier):
    h = rng.choice([F(0), F(0), F(1), F(1, 2), F(3, 2), _fr(rng).__abs__(), F(2)])
    neg = rng.random() < 0.04
    if neg:
        h = -h - F(1, 2)
    fs = rng.choice([F(0), F(0), F(0), F(1), F(-1), F(5, 2), F(-1, 3)])
    n = _len(rng, tier)
    eps = rng.choice([F(1, 8), F(1), F(1, 100)])
    pool = [F(0), h, -h, h + eps, -h - eps, h - eps, -h + eps, 2 * h + 1, -2 * h - 1, eps, -eps]
    mode = rng.random()
    if mode < 0.6:
        xs = [rng.choice(pool) for _ in range(n)]
    elif mode < 0.8:
        xs = _seq(rng, n, True)
    else:   # stays inside the band for a while, then leaves
        k = rng.randint(0, n)
        inside = [x for x in pool if -h <= x <= h] or [F(0)]
        xs = [rng.choice(inside) for _ in range(k)] + [rng.choice(pool) for _ in range(n - k)]
    ints = rng.random() < 0.1
    if ints:
        xs = [F(int(x)) for x in xs]
        h = F(int(h))
    return {"entry": "zcross", "hysteresis": enc(h), "first_sign": enc(fs), "xs": _E(xs), "ints": ints,
            "route": rng.choice(["kw", "default"]) if (h == 0 and fs == 0) else "kw"}


def gen_unwrap(rng, tier):
    step = rng.choice([F(1), F(2), F(2), F(3), F(1, 2), F(5, 3), F(7), abs(_fr(rng)) + F(1, 12)])
    md = rng.choice([step / 2, step / 2, step / 3, step, F(3, 2) * step, F(0), -F(1), step / 2 + F(1, 10), _fr(rng)])
    n = _len(rng, tier)
    xs = []
    cur = _fr(rng)
    for _ in range(n):
        xs.append(cur)
        r = rng.random()
        if r < 0.25:       # small move
            d = _fr(rng) / 10
        elif r < 0.45:     # exactly on / next to max_delta
            d = rng.choice([md, -md, md + F(1, 16), -md - F(1, 16), md - F(1, 16)])
        elif r < 0.65:     # multiple of step (+ half-step tie, + small)
            d = rng.randint(-3, 3) * step + rng.choice([F(0), step / 2, -step / 2, F(1, 9), -F(1, 9)])
        else:
            d = _fr(rng)
        cur = cur + d
    ints = rng.random() < 0.12
    if ints:
        xs = [F(int(x)) for x in xs]
        step = F(max(1, int(step)))
        md = F(int(md))
    return {"entry": "unwrap", "max_delta": enc(md), "step": enc(step), "xs": _E(xs), "ints": ints}


# ----------------------------------------------------------------------------------------------
# long-run stream: state that only misbehaves after many iterations
# ----------------------------------------------------------------------------------------------
EDGES = [255, 256, 257, 1023, 1024, 1025, 4095, 4096, 4097]
EDGES_THOROUGH = [8191, 8192, 8193, 16383, 16384, 16385]
EDGES_HUGE = [65535, 65536, 65537]       # 16-bit counters; 44100 / 48000: "once per second"
ENV_FLOAT_LEN = 150          # envelope: longer inputs go through the Float instance of the model
LONG = 64                    # the driver's `longLen`; the shrinker switches strategy above it


def _long_lengths(rng, tier, huge=0):
    """[(length, force_dense)]: around the powers of two, plus several thousand samples (one input beyond
    2**12, one beyond 5000, one beyond 2**13); `huge` >= 1 (tools whose model and specification cost O(1) per sample): one input
    beyond 2**16; in the thorough tier also one (huge = 1) or several (huge = 2) around 2**16 and the usual
    sample rates"""
    ls = [(n, _pow2(n - 1)) for n in EDGES]           # 2**k + 1 samples: always a dense input
    ls += [(rng.randint(5001, 6500), True), (rng.randint(8193, 9000), False)]
    if tier != "quick":
        ls.append((rng.randint(2000, 4000), False))
    if huge and tier == "quick":
        ls.append((rng.randint(65537, 70000), True))
    if tier != "quick":
        ls += [(n, _pow2(n - 1)) for n in EDGES_THOROUGH]
        ls += [(rng.randint(8200, 20000), i == 0) for i in range(4)]
        if huge:
            ls += [(65537, True), (44101, True)]
        if huge > 1:
            ls += [(65535, False), (65536, False), (44099, False), (48001, True), (rng.randint(70000, 100000), True)]
    return ls


HUGE = 60000                 # inputs beyond this carry integers only (cheap transport, exact anyway)


def _long_vals(rng, n, shape):
    """integer / dyadic samples (|numerator| <= 8, one denominator 2**e per input)"""
    den = 2 ** rng.choice([0, 0, 0, 1, 2, 3]) if n < HUGE else 1
    if shape == "dense":          # almost no zero: every position carries information
        pool = [v for v in range(-8, 9) if v] + [0]
        return [F(rng.choice(pool), den) for _ in range(n)]
    if shape == "impulse":        # a few samples at the start (and one anywhere), then silence
        xs = [F(0)] * n
        for i in range(min(n, rng.randint(1, 3))):
            xs[i] = F(rng.choice([-8, -3, -1, 1, 2, 5, 8]), den)
        if rng.random() < 0.5:
            xs[rng.randrange(n)] = F(rng.choice([-7, -1, 1, 4]), den)
        return xs
    if shape == "const":
        return [F(rng.choice([-8, -5, -1, 1, 3, 8]), den)] * n
    if shape == "sparse":
        return [F(rng.randint(-8, 8), den) if rng.random() < 1 / 64. else F(0) for _ in range(n)]
    if shape == "saw":
        a, m = rng.choice([1, 2, 3, 5, 7]), rng.choice([5, 16, 17, 31])
        return [F((i * a) % m - m // 2, den) for i in range(n)]
    if shape == "blocks":         # constant blocks of 2**k samples
        k = 2 ** rng.randint(4, 10)
        vs = [F(rng.randint(-8, 8), den) for _ in range(n // k + 1)]
        return [vs[i // k] for i in range(n)]
    raise ValueError(shape)


SHAPES = ["dense", "dense", "dense", "impulse", "const", "sparse", "saw", "blocks"]


def _kind(rng, c, allow_ints=True):
    """how the samples reach the impl: Fraction (default), int, or binary float (all exact)"""
    r = rng.random()
    nums = list(c["xs"]) + [c[k] for k in ("low", "high", "hysteresis", "first_sign", "max_delta", "step", "zero")
                            if c.get(k) is not None]
    if r < 0.3 and allow_ints and all(isinstance(v, int) for v in nums):
        c["ints"] = True
    elif r < 0.6 and all(_is_dyadic_j(v) for v in nums):
        c["floats"] = True
    return c


def gen_long(rng, tier):
    cases = []

    def add(c, shape):
        c["stream"] = "long:" + shape
        cases.append(c)

    # maverage: all three strategies, power-of-two sizes (exact floats); a dyadic `zero` history now and then
    # (the models cost O(size) exact operations per sample: large windows only in the thorough tier)
    # (size 1 is degenerate - the mean is the newest sample - and rare here)
    sizes = [2, 8, 1, 16, 4, 2, 8, 32, 4, 16, 2, 4]
    big = [64, 128, 256, 1024] if tier != "quick" else []
    for i, (n, dense) in enumerate(_long_lengths(rng, tier, huge=2)):
        shape = "dense" if dense else rng.choice(SHAPES)
        size = sizes[(i + rng.randrange(3)) % len(sizes)] if n < HUGE else rng.choice([2, 4])
        zero = rng.choice([F(0), F(0), F(0), F(3), F(-5, 2), F(1, 4)] if n < HUGE else [F(0), F(3)])
        c = {"entry": "maverage", "size": size, "zero": enc(zero), "xs": _E(_long_vals(rng, n, shape))}
        if rng.random() < 0.5:
            c[rng.choice(["floats", "ints"])] = True
            if c.get("ints") and not all(isinstance(v, int) for v in c["xs"]):
                del c["ints"]
        add(c, shape)
    for size in big:
        n = rng.choice([2049, 4097, rng.randint(2049, 4200)])
        add({"entry": "maverage", "size": size, "zero": enc(rng.choice([F(0), F(2)])),
             "xs": _E(_long_vals(rng, n, "dense")), "floats": True}, "dense")
    # float regime on long runs (window sizes that are no power of two, thirds): tolerance 1e-9, the round-off
    # of the running updates stays many orders below it
    for n in [1025, 4097, rng.randint(5001, 8200)]:
        c = {"entry": "maverage", "size": rng.choice([3, 5, 6, 7, 10, 12] + ([100] if tier != "quick" else [])),
             "zero": enc(rng.choice([F(0), F(1, 3)])), "xs": _E(_long_vals(rng, n, "dense"))}
        if rng.random() < 0.5:
            c["floats"] = True
        add(c, "dense")
    for n in [1025, rng.randint(4097, 8200)]:
        add({"entry": "amdf", "lag": rng.choice([1, 3, 10]), "size": rng.choice([3, 5, 10]), "zero": 0,
             "xs": _E(_long_vals(rng, n, "dense"))}, "dense")
    for n in [1025, rng.randint(4097, 8200)]:
        add({"entry": "accumulate", "xs": _E([x / 3 for x in _long_vals(rng, n, "dense")]), "ints": False,
             "zmode": "default"}, "dense")
    # accumulate: all four strategies
    for n, dense in _long_lengths(rng, tier, huge=2):
        shape = "dense" if dense else rng.choice(SHAPES)
        c = {"entry": "accumulate", "xs": _E(_long_vals(rng, n, shape)), "ints": False,
             "zmode": rng.choice(["int0", "default", "frac0"])}
        add(_kind(rng, c), shape)
    # amdf: lag filter + deque moving average
    for n, dense in _long_lengths(rng, tier):
        shape = "dense" if dense else rng.choice(SHAPES)
        lag = rng.choice([1, 1, 2, 3, 7, 16, 64] + ([100, 255] if tier != "quick" else []) +
                         ([1000, 1024] if tier != "quick" and n < 8200 else []))
        c = {"entry": "amdf", "lag": lag, "size": rng.choice([1, 2, 4, 8, 16, 64]),
             "zero": enc(rng.choice([F(0), F(0), F(3, 2)])), "xs": _E(_long_vals(rng, n, shape))}
        if rng.random() < 0.4:
            c["floats"] = True
        add(c, shape)
    # envelope (float regime, Float instance of the model)
    # (an input beyond 2**16 costs ~10 s here - six filter runs, float transport - so: thorough tier only)
    for n, dense in _long_lengths(rng, tier, huge=0 if tier == "quick" else 1):
        shape = "dense" if dense else rng.choice(SHAPES)
        c = {"entry": "envelope", "cutoff": rng.choice([math.pi / 512, 0.05, 0.5, rng.uniform(0.01, 3.0)]),
             "xs": _E(_long_vals(rng, n, shape)),
             "lp": rng.choice(["default", "default", "default", "pole", "z", "pole_exp", "z_exp"])}
        add(c, shape)
    # clip: stateless per sample - block-wise processing would show at block boundaries (beyond 2**16: thorough tier)
    for n, dense in _long_lengths(rng, tier, huge=0 if tier == "quick" else 2):
        shape = "dense" if dense else rng.choice(SHAPES)
        combo = rng.choice(["both", "both", "low", "high", "none", "default", "equal"])
        a, b = sorted([F(rng.randint(-6, 6), 2 if n < HUGE else 1), F(rng.randint(-6, 6), 2 if n < HUGE else 1)])
        low, high = {"both": (a, b), "low": (a, None), "high": (None, b), "none": (None, None),
                     "default": (F(-1), F(1)), "equal": (a, a)}[combo]
        c = {"entry": "clip", "low": None if low is None else enc(low), "high": None if high is None else enc(high),
             "xs": _E(_long_vals(rng, n, shape)),
             "route": "default" if combo == "default" else rng.choice(["args", "stream"])}
        add(_kind(rng, c, allow_ints=False), shape)
    # zcross: dense crossings, and a sign that has to be remembered through long quiet intervals
    for n, dense in _long_lengths(rng, tier, huge=2):
        shape = ("dense" if dense else "quiet" if _pow2(n) and n >= 1024 else
                 rng.choice(["dense", "quiet", "quiet", "sparse", "saw", "blocks"]))
        h = rng.choice([F(0), F(0), F(1), F(1, 2), F(2), F(3)] if n < HUGE else [F(0), F(1), F(2), F(3)])
        fs = rng.choice([F(0), F(0), F(1), F(-1)])
        if shape == "quiet":
            inside = [v for v in (F(0), h, -h, h / 2, -h / 2)]
            out_p, out_n = [h + 1, h + F(1, 2), 2 * h + 3], [-h - 1, -h - F(1, 2), -2 * h - 3]
            xs, sign = [], rng.choice([1, -1])
            while len(xs) < n:
                xs.append(rng.choice(out_p if sign > 0 else out_n))
                gap = rng.choice([rng.randint(1000, 1100), rng.randint(1, 40), rng.randint(250, 260), n // 3,
                                  rng.randint(4090, 4100)])
                xs.extend(rng.choice(inside) if rng.random() < 0.2 else F(0) for _ in range(gap))
                if rng.random() < 0.8:
                    sign = -sign
            xs = xs[:n - 1] + [rng.choice(out_p if sign > 0 else out_n)] if n > 1 else xs[:n]
        else:
            xs = _long_vals(rng, n, shape)
        c = {"entry": "zcross", "hysteresis": enc(h), "first_sign": enc(fs), "xs": _E(xs), "ints": False, "route": "kw"}
        add(_kind(rng, c), shape)
    # unwrap: random walk with many large jumps; wrapped ramp (typical use); one early jump then a plateau
    for n, dense in _long_lengths(rng, tier, huge=2):
        shape = "walk" if dense else rng.choice(["walk", "walk", "ramp", "plateau", "saw"])
        step = rng.choice([F(1), F(2), F(2), F(3), F(1, 2), F(7), F(5, 3)])
        md = rng.choice([step / 2, step / 2, step / 4, step, F(0), step / 2 + F(1, 8)])
        if n >= HUGE:              # integer walk
            step = F(rng.choice([2, 3, 7, 16]))
            md = F(rng.choice([int(step / 2), int(step), 0, 1]))
            xs, cur = [], F(rng.randint(-8, 8))
            for _ in range(n):
                xs.append(cur)
                r = rng.random()
                if r < 0.5:
                    d = F(rng.choice([-1, 0, 1, int(md), -int(md), int(md) + 1, -int(md) - 1]))
                elif r < 0.85:
                    d = rng.randint(-3, 3) * step + rng.choice([-1, 0, 0, 1, int(step) // 2])
                else:
                    d = F(rng.randint(-40, 40))
                cur += d
                if abs(cur) > 99:
                    cur -= 99 * (1 if cur > 0 else -1)
        elif shape == "walk":
            xs, cur = [], F(rng.randint(-8, 8), 4)
            for _ in range(n):
                xs.append(cur)
                r = rng.random()
                if r < 0.4:
                    d = F(rng.randint(-8, 8), 16)
                elif r < 0.6:
                    d = rng.choice([md, -md, md + F(1, 16), -md - F(1, 16), md - F(1, 16)])
                elif r < 0.85:
                    d = rng.randint(-3, 3) * step + rng.choice([F(0), step / 2, -step / 2, F(1, 8), -F(1, 8)])
                else:
                    d = F(rng.randint(-40, 40), 8)
                cur += d
                if abs(cur) > 64:          # keep the numbers short
                    cur -= 64 * (1 if cur > 0 else -1)
        elif shape == "ramp":      # a line wrapped into [-step/2, step/2): unwrap must give the line back
            a = rng.choice([F(1, 8), F(3, 16), -F(1, 4), F(5, 16)]) * step
            xs = [(i * a + step / 2) % step - step / 2 for i in range(n)]
        elif shape == "plateau":   # the correction of an early jump has to survive a long flat stretch
            xs = [F(0)] * min(n, rng.randint(1, 3))
            lvl = rng.choice([2, 3, -2, 5]) * step + rng.choice([F(0), F(1, 8)])
            while len(xs) < n:
                xs.append(lvl + (F(rng.randint(-1, 1), 16) if rng.random() < 0.1 else 0))
        else:
            xs = [x * step / 4 for x in _long_vals(rng, n, "saw")]
        c = {"entry": "unwrap", "max_delta": enc(md), "step": enc(step), "xs": _E(xs), "ints": False}
        add(_kind(rng, c), shape)
    return cases


GENS = [(gen_maverage, 18), (gen_accumulate, 10), (gen_amdf, 12), (gen_envelope, 6), (gen_clip, 16),
        (gen_zcross, 20), (gen_unwrap, 18), (gen_envelope_var, 3)]


def _exhaustive():
    cases = []
    vals = [F(-1), F(0), F(1)]
    # zcross: every sequence of length <= 4 over {-2,-1,0,1,2} x h in {0,1} x first_sign in {-1,0,1}
    import itertools
    zv = [F(-2), F(-1), F(0), F(1), F(2)]
    for n in range(0, 5):
        for xs in itertools.product(zv, repeat=n):
            for h in (F(0), F(1)):
                for fs in (-1, 0, 1):
                    if n == 4 and (hash((xs, h, fs)) % 3):      # thin out the largest layer (PYTHONHASHSEED=0)
                        continue
                    cases.append({"entry": "zcross", "hysteresis": enc(h), "first_sign": fs, "xs": _E(xs),
                                  "ints": False, "route": "kw"})
    # clip: every limit combination over a small grid, one fixed input crossing all limits
    lim = [None, F(-1), F(0), F(1, 2), F(2)]
    xs = [F(-3), F(-1), F(-1, 2), F(0), F(1, 4), F(1, 2), F(1), F(2), F(5, 2)]
    for lo in lim:
        for hi in lim:
            cases.append({"entry": "clip", "low": None if lo is None else enc(lo), "high": None if hi is None else enc(hi),
                          "xs": _E(xs), "route": "args"})
    # maverage / amdf / accumulate / unwrap on the empty and one-item inputs, all small sizes
    for size in range(1, 10):
        for n in (0, 1, 2, size, size + 1):
            cases.append({"entry": "maverage", "size": size, "zero": 0, "xs": _E([F(k + 1) for k in range(n)])})
        for lag in range(0, 5):
            cases.append({"entry": "amdf", "lag": lag, "size": size, "zero": 0,
                          "xs": _E([F((-2) ** k, 4) for k in range(lag + size + 2)])})
    for size in range(1, 41):
        cases.append({"entry": "coeffs", "size": size, "lag": size - 1, "xs": []})
    for n in range(0, 4):
        for xs in itertools.product(vals, repeat=n):
            cases.append({"entry": "accumulate", "xs": _E(xs), "ints": False, "zmode": "int0"})
            cases.append({"entry": "unwrap", "max_delta": 1, "step": 2, "xs": _E([3 * x for x in xs]), "ints": n % 2 == 0})
    return cases


def _maybe_floats(rng, c):
    """binary floats as samples / parameters when every number of the case is dyadic (float arithmetic is then exact)"""
    if c["entry"] not in ("accumulate", "clip", "zcross", "unwrap") or c.get("ints") or rng.random() > 0.35:
        return c
    nums = list(c["xs"]) + [c[k] for k in ("low", "high", "hysteresis", "first_sign", "max_delta", "step")
                            if c.get(k) is not None]
    if all(_is_dyadic(dec(v)) for v in nums):
        c["floats"] = True
    return c


def generate(rng, tier, scale=1):
    # The driver (a child process, environment inherited) now handles requests of up to 10**5 samples: keep
    # the Lean runtime's allocator (mimalloc) from returning freed pages to the OS between requests - re-faulting
    # them costs more than the computation on a loaded host.  Allocator tuning only (peak ~50 MB).
    os.environ.setdefault("MIMALLOC_PURGE_DELAY", "-1")
    total = (8000 if tier == "quick" else 60000) * scale
    cases = []
    if scale == 1:
        cases.extend(_exhaustive())
        for combo in ["both", "low", "high", "none", "default", "bad", "equal"]:
            for _ in range(6):
                cases.append(gen_clip(rng, tier, combo))
    cases.extend(gen_long(rng, tier))        # same amount in the search's fresh batch (scale 4), new inputs
    if scale == 1:
        cases.extend(calls.exhaustive())
    cases.extend(calls.generate(rng, tier))  # the call layer: shapes x spellings x input kinds x strategies
    wsum = sum(w for _, w in GENS)
    for g, w in GENS:
        for _ in range(total * w // wsum):
            cases.append(_maybe_floats(rng, g(rng, tier)))
    return cases


# ----------------------------------------------------------------------------------------------
# the real code
# ----------------------------------------------------------------------------------------------
def _vals(c):
    xs = decl(c["xs"])
    if c.get("ints"):
        xs = [int(x) for x in xs]
    elif c.get("floats"):
        xs = [float(x) for x in xs]
    return xs


def _num(j, ints=False, floats=False):
    v = dec(j)
    return int(v) if ints else float(v) if floats else v


def _run(thunk):
    try:
        return encl(list(thunk()))
    except Exception as e:      # noqa
        return {"err": err_kind(e)}


def _lowpass(c):
    from audiolazy import lowpass
    lp = c.get("lp", "default")
    f = lowpass(c["cutoff"]) if lp == "default" else lowpass[lp](c["cutoff"])
    return f


def _is_call(c):
    return c["entry"].endswith("_call")


def impl(c):
    import audiolazy as al
    e = c["entry"]
    if _is_call(c):
        return calls.impl(c)
    xs = _vals(c)
    if e == "maverage":
        zero = dec(c["zero"])
        return {s: _run(lambda s=s: al.maverage[s](c["size"])(iter(xs), zero=zero)) for s in ("deque", "recursive", "fir")}
    if e == "accumulate":
        zm = c.get("zmode", "int0")
        if zm == "default":
            zf = lambda: al.accumulate.z(iter(xs))
        else:
            zf = lambda: al.accumulate.z(iter(xs), zero=(0 if zm == "int0" else F(0)))
        return {"func": _run(lambda: al.accumulate.func(iter(xs))),
                "it": _run(lambda: al.accumulate.accumulate(iter(xs))),
                "default": _run(lambda: al.accumulate(iter(xs))),
                "z": _run(zf)}
    if e == "coeffs":
        def co(f):
            if not isinstance(f, al.LinearFilter):      # the strategy is no longer the filter object the model describes
                return {"err": "not a LinearFilter: %s" % type(f).__name__}
            den = list(f.denominator)
            if den[0] != 1:
                return {"err": "a0 != 1"}
            return {"b": encl(f.numerator), "a": encl(den[1:])}
        obs = {"recursive": co(al.maverage.recursive(c["size"])), "fir": co(al.maverage.fir(c["size"])),
               "acc": co(al.accumulate.z)}
        g = al.amdf(c["lag"], c["size"])
        g = getattr(g, "__wrapped__", g)
        filt = [x.cell_contents for x in (g.__closure__ or ()) if isinstance(x.cell_contents, al.LinearFilter)]
        obs["lag"] = co(filt[0]) if len(filt) == 1 else {"err": "lag filter not found in the closure"}
        return obs
    if e == "amdf":
        zero = dec(c["zero"])
        return {"out": _run(lambda: al.amdf(c["lag"], c["size"])(iter(xs), zero=zero))}
    if e == "envelope":
        cut = c["cutoff"]
        f = _lowpass(c)
        obs = {"b": encl(f.numerator), "a": encl(f.denominator)}
        if c.get("lp", "default") == "default":
            obs["abs"] = _run(lambda: al.envelope.abs(iter(xs), cutoff=cut))
            obs["squared"] = _run(lambda: al.envelope.squared(iter(xs), cutoff=cut))
            obs["rms"] = _run(lambda: al.envelope.rms(iter(xs), cutoff=cut))
            obs["default"] = _run(lambda: al.envelope(iter(xs), cutoff=cut))
        # the defining expressions, with the impl's own low-pass
        obs["def_abs"] = _run(lambda: f(abs(x) for x in xs))
        obs["def_squared"] = _run(lambda: f(x ** 2 for x in xs))
        return obs
    if e == "envelope_var":
        fx = [float(x) for x in xs]
        cs = [float(dec(v)) for v in c["cutoffs"]]
        kind = c.get("ckind", "list")
        mk = lambda: cs if kind == "list" else tuple(cs) if kind == "tuple" else iter(cs) if kind == "iter" else al.Stream(cs)
        f = al.envelope if c.get("strategy") is None else al.envelope[c["strategy"]]
        obs = {"out": _run(lambda: f(iter(fx), cutoff=mk()))}
        if cs and len(cs) >= len(fx) and all(v == cs[0] for v in cs):
            obs["const"] = _run(lambda: f(iter(fx), cutoff=cs[0]))
        return obs
    if e == "clip":
        lo = None if c["low"] is None else _num(c["low"], False, c.get("floats"))
        hi = None if c["high"] is None else _num(c["high"], False, c.get("floats"))
        route = c.get("route", "args")
        if route == "default":
            call = lambda s: al.clip(s)
        elif route == "stream":
            call = lambda s: al.clip(al.Stream(s), low=lo, high=hi)
        else:
            call = lambda s: al.clip(iter(s), lo, hi)
        out = _run(lambda: call(xs))
        obs = {"out": out}
        if isinstance(out, list):
            obs["twice"] = _run(lambda: call(decl(out)))
        return obs
    if e == "zcross":
        h = _num(c["hysteresis"], c.get("ints"), c.get("floats"))
        fs = _num(c["first_sign"], isinstance(c["first_sign"], int) and not c.get("floats"), c.get("floats"))
        if c.get("route") == "default":
            return {"out": _run(lambda: al.zcross(iter(xs)))}
        return {"out": _run(lambda: al.zcross(iter(xs), hysteresis=h, first_sign=fs))}
    if e == "unwrap":
        md = _num(c["max_delta"], c.get("ints"), c.get("floats"))
        st = _num(c["step"], c.get("ints"), c.get("floats"))
        return {"out": _run(lambda: al.unwrap(iter(xs), max_delta=md, step=st))}
    raise ValueError("unknown entry " + e)


def request(c):
    if _is_call(c):
        return calls.request(c)
    r = {k: v for k, v in c.items() if k not in ("ints", "floats", "route", "zmode", "cutoff", "lp", "stream", "ckind")}
    if c["entry"] == "envelope":
        f = _lowpass(c)
        if len(c["xs"]) > ENV_FLOAT_LEN:       # long input: the model runs at Float (see TRUSTED)
            r["entry"] = "envelope_float"
            a0 = float(list(f.denominator)[0])
            r["b"] = [enc(float(x) / a0) for x in f.numerator]
            r["a"] = [enc(float(x) / a0) for x in list(f.denominator)[1:]]
            return r
        den = [F(x) for x in f.denominator]
        num = [F(x) for x in f.numerator]
        a0 = den[0]
        r["b"] = [enc(x / a0) for x in num]
        r["a"] = [enc(x / a0) for x in den[1:]]
    return r


# ----------------------------------------------------------------------------------------------
# comparison
# ----------------------------------------------------------------------------------------------
def exact_regime(c):
    """True when binary floating point is exact for this case (or no float is injected at all)."""
    e = c["entry"]
    if e in ("clip", "zcross", "unwrap"):
        return True
    dy = all(_is_dyadic_j(x) for x in c["xs"]) and _is_dyadic_j(c.get("zero", 0))
    if e in ("maverage", "amdf"):
        return dy and _pow2(c["size"])
    if e == "accumulate":
        return True if c.get("zmode") != "default" else dy
    return False


_DIFF_AT = None       # a list while `_first_bad_output` runs: output positions where impl and Lean part


def _cmp(out, kind, name, got, want, tol):
    if got == want:          # identical canonical encodings (the common case; long lists are not decoded)
        return
    if isinstance(got, dict) or isinstance(want, dict):
        out.append((kind, "%s: impl=%s lean=%s" % (name, _s(got), _s(want))))
        return
    i = _diff_index(got, want, tol)
    if i is not None:
        if _DIFF_AT is not None:
            _DIFF_AT.append(i)
        where = ""
        if len(got) != len(want):
            where = " [lengths %d / %d]" % (len(got), len(want))
        elif len(got) > 12:
            where = " [first difference at output #%d of %d: impl=%s lean=%s]" % (i, len(got), got[i], want[i])
        out.append((kind, "%s: impl=%s lean=%s%s" % (name, _s(got), _s(want), where)))


def _s(x):
    s = repr(x)
    return s if len(s) < 160 else s[:160] + "..."


def _flt(j):
    """float value of an encoded number (int / int of big integers is correctly rounded)"""
    if isinstance(j, int):
        return float(j)
    p, _, q = j.partition("/")
    return int(p) / int(q) if q else float(j)


def _diff_index(got, want, tol):
    """None when the two encoded lists agree (within tol), else the first position where they part (the
    common length when one is a proper prefix of the other); only differing encodings are decoded, and in
    the tolerance regime pairs that agree with a wide margin in float arithmetic are accepted without
    building Fractions (the exact test decides the rest)"""
    ftol = float(tol) * 0.99
    for i, (a, b) in enumerate(zip(got, want)):
        if a != b:
            if ftol:
                try:
                    fa, fb = _flt(a), _flt(b)
                    if abs(fa - fb) <= ftol * (1 + abs(fb)):      # also False for NaN / inf
                        continue
                except (ValueError, OverflowError, ZeroDivisionError):
                    pass
            if not close(dec(a), dec(b), tol):
                return i
    return None if len(got) == len(want) else min(len(got), len(want))


def compare(c, io, drv):
    if _is_call(c):
        return calls.compare(c, io, drv, _cmp, TOL)
    out = []
    e = c["entry"]
    tol = 0 if exact_regime(c) else TOL
    if e == "maverage":
        for s in ("deque", "recursive", "fir"):
            _cmp(out, "model", "maverage." + s, io[s], drv[s], tol)
            _cmp(out, "spec", "maverage.%s vs mean of last size samples" % s, io[s], drv["spec"], tol)
            if "closed" in drv:      # the (cubic) indexed form is evaluated on short inputs only
                _cmp(out, "spec", "maverage.%s vs indexed closed form" % s, io[s], drv["closed"], tol)
    elif e == "accumulate":
        for s, m in (("func", "func"), ("it", "it"), ("default", "it"), ("z", "z")):
            t = tol if s == "z" else 0
            _cmp(out, "model", "accumulate." + s, io[s], drv[m], t)
            _cmp(out, "spec", "accumulate.%s vs running sums" % s, io[s], drv["spec"], t)
    elif e == "amdf":
        _cmp(out, "model", "amdf", io["out"], drv["model"], tol)
        _cmp(out, "spec", "amdf vs moving average of |x[n]-x[n-lag]|", io["out"], drv["spec"], tol)
    elif e == "coeffs":
        for k in ("recursive", "fir", "lag", "acc"):
            if k not in io:
                out.append(("model", "coefficients of %s: the impl side failed: %s" % (k, _s(io))))
                continue
            if "err" in io[k]:
                out.append(("model", "coefficients of %s: %s" % (k, io[k]["err"])))
                continue
            b, a = decl(io[k]["b"]), decl(io[k]["a"])
            if k == "lag" and c["lag"] == 0:
                b = b or [F(0)]          # the zero polynomial has an empty coefficient list
            ctol = 0 if _pow2(c["size"]) else F(1, 10 ** 15)
            if not (close_list(b, decl(drv[k + "_b"]), ctol) and close_list(a, decl(drv[k + "_a"]), ctol)):
                out.append(("model", "coefficients of %s filter: impl b=%s a=%s lean b=%s a=%s" % (
                    k, _s(io[k]["b"]), _s(io[k]["a"]), _s(drv[k + "_b"]), _s(drv[k + "_a"]))))
    elif e == "envelope":
        _cmp(out, "model", "lowpass(|x|) vs model", io["def_abs"], drv["abs"], TOL)
        _cmp(out, "model", "lowpass(x^2) vs model", io["def_squared"], drv["squared"], TOL)
        if "abs" in io:
            _cmp(out, "model", "envelope.abs", io["abs"], drv["abs"], TOL)
            _cmp(out, "model", "envelope.squared", io["squared"], drv["squared"], TOL)
            _cmp(out, "spec", "envelope.abs vs lowpass(cutoff)(|x|)", io["abs"], io["def_abs"], 0)
            _cmp(out, "spec", "envelope.squared vs lowpass(cutoff)(x^2)", io["squared"], io["def_squared"], 0)
            _cmp(out, "spec", "envelope (default) vs envelope.rms", io["default"], io["rms"], 0)
            if isinstance(io["rms"], list) and isinstance(io["def_squared"], list):
                want = [enc(float(dec(v)) ** .5) if dec(v) >= 0 else "nan" for v in io["def_squared"]]
                _cmp(out, "spec", "envelope.rms vs sqrt(lowpass(cutoff)(x^2))", io["rms"], want, TOL)
            else:
                _cmp(out, "spec", "envelope.rms", io["rms"], io["def_squared"], TOL)
    elif e == "envelope_var":
        what = "envelope%s(sig, cutoff=<%s of %d cutoffs>)" % ("" if c.get("strategy") is None else "." + c["strategy"],
                                                            c.get("ckind", "list"), len(c["cutoffs"]))
        _cmp(out, "model", what, io["out"], drv["model"], TOL)
        _cmp(out, "spec", what + " vs y[n] = (1-R(c[n])) u[n] + R(c[n]) y[n-1]", io["out"], drv["spec"], TOL)
        if "const" in io:
            _cmp(out, "spec", what + " vs the same constant cutoff given as a number", io["out"], io["const"], TOL)
    elif e == "clip":
        _cmp(out, "model", "clip", io["out"], drv["model"], 0)
        _cmp(out, "spec", "clip vs min(high, max(low, x))", io["out"], drv["spec"], 0)
        if "twice" in io:
            _cmp(out, "model", "clip(clip(x))", io["twice"], drv["twice"], 0)
            _cmp(out, "spec", "clip idempotent", io["twice"], io["out"], 0)
        if not drv["bounded"]:
            out.append(("spec", "clip output outside the limits"))
    elif e == "zcross":
        _cmp(out, "model", "zcross", io["out"], drv["model"], 0)
        if dec(c["hysteresis"]) >= 0:
            _cmp(out, "spec", "zcross vs closed characterisation", io["out"], drv["spec"], 0)
    elif e == "unwrap":
        _cmp(out, "model", "unwrap", io["out"], drv["model"], 0)
        _cmp(out, "spec", "unwrap vs cumulative correction", io["out"], drv["spec"], 0)
        if not (drv["multiple"] and drv["adjacent"]):
            out.append(("spec", "unwrap model output violates multiple-of-step / adjacent-jump bound"))
    return out


# ----------------------------------------------------------------------------------------------
# statistics, shrinking, search
# ----------------------------------------------------------------------------------------------
def _list(io, k):
    v = io.get(k)
    return decl(v) if isinstance(v, list) else None


def nontrivial(c, io):
    if _is_call(c):
        return calls.nontrivial(c, io)
    if c["entry"] == "coeffs":
        return True
    if not c["xs"]:
        return False
    e = c["entry"]
    xs = decl(c["xs"])
    if e == "clip":
        out = _list(io, "out")
        return out is None or out != xs
    if e == "zcross":
        out = _list(io, "out")
        return bool(out and any(out)) or dec(c["hysteresis"]) != 0 or dec(c["first_sign"]) != 0
    if e == "unwrap":
        out = _list(io, "out")
        return out is not None and out != xs
    for k in ("deque", "func", "out", "def_abs"):
        v = _list(io, k)
        if v is not None:
            return any(v)
    return True


def _len_bucket(n):
    """input-length buckets; the lengths right at a power of two have buckets of their own"""
    if n <= 1:
        return str(n)
    if n <= 12:
        return "2-12"
    if n <= LONG:
        return "13-64"
    lo = LONG + 1
    for k in (8, 10, 12, 13, 14, 16):
        p = 2 ** k
        if n < p - 1:
            return "%d-%d" % (lo, p - 2)
        if n <= p + 1:
            return "%d-%d (2^%d-1..2^%d+1)" % (p - 1, p + 1, k, k)
        lo = p + 2
    return "%d+" % lo


def tally(eng, c, io):
    e = c["entry"]
    eng.count("entry", e)
    if _is_call(c):
        eng.count("len", _len_bucket(len(c["xs"])))
        return calls.tally(eng, c, io)
    n = len(c["xs"])
    eng.count("len", _len_bucket(n))
    if n > LONG:
        eng.count("long_run_len", "%s:%s" % (e, _len_bucket(n)))
        eng.count("long_run_shape", "%s:%s" % (e, c.get("stream", "long:other")[5:]))
        if e in ("maverage", "amdf"):
            eng.count("long_run_size", "%s:size=%s" % (e, c["size"] if _pow2(c["size"]) else "non-pow2"))
    if e in ("maverage", "amdf", "accumulate", "envelope"):
        eng.count("regime", e + (":exact" if exact_regime(c) else ":float"))
    if e in ("maverage", "amdf"):
        eng.count("size", c["size"] if c["size"] <= 9 else "10+")
        eng.count("len_vs_size", "len<size" if n < c["size"] else "len=size" if n == c["size"] else "len>size")
        eng.count("zero", "zero=0" if dec(c["zero"]) == 0 else "zero!=0")
    if e == "amdf":
        eng.count("lag", c["lag"] if c["lag"] <= 8 else "9+")
    if e == "envelope":
        eng.count("lowpass", c.get("lp", "default"))
    if e == "envelope_var":
        cs = c["cutoffs"]
        eng.count("envelope_var", "%s:%s, %s" % (c.get("strategy") or "<default>", c.get("ckind"),
                  "constant" if cs and all(v == cs[0] for v in cs) else "varying"))
        eng.count("envelope_var_lengths", "cutoffs shorter" if len(cs) < n else "equal" if len(cs) == n else "cutoffs longer")
    if e == "clip":
        lo, hi = c["low"], c["high"]
        combo = ("none" if lo is None else "low") + "-" + ("none" if hi is None else "high")
        if lo is not None and hi is not None:
            combo += ":low>high" if dec(lo) > dec(hi) else ":low=high" if dec(lo) == dec(hi) else ""
        eng.count("clip_limits", combo + (":default-args" if c.get("route") == "default" else ""))
        out = decl(io["out"][:4100]) if isinstance(io.get("out"), list) else None
        if out is not None:          # (per-sample statistics of a long input: its first 4100 samples)
            xs = decl(c["xs"][:4100])
            eng.count("clip_branch", "clipped-high", sum(1 for x, y in zip(xs, out) if y < x))
            eng.count("clip_branch", "clipped-low", sum(1 for x, y in zip(xs, out) if y > x))
            eng.count("clip_branch", "untouched", sum(1 for x, y in zip(xs, out) if y == x))
            if lo is not None:
                eng.count("clip_branch", "sample==low", sum(1 for x in xs if x == dec(lo)))
            if hi is not None:
                eng.count("clip_branch", "sample==high", sum(1 for x in xs if x == dec(hi)))
    if e == "zcross":
        h, fs = dec(c["hysteresis"]), dec(c["first_sign"])
        eng.count("zcross_hysteresis", "h=0" if h == 0 else "h>0" if h > 0 else "h<0 (model only)")
        eng.count("zcross_first_sign", "0" if fs == 0 else "+" if fs > 0 else "-")
        xs = decl(c["xs"][:4100])
        out = io["out"] if isinstance(io.get("out"), list) else None
        if out is not None:
            k = sum(out)
            eng.count("zcross_crossings", k if k <= 3 else "4+")
            if fs == 0:
                eng.count("zcross_phase1", "never leaves band" if all(-h <= x <= h for x in xs) else "leaves band")
            eng.count("zcross_samples", "on threshold", sum(1 for x in xs if abs(x) == h))
            eng.count("zcross_samples", "outside band", sum(1 for x in xs if abs(x) > h))
            eng.count("zcross_samples", "inside band", sum(1 for x in xs if abs(x) < h))
    if e == "unwrap":
        md, st = dec(c["max_delta"]), dec(c["step"])
        xs = decl(c["xs"][:4100])            # (jump statistics of a long input: its first 4100 samples)
        big = [d for d in (b - a for a, b in zip(xs, xs[1:])) if abs(d) > md]
        eng.count("unwrap_jumps", "jumps>max_delta", len(big))
        eng.count("unwrap_jumps", "jumps<=max_delta", max(0, len(xs) - 1 - len(big)))
        eng.count("unwrap_jumps", "jump==max_delta", sum(1 for a, b in zip(xs, xs[1:]) if abs(b - a) == md))
        eng.count("unwrap_jumps", "half-step tie", sum(1 for d in big if (d % st) * 2 == st))
        eng.count("unwrap_jumps", "jump multiple of step", sum(1 for d in big if d % st == 0))
        eng.count("unwrap_maxdelta", "md<step/2" if md < st / 2 else "md=step/2" if md == st / 2 else "md>step/2")
        if isinstance(io.get("out"), list):
            eng.count("unwrap_effect", "changed" if io["out"] != c["xs"] else "identity")
    if c.get("ints"):
        eng.count("input_kind", e + ":int")
    elif c.get("floats"):
        eng.count("input_kind", e + ":float (dyadic, exact)")
    else:
        eng.count("input_kind", e + ":Fraction")
    for k, v in io.items():
        if isinstance(v, dict) and "err" in v:
            eng.count("impl_error", "%s.%s:%s" % (e, k, v["err"]))


def _simpler(v):
    v = dec(v)
    cands = []
    if v != 0:
        cands.append(F(0))
    if v.denominator != 1:
        cands.append(F(int(v)))
        cands.append(F(round(v)))
    if abs(v) > 1:
        cands.append(F(1) if v > 0 else F(-1))
        cands.append(v / 2 if v.denominator == 1 and v.numerator % 2 == 0 else F(int(v / 2)))
    return [enc(x) for x in cands if x != v]


def _in_domain(c):
    if _is_call(c):
        return True
    """the quantifier of the property (see ASSUMPTIONS); shrinking / neighbour search stay inside it"""
    if c["entry"] == "amdf" and c["lag"] == 0 and dec(c["zero"]) != 0:
        return False     # 1 - z**0 is the zero polynomial: LinearFilter then yields `zero` itself (C04's corner)
    if c["entry"] in ("maverage", "amdf", "coeffs") and c["size"] < 1:
        return False
    if c["entry"] == "amdf" and c["lag"] < 0:
        return False
    if c["entry"] == "unwrap" and dec(c["step"]) <= 0:
        return False
    return True


def shrink(c):
    if _is_call(c):
        return list(calls.shrink(c))
    return [d for d in _shrink(c) if _in_domain(d)]


def neighbours(c):
    if _is_call(c):
        return list(calls.neighbours(c))
    return [d for d in _neighbours(c) if _in_domain(d)]


_DRIVER = None
_CUT = set()          # input lengths already cut right behind the first wrong output


def _first_bad_output(c):
    """position of the first output on which the impl and the Lean side disagree (one extra evaluation, done
    while shrinking only): every tool is causal, so the input can be cut right behind it"""
    global _DIFF_AT, _DRIVER
    if len(c["xs"]) in _CUT:
        return len(c["xs"]) - 1
    try:
        if _DRIVER is None:
            _DRIVER = common.Driver()
        io = impl(c)
        drv = _DRIVER.batch([dict(request(c), id=ID)])[0]
        _DIFF_AT = []
        compare(c, io, drv.get("ok", drv))
        if _DIFF_AT:
            _CUT.add(min(_DIFF_AT) + 1)
        return min(_DIFF_AT) if _DIFF_AT else None
    except Exception:       # noqa  (no shortcut then; the engine evaluates the ordinary candidates)
        return None
    finally:
        _DIFF_AT = None


def _shrink_long(c):
    """inputs of more than LONG samples.  A failure that needs many iterations keeps its length, and every
    candidate costs a long run, so there are few candidates per round:
    (1) cut the input right behind the first wrong output (found by one evaluation here), or by halves;
    (2) simplify all values at once (0/1, signs, integers), length kept;
    (3) zero out aligned blocks, coarse to fine (one granularity per round on very long inputs), then single
        samples.
    Yields (candidate, params_too): the parameters are simplified at the start and at the end only."""
    xs = c["xs"]
    n = len(xs)
    vals = decl(xs)
    simple = all(v in (-1, 0, 1) for v in vals)
    nz = [i for i, v in enumerate(vals) if v != 0]
    i0 = _first_bad_output(c)
    if i0 is not None and i0 + 1 < n:               # (1)
        yield dict(c, xs=xs[:i0 + 1])
        if i0 + 2 < n:
            yield dict(c, xs=xs[:i0 + 2])
    elif i0 is None:
        for k in range(n.bit_length() - 1, -1, -1):
            if (1 << k) < n:
                yield dict(c, xs=xs[:n - (1 << k)])
    for k in ([n // 2, n // 4, 1] if not simple else [1]):
        if 0 < k < n:
            yield dict(c, xs=xs[k:])
    if not simple:
        for f in (lambda v: F(1) if v else F(0),    # (2)
                  lambda v: F((v > 0) - (v < 0)),
                  lambda v: F(int(v)),
                  lambda v: F(int(v / 2)),
                  abs):
            ys = [enc(f(v)) for v in vals]
            if ys != xs:
                yield dict(c, xs=ys)
    g, levels = 1 << (n.bit_length() - 1), 0        # (3) zero blocks that still hold something
    max_levels = 1 if n > 8200 else 2 if not simple else 4
    while g >= 1 and nz and levels < max_levels:
        seen = []
        for i in nz:
            if i // g not in seen:
                seen.append(i // g)
        cand = [b for b in seen if not (b * g <= nz[0] and nz[-1] < (b + 1) * g)]
        if cand:
            levels += 1
            for b in cand[:2] + cand[-2:] if len(cand) > 4 else cand:
                lo, hi = b * g, min(n, (b + 1) * g)
                yield dict(c, xs=xs[:lo] + [0] * (hi - lo) + xs[hi:])
        g >>= 1
    if len(nz) <= 8:
        for i in nz:
            for sv in _simpler(xs[i])[:2]:
                yield dict(c, xs=xs[:i] + [sv] + xs[i + 1:])


def _shrink(c):
    if "stream" in c:            # the generator's tag describes the unshrunk input only
        c = {k: v for k, v in c.items() if k != "stream"}
    xs = c["xs"]
    n = len(xs)
    if n > LONG:
        for d in _shrink_long(c):
            yield d
        if n > 8200 and 2 < sum(1 for v in xs if v != 0) and all(v in (-1, 0, 1) for v in xs):
            return           # very long input being zeroed block by block: the parameters wait
    elif n:
        yield dict(c, xs=xs[:-1])
        yield dict(c, xs=xs[1:])
        if n > 3:
            yield dict(c, xs=xs[:n // 2])
            yield dict(c, xs=xs[n // 2:])
        for i in range(min(n, 24)):
            yield dict(c, xs=xs[:i] + xs[i + 1:])
        for i in range(min(n, 24)):
            for s in _simpler(xs[i])[:2]:
                yield dict(c, xs=xs[:i] + [s] + xs[i + 1:])
    for k in ("size", "lag"):
        if k in c and c[k] > (1 if k == "size" else 0):
            yield dict(c, **{k: c[k] - 1})
            if c[k] > 2:
                yield dict(c, **{k: c[k] // 2})
    for k in ("zero", "hysteresis", "first_sign", "max_delta", "step", "low", "high"):
        if k in c and c[k] is not None:
            for s in _simpler(c[k])[:2]:
                if k == "step" and dec(s) <= 0:
                    continue
                if k == "hysteresis" and dec(s) < 0:
                    continue
                yield dict(c, **{k: s})
    if c.get("ints"):
        yield dict(c, ints=False)
    if c.get("floats"):
        yield dict(c, floats=False)
    if c.get("route") in ("stream",):
        yield dict(c, route="args")
    if c["entry"] == "envelope" and c.get("cutoff") != 0.5:
        yield dict(c, cutoff=0.5)
    if c["entry"] == "envelope_var":
        cs = c["cutoffs"]
        if cs:
            yield dict(c, cutoffs=cs[:-1])
            yield dict(c, cutoffs=cs[1:])
            if any(v != cs[0] for v in cs):
                yield dict(c, cutoffs=[cs[0]] * len(cs))
        if c.get("ckind") != "list":
            yield dict(c, ckind="list")


def _neighbours(c):
    xs = c["xs"]
    for i in range(min(len(xs), 16)):
        v = dec(xs[i])
        for w in (F(0), -v, v + 1, v - 1, v * 2):
            if w != v:
                yield dict(c, xs=xs[:i] + [enc(w)] + xs[i + 1:])
    yield dict(c, xs=xs + [1])
    yield dict(c, xs=xs + ["-7/2"])
    yield dict(c, xs=[])
    for k in ("size", "lag"):
        if k in c:
            yield dict(c, **{k: c[k] + 1})
            if c[k] > 1:
                yield dict(c, **{k: c[k] - 1})
    for k in ("zero", "hysteresis", "first_sign", "max_delta", "step", "low", "high"):
        if k in c and c[k] is not None:
            v = dec(c[k])
            for w in (v + 1, v - 1, v / 2, -v, F(0)):
                if k == "step" and w <= 0:
                    continue
                if k == "hysteresis" and w < 0:
                    continue
                yield dict(c, **{k: enc(w)})


def classify(c, io, drv):
    """operation + failing condition + error kind"""
    e = c["entry"]
    if _is_call(c):
        e = calls.describe(c)
    empty = "empty-input" if not c["xs"] else "nonempty-input"
    errs = sorted("%s:%s" % (k, v["err"]) for k, v in io.items() if isinstance(v, dict) and "err" in v)
    lean_err = isinstance(drv.get("model"), dict)
    if errs and not lean_err:
        # which strategies raise, on which kind of input
        return "%s[%s]:%s:raises" % (e, ",".join(errs), empty)
    probs = compare(c, io, drv)
    names = sorted({p[1].split(":")[0].split(" vs ")[0] for p in probs})
    return "%s:%s:wrong-values[%s]" % (e, empty, ",".join(names)[:120])


# ----------------------------------------------------------------------------------------------
# the call layer: translator of the signatures + structural checks
# ----------------------------------------------------------------------------------------------
def regenerate(eng=None):
    """two translators, both from the source TEXT of the repo under test (ast, nothing imported):
    * signatures / defaults / strategy registrations -> lean/ALV/Gen/C20Defaults.lean (theorem source_signatures_are_documented),
    * the BODIES of clip, zcross, unwrap, accumulate.func, maverage.deque, amdf, envelope.abs / .squared ->
      lean/ALV/Gen/C20Src.lean (theorems src_*_is_model: the regenerated definitions are the model functions).
    A failure of either is a broken obligation; the last committed Gen file is put back so that the build still runs."""
    a = sig.regenerate(eng)
    b = tr.regenerate(eng)
    return "C20Defaults %s; C20Src %s" % (a, b)


def _documented():
    r = common.Driver().batch([{"id": ID, "entry": "defaults"}])[0]
    return r["ok"]


def extra_checks(eng):
    """structural ties of the call layer: the defaults the Lean `...Call` models use == the signatures in the source
    (ast) == the signatures of the live objects (inspect); strategy names / aliases / dictionary defaults"""
    import inspect
    import audiolazy as al
    # (0) the translator of the function bodies
    translated = {"translator": "harness/props/c20_tr.py -> lean/ALV/Gen/C20Src.lean (shallow: Lean definitions in the vocabulary of "
                                "ALV/Model/C20.lean)",
                  "under_translator": [{"function": f["key"], "file": "audiolazy/" + f["file"], "generated": "ALV.Gen.C20." + f["lean"],
                                        "model": f["model"],
                                        "theorem": "ALV.Props.C20." + ("src_envelope_is_model" if f["key"].startswith("envelope")
                                                                        else "src_%s_is_model" % f["lean"])} for f in tr.FUNCS],
                  "hand_written_only": [{"function": k, "reason": v} for k, v in tr.NOT_TRANSLATED.items()]}
    if eng is not None:
        eng.extra["translated"] = translated
    try:
        base, res = tr.selftest()
        bad = [(n, d) for n, ok, d in res if not ok]
        translated["selftest"] = [{"edit": n, "ok": ok, "result": d} for n, ok, d in res]
        yield ("translator-selftest: every deliberately edited copy of the source text (%d semantic edits, %d harmless rewrites) is "
               "seen / normalised by the body translator" % (sum(1 for e in tr.EDITS if e[4]), sum(1 for e in tr.EDITS if not e[4])),
               not bad, "; ".join("%s: %s" % b for b in bad)[:600])
        good = tr.committed_text()
        yield ("translator-selftest: the unchanged source reproduces the committed lean/ALV/Gen/C20Src.lean byte for byte",
               good is not None and base == good,
               "" if good is not None and base == good else
               ("no committed file" if good is None else "regenerated text differs from HEAD:lean/ALV/Gen/C20Src.lean (%d vs %d bytes)"
                % (len(base), len(good))))
    except Exception as ex:   # noqa
        yield ("translator-selftest: body translator runs on the source of the repo under test", False, "%s: %s" % (type(ex).__name__, ex))
    doc = _documented()
    pi = F(math.pi)
    ok = dec(doc["pi"]) == pi and dec(doc["pi_float"]) == pi
    yield ("call-layer: the model's pi is the double math.pi", ok, "driver pi=%s math.pi=%s" % (doc["pi"], enc(pi)))
    want = [(s["fn"], [(p["name"], p.get("default", "<required>")) for p in s["params"]]) for s in doc["signatures"]]
    # (1) source text, read with ast
    try:
        sigs, strat = sig.read_source()
        got = [(q, [(n, "<required>" if d is None else (lambda v: "None" if v is None else enc(v))(sig.dvalue(d, pi)))
                    for n, d in ps]) for q, ps in sigs]
        diff = [(g, w) for g, w in zip(got, want) if g != w] or ([("length", len(got), len(want))] if len(got) != len(want) else [])
        yield ("call-layer: source signatures (ast) = documented defaults table of the Lean model", not diff,
               "source %s / documented %s" % (diff[0][0], diff[0][1]) if diff else "")
        wstr = [(d["dict"], d["strategies"]) for d in doc["strategies"]]
        yield ("call-layer: strategy registrations (ast) = documented strategies / aliases / order", [(d, g) for d, g in strat] == wstr,
               "source %s / documented %s" % (strat, wstr))
    except Exception as ex:   # noqa
        yield ("call-layer: source signatures (ast) = documented defaults table of the Lean model", False,
               "%s: %s" % (type(ex).__name__, ex))
    # (2) the live objects
    objs = {"zcross": lambda: al.zcross, "envelope.rms": lambda: al.envelope["rms"], "envelope.abs": lambda: al.envelope["abs"],
            "envelope.squared": lambda: al.envelope["squared"], "maverage.deque": lambda: al.maverage["deque"],
            "maverage.deque.maverage_filter": lambda: al.maverage["deque"](2), "maverage.recursive": lambda: al.maverage["recursive"],
            "maverage.fir": lambda: al.maverage["fir"], "clip": lambda: al.clip, "unwrap": lambda: al.unwrap, "amdf": lambda: al.amdf,
            "amdf.amdf_filter": lambda: al.amdf(1, 2), "accumulate.func": lambda: al.accumulate["func"],
            "LinearFilter.__call__": lambda: al.LinearFilter.__call__}
    bad = []
    for fn, params in want:
        try:
            ps = inspect.signature(objs[fn]()).parameters
            got = [(n, "<required>" if p.default is inspect.Parameter.empty else "None" if p.default is None else enc(p.default))
                   for n, p in ps.items()]
        except Exception as ex:   # noqa
            got = "%s: %s" % (type(ex).__name__, ex)
        if got != params:
            bad.append("%s: live %s / documented %s" % (fn, got, params))
    yield ("call-layer: live signatures (inspect) = documented defaults table of the Lean model", not bad, "; ".join(bad)[:600])
    bad = []
    for d in doc["strategies"]:
        try:
            sd = getattr(al, d["dict"])
            keys = [list(k) for k in sd.keys()]
            if keys != d["strategies"]:
                bad.append("%s: keys %s / documented %s" % (d["dict"], keys, d["strategies"]))
            if sd.default is not sd[d["strategies"][0][0]]:
                bad.append("%s.default is not %s.%s" % (d["dict"], d["dict"], d["strategies"][0][0]))
            for g in d["strategies"]:
                for n in g:
                    if sd[n] is not sd[g[0]] or getattr(sd, n) is not sd[g[0]]:
                        bad.append("%s: alias %s is not %s" % (d["dict"], n, g[0]))
        except Exception as ex:   # noqa
            bad.append("%s: %s: %s" % (d["dict"], type(ex).__name__, ex))
    yield ("call-layer: live strategy dictionaries = documented strategies / aliases / first is default", not bad, "; ".join(bad)[:600])
