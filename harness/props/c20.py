"""C20 — sample-wise analysis tools (maverage, accumulate, amdf, envelope, clip, zcross, unwrap).

Tie: the real functions are run on exact `Fraction` (sometimes `int`) inputs; the Lean driver runs
the code-shaped models and the property-shaped specs at `Rat` on the same case.  Where the impl
itself injects floats (`1./size`, filter memory `0.`, designed low-pass coefficients) the case is
either in the *exact regime* (power-of-two sizes, dyadic samples: binary floating point is exact)
and compared with tolerance 0, or in the *float regime* and compared with tolerance 1e-9.
"""
import math
from fractions import Fraction as F

import common
from common import enc, encl, dec, decl, close, close_list, err_kind

ID = "C20"
RULE = ("structured random cases per tool (sizes/lags 1..9 + larger, all clip limit combinations incl. None and "
        "low>high, hysteresis x first_sign grids with samples placed on / next to the thresholds, (max_delta, step) "
        "pairs with samples placed on / next to the decision points) plus exhaustive tiny universes; a case is "
        "non-trivial when the input is non-empty and (clip: a sample is actually clipped or the error is raised; "
        "zcross: at least one crossing or a non-zero hysteresis/first_sign; unwrap: at least one sample changed; "
        "others: output not identically zero); distinct = distinct JSON case")
TRUSTED = [
    "hand-written Lean models ALV/Model/C20.lean of lazy_analysis.{maverage.*,amdf,envelope.*,clip,zcross,unwrap} and "
    "lazy_itertools.accumulate.* (modelled, not verified: collections.deque, itertools.accumulate, the generator protocol, "
    "Fraction/float arithmetic and Python's `%`)",
    "the ZFilter-built strategies are modelled by a self-contained direct-form loop (frun); that LinearFilter.__call__ "
    "generates this loop for every coefficient shape is property C04",
    "envelope: the low-pass coefficients are read from the impl's own lowpass(cutoff) object (its design is property C13)",
]
ASSUMPTIONS = [
    "size >= 1 (1./0 raises), lag >= 0 with zero=0 or lag >= 1, step > 0, hysteresis >= 0 for the closed zcross "
    "characterisation (negative hysteresis is only tied to the model)",
    "float regime (non power-of-two sizes or non-dyadic samples, envelope): compared with relative tolerance 1e-9",
]
MANIFEST = {
    "text": ("Lean 4 theorems, for all inputs / sizes / lags / limits / thresholds: maverage.deque = .recursive = .fir = mean "
             "of the last size samples (zero extended); accumulate.* = running sums; amdf = moving average of |x[n]-x[n-lag]|; "
             "envelope.* = low-pass of |x| / x^2 by definition (non-negative for the one-pole design); clip = min(high,max(low,x)) "
             "with absent limits skipped, idempotent, bounded, error iff high<low; zcross two-loop state machine = closed "
             "characterisation by the latest sample outside the band (h >= 0); unwrap = cumulative nearest-residue correction, "
             "outputs differ by integer multiples of step, identity without large jumps, adjacent jump <= max(max_delta, step/2). "
             "The Rat instances executed by the driver are proved to be instances of these theorems; tied to /repo by a "
             "differential run on Fractions (exact regime / 1e-9 float regime) plus a structural comparison of the ZFilter "
             "coefficient lists."),
    "note": ("Trusted: Lean kernel, propext/Classical.choice/Quot.sound, the Python harness; the filter-built strategies are "
             "modelled by a self-contained direct-form loop (the generated LinearFilter loop is property C04); the low-pass design "
             "used by envelope is property C13; sqrt of envelope.rms is compared in floats."),
    "technique": "Lean 4 machine-checked proof over an executable model + differential correspondence",
    "design_ref": "DESIGN.md section 7, C20",
}
TOL = F(1, 10 ** 9)


# ----------------------------------------------------------------------------------------------
# value generators
# ----------------------------------------------------------------------------------------------
def _dy(rng, big=False):
    e = rng.choice([0, 0, 1, 2, 3, 4])
    m = rng.randint(-40, 40) if not big else rng.randint(-4000, 4000)
    return F(m, 2 ** e)


def _fr(rng):
    return F(rng.randint(-30, 30), rng.randint(1, 12))


def _seq(rng, n, dyadic):
    mode = rng.random()
    if mode < 0.08:
        v = _dy(rng)
        return [v] * n
    if mode < 0.16:
        return [F(rng.choice([-1, 0, 1])) for _ in range(n)]
    g = _dy if dyadic else _fr
    return [g(rng) for _ in range(n)]


def _len(rng, tier):
    r = rng.random()
    if r < 0.04:
        return 0
    if r < 0.10:
        return 1
    if r < 0.75:
        return rng.randint(2, 12)
    return rng.randint(13, 40 if tier == "quick" else 120)


def _is_dyadic(x):
    x = F(x)
    return x.denominator & (x.denominator - 1) == 0


def _pow2(n):
    return n & (n - 1) == 0


def _E(xs):
    return [enc(x) for x in xs]


# ----------------------------------------------------------------------------------------------
# case generation
# ----------------------------------------------------------------------------------------------
def gen_maverage(rng, tier):
    exact = rng.random() < 0.5
    if exact:
        size = rng.choice([1, 2, 4, 8, 16, 2, 4])
    else:
        size = rng.choice([1, 2, 3, 4, 5, 6, 7, 8, 9, rng.randint(10, 33)])
    n = rng.choice([_len(rng, tier), size - 1, size, size + 1, 2 * size + 1])
    xs = _seq(rng, max(n, 0), exact)
    zero = rng.choice([F(0), F(0), F(0), _dy(rng), F(1), _dy(rng) if exact else _fr(rng)])
    return {"entry": "maverage", "size": size, "zero": enc(zero), "xs": _E(xs)}


def gen_accumulate(rng, tier):
    xs = _seq(rng, _len(rng, tier), rng.random() < 0.6)
    ints = rng.random() < 0.2
    if ints:
        xs = [F(int(x)) for x in xs]
    return {"entry": "accumulate", "xs": _E(xs), "ints": ints, "zmode": rng.choice(["int0", "default", "frac0"])}


def gen_amdf(rng, tier):
    exact = rng.random() < 0.5
    size = rng.choice([1, 2, 4, 8]) if exact else rng.choice([1, 2, 3, 4, 5, 6, 7, 8, 9, 12])
    lag = rng.choice([1, 1, 2, 3, 4, 5, 6, 7, 8, rng.randint(9, 20), 0])
    n = rng.choice([_len(rng, tier), lag, lag + 1, lag + size, lag + size + 1])
    xs = _seq(rng, n, exact)
    zero = rng.choice([F(0), F(0), _dy(rng)]) if lag > 0 else F(0)
    return {"entry": "amdf", "lag": lag, "size": size, "zero": enc(zero), "xs": _E(xs)}


def gen_envelope(rng, tier):
    xs = _seq(rng, _len(rng, tier), rng.random() < 0.5)
    cutoff = rng.choice([math.pi / 512, 0.5, 1.0, rng.uniform(0.01, 3.0), rng.uniform(0.01, 3.0)])
    return {"entry": "envelope", "cutoff": cutoff, "xs": _E(xs), "lp": rng.choice(["default", "default", "default", "default", "pole", "z", "pole_exp", "z_exp"])}


def gen_clip(rng, tier, combo=None):
    xs = _seq(rng, _len(rng, tier), rng.random() < 0.5)
    combo = combo or rng.choice(["both", "both", "both", "low", "high", "none", "default", "bad", "equal"])
    a, b = sorted([_fr(rng), _fr(rng)])
    if combo == "both":
        low, high = a, b
    elif combo == "equal":
        low = high = a
    elif combo == "low":
        low, high = a, None
    elif combo == "high":
        low, high = None, b
    elif combo == "none":
        low = high = None
    elif combo == "bad":
        low, high = b, a
        if low == high:
            low = high + 1
    else:
        low, high = F(-1), F(1)
    if xs and low is not None and rng.random() < 0.5:          # samples exactly on / next to the limits
        xs[rng.randrange(len(xs))] = low
        xs[rng.randrange(len(xs))] = low - F(1, 7)
    if xs and high is not None and rng.random() < 0.5:
        xs[rng.randrange(len(xs))] = high
        xs[rng.randrange(len(xs))] = high + F(1, 7)
    return {"entry": "clip", "low": None if low is None else enc(low), "high": None if high is None else enc(high),
            "xs": _E(xs), "route": "default" if combo == "default" else rng.choice(["args", "stream"])}


def gen_zcross(rng, tier):
    h = rng.choice([F(0), F(0), F(1), F(1, 2), F(3, 2), _fr(rng).__abs__(), F(2)])
    neg = rng.random() < 0.04
    if neg:
        h = -h - F(1, 2)
    fs = rng.choice([F(0), F(0), F(0), F(1), F(-1), F(5, 2), F(-1, 3)])
    n = _len(rng, tier)
    eps = rng.choice([F(1, 8), F(1), F(1, 100)])
    pool = [F(0), h, -h, h + eps, -h - eps, h - eps, -h + eps, 2 * h + 1, -2 * h - 1, eps, -eps]
    mode = rng.random()
    if mode < 0.6:
        xs = [rng.choice(pool) for _ in range(n)]
    elif mode < 0.8:
        xs = _seq(rng, n, True)
    else:   # stays inside the band for a while, then leaves
        k = rng.randint(0, n)
        inside = [x for x in pool if -h <= x <= h] or [F(0)]
        xs = [rng.choice(inside) for _ in range(k)] + [rng.choice(pool) for _ in range(n - k)]
    ints = rng.random() < 0.1
    if ints:
        xs = [F(int(x)) for x in xs]
        h = F(int(h))
    return {"entry": "zcross", "hysteresis": enc(h), "first_sign": enc(fs), "xs": _E(xs), "ints": ints,
            "route": rng.choice(["kw", "default"]) if (h == 0 and fs == 0) else "kw"}


def gen_unwrap(rng, tier):
    step = rng.choice([F(1), F(2), F(2), F(3), F(1, 2), F(5, 3), F(7), abs(_fr(rng)) + F(1, 12)])
    md = rng.choice([step / 2, step / 2, step / 3, step, F(3, 2) * step, F(0), -F(1), step / 2 + F(1, 10), _fr(rng)])
    n = _len(rng, tier)
    xs = []
    cur = _fr(rng)
    for _ in range(n):
        xs.append(cur)
        r = rng.random()
        if r < 0.25:       # small move
            d = _fr(rng) / 10
        elif r < 0.45:     # exactly on / next to max_delta
            d = rng.choice([md, -md, md + F(1, 16), -md - F(1, 16), md - F(1, 16)])
        elif r < 0.65:     # multiple of step (+ half-step tie, + small)
            d = rng.randint(-3, 3) * step + rng.choice([F(0), step / 2, -step / 2, F(1, 9), -F(1, 9)])
        else:
            d = _fr(rng)
        cur = cur + d
    ints = rng.random() < 0.12
    if ints:
        xs = [F(int(x)) for x in xs]
        step = F(max(1, int(step)))
        md = F(int(md))
    return {"entry": "unwrap", "max_delta": enc(md), "step": enc(step), "xs": _E(xs), "ints": ints}


GENS = [(gen_maverage, 18), (gen_accumulate, 10), (gen_amdf, 12), (gen_envelope, 6), (gen_clip, 16),
        (gen_zcross, 20), (gen_unwrap, 18)]


def _exhaustive():
    cases = []
    vals = [F(-1), F(0), F(1)]
    # zcross: every sequence of length <= 4 over {-2,-1,0,1,2} x h in {0,1} x first_sign in {-1,0,1}
    import itertools
    zv = [F(-2), F(-1), F(0), F(1), F(2)]
    for n in range(0, 5):
        for xs in itertools.product(zv, repeat=n):
            for h in (F(0), F(1)):
                for fs in (-1, 0, 1):
                    if n == 4 and (hash((xs, h, fs)) % 3):      # thin out the largest layer (PYTHONHASHSEED=0)
                        continue
                    cases.append({"entry": "zcross", "hysteresis": enc(h), "first_sign": fs, "xs": _E(xs),
                                  "ints": False, "route": "kw"})
    # clip: every limit combination over a small grid, one fixed input crossing all limits
    lim = [None, F(-1), F(0), F(1, 2), F(2)]
    xs = [F(-3), F(-1), F(-1, 2), F(0), F(1, 4), F(1, 2), F(1), F(2), F(5, 2)]
    for lo in lim:
        for hi in lim:
            cases.append({"entry": "clip", "low": None if lo is None else enc(lo), "high": None if hi is None else enc(hi),
                          "xs": _E(xs), "route": "args"})
    # maverage / amdf / accumulate / unwrap on the empty and one-item inputs, all small sizes
    for size in range(1, 10):
        for n in (0, 1, 2, size, size + 1):
            cases.append({"entry": "maverage", "size": size, "zero": 0, "xs": _E([F(k + 1) for k in range(n)])})
        for lag in range(0, 5):
            cases.append({"entry": "amdf", "lag": lag, "size": size, "zero": 0,
                          "xs": _E([F((-2) ** k, 4) for k in range(lag + size + 2)])})
    for size in range(1, 41):
        cases.append({"entry": "coeffs", "size": size, "lag": size - 1, "xs": []})
    for n in range(0, 4):
        for xs in itertools.product(vals, repeat=n):
            cases.append({"entry": "accumulate", "xs": _E(xs), "ints": False, "zmode": "int0"})
            cases.append({"entry": "unwrap", "max_delta": 1, "step": 2, "xs": _E([3 * x for x in xs]), "ints": n % 2 == 0})
    return cases


def _maybe_floats(rng, c):
    """binary floats as samples / parameters when every number of the case is dyadic (float arithmetic is then exact)"""
    if c["entry"] not in ("accumulate", "clip", "zcross", "unwrap") or c.get("ints") or rng.random() > 0.35:
        return c
    nums = list(c["xs"]) + [c[k] for k in ("low", "high", "hysteresis", "first_sign", "max_delta", "step")
                            if c.get(k) is not None]
    if all(_is_dyadic(dec(v)) for v in nums):
        c["floats"] = True
    return c


def generate(rng, tier, scale=1):
    total = (8000 if tier == "quick" else 60000) * scale
    cases = []
    if scale == 1:
        cases.extend(_exhaustive())
        for combo in ["both", "low", "high", "none", "default", "bad", "equal"]:
            for _ in range(6):
                cases.append(gen_clip(rng, tier, combo))
    wsum = sum(w for _, w in GENS)
    for g, w in GENS:
        for _ in range(total * w // wsum):
            cases.append(_maybe_floats(rng, g(rng, tier)))
    return cases


# ----------------------------------------------------------------------------------------------
# the real code
# ----------------------------------------------------------------------------------------------
def _vals(c):
    xs = decl(c["xs"])
    if c.get("ints"):
        xs = [int(x) for x in xs]
    elif c.get("floats"):
        xs = [float(x) for x in xs]
    return xs


def _num(j, ints=False, floats=False):
    v = dec(j)
    return int(v) if ints else float(v) if floats else v


def _run(thunk):
    try:
        return encl(list(thunk()))
    except Exception as e:      # noqa
        return {"err": err_kind(e)}


def _lowpass(c):
    from audiolazy import lowpass
    lp = c.get("lp", "default")
    f = lowpass(c["cutoff"]) if lp == "default" else lowpass[lp](c["cutoff"])
    return f


def impl(c):
    import audiolazy as al
    e = c["entry"]
    xs = _vals(c)
    if e == "maverage":
        zero = dec(c["zero"])
        return {s: _run(lambda s=s: al.maverage[s](c["size"])(iter(xs), zero=zero)) for s in ("deque", "recursive", "fir")}
    if e == "accumulate":
        zm = c.get("zmode", "int0")
        if zm == "default":
            zf = lambda: al.accumulate.z(iter(xs))
        else:
            zf = lambda: al.accumulate.z(iter(xs), zero=(0 if zm == "int0" else F(0)))
        return {"func": _run(lambda: al.accumulate.func(iter(xs))),
                "it": _run(lambda: al.accumulate.accumulate(iter(xs))),
                "default": _run(lambda: al.accumulate(iter(xs))),
                "z": _run(zf)}
    if e == "coeffs":
        def co(f):
            den = list(f.denominator)
            if den[0] != 1:
                return {"err": "a0 != 1"}
            return {"b": encl(f.numerator), "a": encl(den[1:])}
        obs = {"recursive": co(al.maverage.recursive(c["size"])), "fir": co(al.maverage.fir(c["size"])),
               "acc": co(al.accumulate.z)}
        g = al.amdf(c["lag"], c["size"])
        g = getattr(g, "__wrapped__", g)
        filt = [x.cell_contents for x in (g.__closure__ or ()) if isinstance(x.cell_contents, al.LinearFilter)]
        obs["lag"] = co(filt[0]) if len(filt) == 1 else {"err": "lag filter not found in the closure"}
        return obs
    if e == "amdf":
        zero = dec(c["zero"])
        return {"out": _run(lambda: al.amdf(c["lag"], c["size"])(iter(xs), zero=zero))}
    if e == "envelope":
        cut = c["cutoff"]
        f = _lowpass(c)
        obs = {"b": encl(f.numerator), "a": encl(f.denominator)}
        if c.get("lp", "default") == "default":
            obs["abs"] = _run(lambda: al.envelope.abs(iter(xs), cutoff=cut))
            obs["squared"] = _run(lambda: al.envelope.squared(iter(xs), cutoff=cut))
            obs["rms"] = _run(lambda: al.envelope.rms(iter(xs), cutoff=cut))
            obs["default"] = _run(lambda: al.envelope(iter(xs), cutoff=cut))
        # the defining expressions, with the impl's own low-pass
        obs["def_abs"] = _run(lambda: f(abs(x) for x in xs))
        obs["def_squared"] = _run(lambda: f(x ** 2 for x in xs))
        return obs
    if e == "clip":
        lo = None if c["low"] is None else _num(c["low"], False, c.get("floats"))
        hi = None if c["high"] is None else _num(c["high"], False, c.get("floats"))
        route = c.get("route", "args")
        if route == "default":
            call = lambda s: al.clip(s)
        elif route == "stream":
            call = lambda s: al.clip(al.Stream(s), low=lo, high=hi)
        else:
            call = lambda s: al.clip(iter(s), lo, hi)
        out = _run(lambda: call(xs))
        obs = {"out": out}
        if isinstance(out, list):
            obs["twice"] = _run(lambda: call(decl(out)))
        return obs
    if e == "zcross":
        h = _num(c["hysteresis"], c.get("ints"), c.get("floats"))
        fs = _num(c["first_sign"], isinstance(c["first_sign"], int) and not c.get("floats"), c.get("floats"))
        if c.get("route") == "default":
            return {"out": _run(lambda: al.zcross(iter(xs)))}
        return {"out": _run(lambda: al.zcross(iter(xs), hysteresis=h, first_sign=fs))}
    if e == "unwrap":
        md = _num(c["max_delta"], c.get("ints"), c.get("floats"))
        st = _num(c["step"], c.get("ints"), c.get("floats"))
        return {"out": _run(lambda: al.unwrap(iter(xs), max_delta=md, step=st))}
    raise ValueError("unknown entry " + e)


def request(c):
    r = {k: v for k, v in c.items() if k not in ("ints", "floats", "route", "zmode", "cutoff", "lp")}
    if c["entry"] == "envelope":
        f = _lowpass(c)
        den = [F(x) for x in f.denominator]
        num = [F(x) for x in f.numerator]
        a0 = den[0]
        r["b"] = [enc(x / a0) for x in num]
        r["a"] = [enc(x / a0) for x in den[1:]]
    return r


# ----------------------------------------------------------------------------------------------
# comparison
# ----------------------------------------------------------------------------------------------
def exact_regime(c):
    """True when binary floating point is exact for this case (or no float is injected at all)."""
    e = c["entry"]
    if e in ("clip", "zcross", "unwrap"):
        return True
    dy = all(_is_dyadic(dec(x)) for x in c["xs"]) and _is_dyadic(dec(c.get("zero", 0)))
    if e in ("maverage", "amdf"):
        return dy and _pow2(c["size"])
    if e == "accumulate":
        return True if c.get("zmode") != "default" else dy
    return False


def _cmp(out, kind, name, got, want, tol):
    if isinstance(got, dict) or isinstance(want, dict):
        if got != want:
            out.append((kind, "%s: impl=%s lean=%s" % (name, _s(got), _s(want))))
        return
    if not close_list(decl(got), decl(want), tol):
        out.append((kind, "%s: impl=%s lean=%s" % (name, _s(got), _s(want))))


def _s(x):
    s = repr(x)
    return s if len(s) < 160 else s[:160] + "..."


def compare(c, io, drv):
    out = []
    e = c["entry"]
    tol = 0 if exact_regime(c) else TOL
    if e == "maverage":
        for s in ("deque", "recursive", "fir"):
            _cmp(out, "model", "maverage." + s, io[s], drv[s], tol)
            _cmp(out, "spec", "maverage.%s vs mean of last size samples" % s, io[s], drv["spec"], tol)
            _cmp(out, "spec", "maverage.%s vs indexed closed form" % s, io[s], drv["closed"], tol)
    elif e == "accumulate":
        for s, m in (("func", "func"), ("it", "it"), ("default", "it"), ("z", "z")):
            t = tol if s == "z" else 0
            _cmp(out, "model", "accumulate." + s, io[s], drv[m], t)
            _cmp(out, "spec", "accumulate.%s vs running sums" % s, io[s], drv["spec"], t)
    elif e == "amdf":
        _cmp(out, "model", "amdf", io["out"], drv["model"], tol)
        _cmp(out, "spec", "amdf vs moving average of |x[n]-x[n-lag]|", io["out"], drv["spec"], tol)
    elif e == "coeffs":
        for k in ("recursive", "fir", "lag", "acc"):
            if "err" in io[k]:
                out.append(("model", "coefficients of %s: %s" % (k, io[k]["err"])))
                continue
            b, a = decl(io[k]["b"]), decl(io[k]["a"])
            if k == "lag" and c["lag"] == 0:
                b = b or [F(0)]          # the zero polynomial has an empty coefficient list
            ctol = 0 if _pow2(c["size"]) else F(1, 10 ** 15)
            if not (close_list(b, decl(drv[k + "_b"]), ctol) and close_list(a, decl(drv[k + "_a"]), ctol)):
                out.append(("model", "coefficients of %s filter: impl b=%s a=%s lean b=%s a=%s" % (
                    k, _s(io[k]["b"]), _s(io[k]["a"]), _s(drv[k + "_b"]), _s(drv[k + "_a"]))))
    elif e == "envelope":
        _cmp(out, "model", "lowpass(|x|) vs model", io["def_abs"], drv["abs"], TOL)
        _cmp(out, "model", "lowpass(x^2) vs model", io["def_squared"], drv["squared"], TOL)
        if "abs" in io:
            _cmp(out, "model", "envelope.abs", io["abs"], drv["abs"], TOL)
            _cmp(out, "model", "envelope.squared", io["squared"], drv["squared"], TOL)
            _cmp(out, "spec", "envelope.abs vs lowpass(cutoff)(|x|)", io["abs"], io["def_abs"], 0)
            _cmp(out, "spec", "envelope.squared vs lowpass(cutoff)(x^2)", io["squared"], io["def_squared"], 0)
            _cmp(out, "spec", "envelope (default) vs envelope.rms", io["default"], io["rms"], 0)
            if isinstance(io["rms"], list) and isinstance(io["def_squared"], list):
                want = [enc(float(dec(v)) ** .5) if dec(v) >= 0 else "nan" for v in io["def_squared"]]
                _cmp(out, "spec", "envelope.rms vs sqrt(lowpass(cutoff)(x^2))", io["rms"], want, TOL)
            else:
                _cmp(out, "spec", "envelope.rms", io["rms"], io["def_squared"], TOL)
    elif e == "clip":
        _cmp(out, "model", "clip", io["out"], drv["model"], 0)
        _cmp(out, "spec", "clip vs min(high, max(low, x))", io["out"], drv["spec"], 0)
        if "twice" in io:
            _cmp(out, "model", "clip(clip(x))", io["twice"], drv["twice"], 0)
            _cmp(out, "spec", "clip idempotent", io["twice"], io["out"], 0)
        if not drv["bounded"]:
            out.append(("spec", "clip output outside the limits"))
    elif e == "zcross":
        _cmp(out, "model", "zcross", io["out"], drv["model"], 0)
        if dec(c["hysteresis"]) >= 0:
            _cmp(out, "spec", "zcross vs closed characterisation", io["out"], drv["spec"], 0)
    elif e == "unwrap":
        _cmp(out, "model", "unwrap", io["out"], drv["model"], 0)
        _cmp(out, "spec", "unwrap vs cumulative correction", io["out"], drv["spec"], 0)
        if not (drv["multiple"] and drv["adjacent"]):
            out.append(("spec", "unwrap model output violates multiple-of-step / adjacent-jump bound"))
    return out


# ----------------------------------------------------------------------------------------------
# statistics, shrinking, search
# ----------------------------------------------------------------------------------------------
def _list(io, k):
    v = io.get(k)
    return decl(v) if isinstance(v, list) else None


def nontrivial(c, io):
    if c["entry"] == "coeffs":
        return True
    if not c["xs"]:
        return False
    e = c["entry"]
    xs = decl(c["xs"])
    if e == "clip":
        out = _list(io, "out")
        return out is None or out != xs
    if e == "zcross":
        out = _list(io, "out")
        return bool(out and any(out)) or dec(c["hysteresis"]) != 0 or dec(c["first_sign"]) != 0
    if e == "unwrap":
        out = _list(io, "out")
        return out is not None and out != xs
    for k in ("deque", "func", "out", "def_abs"):
        v = _list(io, k)
        if v is not None:
            return any(v)
    return True


def tally(eng, c, io):
    e = c["entry"]
    eng.count("entry", e)
    n = len(c["xs"])
    eng.count("len", "0" if n == 0 else "1" if n == 1 else "2-12" if n <= 12 else "13+")
    if e in ("maverage", "amdf", "accumulate", "envelope"):
        eng.count("regime", e + (":exact" if exact_regime(c) else ":float"))
    if e in ("maverage", "amdf"):
        eng.count("size", c["size"] if c["size"] <= 9 else "10+")
        eng.count("len_vs_size", "len<size" if n < c["size"] else "len=size" if n == c["size"] else "len>size")
        eng.count("zero", "zero=0" if dec(c["zero"]) == 0 else "zero!=0")
    if e == "amdf":
        eng.count("lag", c["lag"] if c["lag"] <= 8 else "9+")
    if e == "envelope":
        eng.count("lowpass", c.get("lp", "default"))
    if e == "clip":
        lo, hi = c["low"], c["high"]
        combo = ("none" if lo is None else "low") + "-" + ("none" if hi is None else "high")
        if lo is not None and hi is not None:
            combo += ":low>high" if dec(lo) > dec(hi) else ":low=high" if dec(lo) == dec(hi) else ""
        eng.count("clip_limits", combo + (":default-args" if c.get("route") == "default" else ""))
        out = _list(io, "out")
        if out is not None:
            xs = decl(c["xs"])
            eng.count("clip_branch", "clipped-high", sum(1 for x, y in zip(xs, out) if y < x))
            eng.count("clip_branch", "clipped-low", sum(1 for x, y in zip(xs, out) if y > x))
            eng.count("clip_branch", "untouched", sum(1 for x, y in zip(xs, out) if y == x))
            if lo is not None:
                eng.count("clip_branch", "sample==low", sum(1 for x in xs if x == dec(lo)))
            if hi is not None:
                eng.count("clip_branch", "sample==high", sum(1 for x in xs if x == dec(hi)))
    if e == "zcross":
        h, fs = dec(c["hysteresis"]), dec(c["first_sign"])
        eng.count("zcross_hysteresis", "h=0" if h == 0 else "h>0" if h > 0 else "h<0 (model only)")
        eng.count("zcross_first_sign", "0" if fs == 0 else "+" if fs > 0 else "-")
        xs = decl(c["xs"])
        out = _list(io, "out")
        if out is not None:
            k = sum(out)
            eng.count("zcross_crossings", k if k <= 3 else "4+")
            if fs == 0:
                eng.count("zcross_phase1", "never leaves band" if all(-h <= x <= h for x in xs) else "leaves band")
            eng.count("zcross_samples", "on threshold", sum(1 for x in xs if abs(x) == h))
            eng.count("zcross_samples", "outside band", sum(1 for x in xs if abs(x) > h))
            eng.count("zcross_samples", "inside band", sum(1 for x in xs if abs(x) < h))
    if e == "unwrap":
        md, st = dec(c["max_delta"]), dec(c["step"])
        xs = decl(c["xs"])
        big = [d for d in (b - a for a, b in zip(xs, xs[1:])) if abs(d) > md]
        eng.count("unwrap_jumps", "jumps>max_delta", len(big))
        eng.count("unwrap_jumps", "jumps<=max_delta", max(0, len(xs) - 1 - len(big)))
        eng.count("unwrap_jumps", "jump==max_delta", sum(1 for a, b in zip(xs, xs[1:]) if abs(b - a) == md))
        eng.count("unwrap_jumps", "half-step tie", sum(1 for d in big if (d % st) * 2 == st))
        eng.count("unwrap_jumps", "jump multiple of step", sum(1 for d in big if d % st == 0))
        eng.count("unwrap_maxdelta", "md<step/2" if md < st / 2 else "md=step/2" if md == st / 2 else "md>step/2")
        out = _list(io, "out")
        if out is not None:
            eng.count("unwrap_effect", "changed" if out != xs else "identity")
    if c.get("ints"):
        eng.count("input_kind", e + ":int")
    elif c.get("floats"):
        eng.count("input_kind", e + ":float (dyadic, exact)")
    else:
        eng.count("input_kind", e + ":Fraction")
    for k, v in io.items():
        if isinstance(v, dict) and "err" in v:
            eng.count("impl_error", "%s.%s:%s" % (e, k, v["err"]))


def _simpler(v):
    v = dec(v)
    cands = []
    if v != 0:
        cands.append(F(0))
    if v.denominator != 1:
        cands.append(F(int(v)))
        cands.append(F(round(v)))
    if abs(v) > 1:
        cands.append(F(1) if v > 0 else F(-1))
        cands.append(v / 2 if v.denominator == 1 and v.numerator % 2 == 0 else F(int(v / 2)))
    return [enc(x) for x in cands if x != v]


def _in_domain(c):
    """the quantifier of the property (see ASSUMPTIONS); shrinking / neighbour search stay inside it"""
    if c["entry"] == "amdf" and c["lag"] == 0 and dec(c["zero"]) != 0:
        return False     # 1 - z**0 is the zero polynomial: LinearFilter then yields `zero` itself (C04's corner)
    if c["entry"] in ("maverage", "amdf", "coeffs") and c["size"] < 1:
        return False
    if c["entry"] == "amdf" and c["lag"] < 0:
        return False
    if c["entry"] == "unwrap" and dec(c["step"]) <= 0:
        return False
    return True


def shrink(c):
    return [d for d in _shrink(c) if _in_domain(d)]


def neighbours(c):
    return [d for d in _neighbours(c) if _in_domain(d)]


def _shrink(c):
    xs = c["xs"]
    n = len(xs)
    if n:
        yield dict(c, xs=xs[:-1])
        yield dict(c, xs=xs[1:])
        if n > 3:
            yield dict(c, xs=xs[:n // 2])
            yield dict(c, xs=xs[n // 2:])
        for i in range(min(n, 24)):
            yield dict(c, xs=xs[:i] + xs[i + 1:])
        for i in range(min(n, 24)):
            for s in _simpler(xs[i])[:2]:
                yield dict(c, xs=xs[:i] + [s] + xs[i + 1:])
    for k in ("size", "lag"):
        if k in c and c[k] > (1 if k == "size" else 0):
            yield dict(c, **{k: c[k] - 1})
            if c[k] > 2:
                yield dict(c, **{k: c[k] // 2})
    for k in ("zero", "hysteresis", "first_sign", "max_delta", "step", "low", "high"):
        if k in c and c[k] is not None:
            for s in _simpler(c[k])[:2]:
                if k == "step" and dec(s) <= 0:
                    continue
                if k == "hysteresis" and dec(s) < 0:
                    continue
                yield dict(c, **{k: s})
    if c.get("ints"):
        yield dict(c, ints=False)
    if c.get("floats"):
        yield dict(c, floats=False)
    if c.get("route") in ("stream",):
        yield dict(c, route="args")
    if c["entry"] == "envelope" and c.get("cutoff") != 0.5:
        yield dict(c, cutoff=0.5)


def _neighbours(c):
    xs = c["xs"]
    for i in range(min(len(xs), 16)):
        v = dec(xs[i])
        for w in (F(0), -v, v + 1, v - 1, v * 2):
            if w != v:
                yield dict(c, xs=xs[:i] + [enc(w)] + xs[i + 1:])
    yield dict(c, xs=xs + [1])
    yield dict(c, xs=xs + ["-7/2"])
    yield dict(c, xs=[])
    for k in ("size", "lag"):
        if k in c:
            yield dict(c, **{k: c[k] + 1})
            if c[k] > 1:
                yield dict(c, **{k: c[k] - 1})
    for k in ("zero", "hysteresis", "first_sign", "max_delta", "step", "low", "high"):
        if k in c and c[k] is not None:
            v = dec(c[k])
            for w in (v + 1, v - 1, v / 2, -v, F(0)):
                if k == "step" and w <= 0:
                    continue
                if k == "hysteresis" and w < 0:
                    continue
                yield dict(c, **{k: enc(w)})


def classify(c, io, drv):
    """operation + failing condition + error kind"""
    e = c["entry"]
    empty = "empty-input" if not c["xs"] else "nonempty-input"
    errs = sorted("%s:%s" % (k, v["err"]) for k, v in io.items() if isinstance(v, dict) and "err" in v)
    lean_err = isinstance(drv.get("model"), dict)
    if errs and not lean_err:
        # which strategies raise, on which kind of input
        return "%s[%s]:%s:raises" % (e, ",".join(errs), empty)
    probs = compare(c, io, drv)
    names = sorted({p[1].split(":")[0].split(" vs ")[0] for p in probs})
    return "%s:%s:wrong-values[%s]" % (e, empty, ",".join(names)[:120])
