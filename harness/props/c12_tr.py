"""C12 — source translator: reads the BODIES, decorators and signatures of

    LinearFilter.freq_response, CascadeFilter.freq_response, ParallelFilter.freq_response   (audiolazy/lazy_filters.py)
    dft                                                                                     (audiolazy/lazy_analysis.py)

from the repo under test with `ast` (nothing is imported from the repo) and writes one Lean definition per function,
statement by statement, into `lean/ALV/Gen/C12Src.lean`, in the vocabulary of `lean/ALV/Model/C12Src.lean` (table of
python construct -> Lean term in the header of that file).  `Props/C12.lean` proves `src_<f>_is_model`: each generated
definition IS the hand-written model function, so every C12 theorem speaks about what the source says now.

The accepted Python subset (anything else in a translated function is a `TranslationError` = broken obligation):
  * a docstring; `name = expr`; `if cond: ... [else: ...]`; `return expr`
  * conditions: `v == 0`, a truth-valued parameter, `not isinstance(v, Stream)` (the number regime: taken as true)
  * expressions: parameters and locals, `+ - * /` on numbers, `complex_exp(P)` / `cexp(P)` where P is a product of ONE
    imaginary literal with an integer factor (`-1j`, `1j`, `2j`, ...), at most one index variable and exactly one
    frequency variable (any order), `self.numpoly(e)` / `self.denpoly(e)`, `sum(E for n, xn in enumerate(blk))`,
    `(E for v in xs)` / `[E for v in xs]` (one `for`, no `if`), `len(blk)`, `list(data)`, `[v / d for v in data]` with
    `d` a length, `reduce(operator.mul | operator.add, G)`, `filt.freq_response(freq)`, `self.callables`, `nan`
  * decorators: exactly `@elementwise(name, pos)` with literal arguments on the three methods, none on `dft`
  * signatures: positional-or-keyword parameters; defaults only `True` / `False`
The module-level bindings of the vocabulary (`complex_exp` = cmath.exp, `cexp` = elementwise("x", 0)(cmath.exp), `reduce` =
functools.reduce, `operator`, `nan`, `elementwise`, `Stream`) are checked too.
Whitespace, comments, docstrings and the names of local variables do not matter (locals become v1, v2, ... in binding
order); parameter names are part of the signature and are kept."""
import ast
import os
import re
import warnings

import common

GEN_REL = os.path.join("ALV", "Gen", "C12Src.lean")
FILES = {"filters": "lazy_filters.py", "analysis": "lazy_analysis.py", "math": "lazy_math.py"}
METHODS = ("LinearFilter", "CascadeFilter", "ParallelFilter")

LEAN_RESERVED = {
    "fun", "let", "in", "if", "then", "else", "match", "with", "do", "def", "theorem", "end", "at", "from", "have", "show",
    "by", "open", "section", "variable", "namespace", "structure", "inductive", "where", "instance", "class", "deriving",
    "some", "none", "true", "false", "Type", "Prop", "Sort", "member", "callables", "X", "pt", "t", "args", "kwargs",
    "evalPoly", "reduceResp", "sumEnum", "divAll", "wrapper", "rawFreqByP", "natC", "pw", "zpw", "dft", "fun", "forall",
    "exists", "mut", "for", "return", "opaque", "rec", "axiom", "sorry", "macro", "syntax", "local", "private", "using",
}


class TranslationError(Exception):
    pass


def need(cond, msg):
    if not cond:
        raise TranslationError(msg)


def read_sources():
    out = {}
    for k, name in FILES.items():
        with open(os.path.join(common.REPO, "audiolazy", name)) as f:
            out[k] = f.read()
    return out


# ------------------------------------------------------------------------------------------------
# finding things
# ------------------------------------------------------------------------------------------------
def _parse(text, what):
    try:
        with warnings.catch_warnings():
            warnings.simplefilter("ignore")           # invalid escape sequences in the repo's docstrings
            return ast.parse(text)
    except SyntaxError as e:
        raise TranslationError("%s does not parse: %s" % (what, e))


def _class(tree, name):
    found = [n for n in tree.body if isinstance(n, ast.ClassDef) and n.name == name]
    need(len(found) == 1, "class %s: %d definitions at module level" % (name, len(found)))
    return found[0]


def _func(body, name, where):
    found = [n for n in body if isinstance(n, (ast.FunctionDef, ast.AsyncFunctionDef)) and n.name == name]
    need(len(found) == 1 and isinstance(found[0], ast.FunctionDef), "%s.%s: %d definitions" % (where, name, len(found)))
    # a later plain assignment of the same name in the same body would replace the function
    for n in body:
        if isinstance(n, (ast.Assign, ast.AnnAssign, ast.AugAssign)):
            tg = n.targets if isinstance(n, ast.Assign) else [n.target]
            for t in tg:
                for s in ast.walk(t):
                    need(not (isinstance(s, ast.Name) and s.id == name), "%s.%s is re-bound by an assignment" % (where, name))
    return found[0]


def _bindings(tree, name):
    """how `name` is bound at module level: list of ("import", module, original) / ("assign", node) / ("def",)"""
    out = []
    for n in tree.body:
        if isinstance(n, ast.ImportFrom):
            for a in n.names:
                if (a.asname or a.name) == name:
                    out.append(("import", "." * n.level + (n.module or ""), a.name))
        elif isinstance(n, ast.Import):
            for a in n.names:
                if (a.asname or a.name.split(".")[0]) == name:
                    out.append(("import", a.name, None))
        elif isinstance(n, ast.Assign):
            for t in n.targets:
                for s in ast.walk(t):
                    if isinstance(s, ast.Name) and s.id == name:
                        out.append(("assign", n.value))
        elif isinstance(n, (ast.AugAssign, ast.AnnAssign)):
            for s in ast.walk(n.target):
                if isinstance(s, ast.Name) and s.id == name:
                    out.append(("assign", n.value))
        elif isinstance(n, (ast.FunctionDef, ast.ClassDef, ast.AsyncFunctionDef)) and n.name == name:
            out.append(("def",))
    return out


def check_vocabulary(trees):
    def imported(tree, fname, name, module, orig):
        b = _bindings(tree, name)
        need(b == [("import", module, orig)], "%s: `%s` is not (only) `%s` of %s: %r" % (
            fname, name, orig or name, module, [x[:3] if x[0] == "import" else x[0] for x in b]))
    f, a, m = trees["filters"], trees["analysis"], trees["math"]
    imported(f, "lazy_filters.py", "complex_exp", "cmath", "exp")
    imported(f, "lazy_filters.py", "reduce", "functools", "reduce")
    imported(f, "lazy_filters.py", "operator", "operator", None)
    imported(f, "lazy_filters.py", "elementwise", ".lazy_misc", "elementwise")
    imported(f, "lazy_filters.py", "nan", ".lazy_math", "nan")
    imported(f, "lazy_filters.py", "Stream", ".lazy_stream", "Stream")
    imported(a, "lazy_analysis.py", "cexp", ".lazy_math", "cexp")
    for nm in ("sum", "enumerate", "len", "list", "isinstance"):
        for fname, tree in (("lazy_filters.py", f), ("lazy_analysis.py", a)):
            need(_bindings(tree, nm) == [], "%s: the builtin `%s` is re-bound at module level" % (fname, nm))
    # lazy_math: cexp = elementwise("x", 0)(cmath.exp);  nan = float("nan")
    b = _bindings(m, "cexp")
    need(len(b) == 1 and b[0][0] == "assign", "lazy_math.py: cexp is not bound by one assignment")
    v = b[0][1]
    ok = (isinstance(v, ast.Call) and len(v.args) == 1 and not v.keywords
          and ast.dump(v.args[0]) == ast.dump(ast.parse("cmath.exp", mode="eval").body)
          and ast.dump(v.func) == ast.dump(ast.parse('elementwise("x", 0)', mode="eval").body))
    need(ok, "lazy_math.py: cexp is not elementwise(\"x\", 0)(cmath.exp)")
    need(_bindings(m, "cmath") == [("import", "cmath", None)], "lazy_math.py: `cmath` is not the module cmath")
    b = _bindings(m, "nan")
    need(len(b) == 1 and b[0][0] == "assign"
         and ast.dump(b[0][1]) == ast.dump(ast.parse('float("nan")', mode="eval").body), "lazy_math.py: nan is not float(\"nan\")")


# ------------------------------------------------------------------------------------------------
# signatures and decorators
# ------------------------------------------------------------------------------------------------
def lean_name(py):
    need(re.fullmatch(r"[A-Za-z_][A-Za-z0-9_]*", py) is not None, "identifier %r" % (py,))
    need(re.fullmatch(r"v[0-9]+", py) is None, "parameter named like a generated local: %r" % (py,))
    return py + "'" if (py in LEAN_RESERVED or py == "_") else py


def fresh(env):
    """locals are renamed v1, v2, ... in binding order: renaming a local variable in the source changes nothing"""
    env["\0n"][0] += 1
    return "v%d" % env["\0n"][0]


def lean_str(s):
    need(isinstance(s, str) and all(c.isalnum() or c == "_" for c in s), "string literal %r" % (s,))
    return '"%s"' % s


def params(fn, where):
    a = fn.args
    need(not (a.vararg or a.kwarg or a.kwonlyargs or getattr(a, "posonlyargs", None)),
         "%s: *args / **kwargs / keyword-only / positional-only parameters" % where)
    nd = len(a.defaults)
    out = []
    for i, p in enumerate(a.args):
        k = i - (len(a.args) - nd)
        d = None
        if k >= 0:
            dv = a.defaults[k]
            need(isinstance(dv, ast.Constant) and isinstance(dv.value, bool), "%s: default of %s is not True / False" % (where, p.arg))
            d = dv.value
        out.append((p.arg, d))
    need(len({n for n, _ in out}) == len(out), "%s: duplicate parameter" % where)
    return out


def elementwise_args(fn, where):
    """decorator list must be exactly [elementwise(name, pos)] with literal arguments -> (name, pos|None)"""
    need(len(fn.decorator_list) == 1, "%s: %d decorators, expected exactly @elementwise(...)" % (where, len(fn.decorator_list)))
    d = fn.decorator_list[0]
    need(isinstance(d, ast.Call) and isinstance(d.func, ast.Name) and d.func.id == "elementwise",
         "%s: decorator is not a call of elementwise" % where)
    vals = {"name": "", "pos": None}
    given = set()
    for key, node in list(zip(("name", "pos"), d.args)) + [(k.arg, k.value) for k in d.keywords]:
        need(key in vals and key not in given, "%s: elementwise argument %r" % (where, key))
        need(len(d.args) <= 2, "%s: elementwise with %d positional arguments" % (where, len(d.args)))
        given.add(key)
        need(isinstance(node, ast.Constant), "%s: elementwise argument %s is not a literal" % (where, key))
        v = node.value
        if key == "name":
            need(isinstance(v, str), "%s: elementwise name is not a str" % where)
        else:
            need(v is None or (isinstance(v, int) and not isinstance(v, bool) and v >= 0), "%s: elementwise pos %r" % (where, v))
        vals[key] = v
    return vals["name"], vals["pos"]


# ------------------------------------------------------------------------------------------------
# expressions.  env: python name -> (lean term, sort)
#   sorts: num (α)  freq (φ)  idx (Nat, from enumerate)  len (Nat, from len())  bool  self  member
#          list:<sort>   optnumlist (Option (List α))   resp   nan
# ------------------------------------------------------------------------------------------------
ARITH = {ast.Add: "+", ast.Sub: "-", ast.Mult: "*", ast.Div: "/"}
REDUCE_OPS = {"mul": "(· * ·)", "add": "(· + ·)"}


def _imag_factor(node):
    """`1j`, `-1j`, `2j`, `-(1j)` ... -> the integer factor of the imaginary unit, else None"""
    if isinstance(node, ast.UnaryOp) and isinstance(node.op, ast.USub):
        v = _imag_factor(node.operand)
        return None if v is None else -v
    if isinstance(node, ast.UnaryOp) and isinstance(node.op, ast.UAdd):
        return _imag_factor(node.operand)
    if isinstance(node, ast.Constant) and isinstance(node.value, complex):
        need(node.value.real == 0 and node.value.imag == int(node.value.imag), "imaginary literal %r" % (node.value,))
        return int(node.value.imag)
    return None


def _factors(node):
    if isinstance(node, ast.BinOp) and isinstance(node.op, ast.Mult):
        return _factors(node.left) + _factors(node.right)
    return [node]


def cis(arg, env, where):
    """argument of complex_exp / cexp -> `X.cis s n f`"""
    s, n, f = None, None, None
    for fac in _factors(arg):
        k = _imag_factor(fac)
        if k is not None:
            need(s is None, "%s: two imaginary literals in the exponent" % where)
            s = k
            continue
        need(isinstance(fac, ast.Name) and fac.id in env, "%s: factor of the exponent not understood: %s" % (where, ast.dump(fac)[:80]))
        term, sort = env[fac.id]
        if sort == "idx":
            need(n is None, "%s: two index factors in the exponent" % where)
            n = term
        elif sort == "freq":
            need(f is None, "%s: two frequency factors in the exponent" % where)
            f = term
        else:
            raise TranslationError("%s: factor `%s` of sort %s in the exponent" % (where, fac.id, sort))
    need(s is not None, "%s: no imaginary literal in the exponent (the point would not be on the unit circle)" % where)
    need(f is not None, "%s: no frequency in the exponent" % where)
    return "X.cis (%d) %s %s" % (s, n if n is not None else "1", f)


def _one_for(node, where):
    need(len(node.generators) == 1, "%s: comprehension with %d `for`" % (where, len(node.generators)))
    g = node.generators[0]
    need(not g.ifs and not g.is_async, "%s: comprehension with `if` / async" % where)
    return g


def expr(node, env, where):
    """-> (lean term, sort)"""
    if isinstance(node, ast.Name):
        if node.id == "nan" and "nan" not in env:
            return "nan", "nan"
        need(node.id in env, "%s: unknown name `%s`" % (where, node.id))
        return env[node.id]
    if isinstance(node, ast.BinOp) and type(node.op) in ARITH:
        a, sa = expr(node.left, env, where)
        b, sb = expr(node.right, env, where)
        need(sa == "num" and sb == "num", "%s: `%s` between %s and %s" % (where, ARITH[type(node.op)], sa, sb))
        return "(%s %s %s)" % (a, ARITH[type(node.op)], b), "num"
    if isinstance(node, ast.Attribute) and isinstance(node.value, ast.Name) and node.attr == "callables":
        need(env.get(node.value.id, (None, None))[1] == "bank", "%s: `.callables` of something that is not the bank" % where)
        return "callables", "list:member"
    if isinstance(node, (ast.GeneratorExp, ast.ListComp)):
        g = _one_for(node, where)
        xs, sx = expr(g.iter, env, where)
        need(sx.startswith("list:"), "%s: iteration over %s" % (where, sx))
        need(isinstance(g.target, ast.Name), "%s: comprehension target is not a name" % where)
        v = fresh(env)
        inner = dict(env)
        inner[g.target.id] = (v, sx[5:])
        # [v / d for v in data], d a length: division by an int that may be zero
        e = node.elt
        if (isinstance(e, ast.BinOp) and isinstance(e.op, ast.Div) and isinstance(e.right, ast.Name)
                and env.get(e.right.id, (None, None))[1] == "len"):
            need(isinstance(node, ast.ListComp), "%s: lazy division by a length" % where)
            need(isinstance(e.left, ast.Name) and e.left.id == g.target.id and sx == "list:num",
                 "%s: division by a length of something else than the loop variable" % where)
            return "divAll %s %s" % (xs, env[e.right.id][0]), "optnumlist"
        body, sb = expr(e, inner, where)
        need(sb in ("num", "resp"), "%s: comprehension of %s" % (where, sb))
        return "(%s.map fun %s => %s)" % (xs, v, body), "list:" + sb
    if isinstance(node, ast.Call):
        need(not node.keywords, "%s: call with keyword arguments" % where)
        fn = node.func
        if isinstance(fn, ast.Name) and fn.id in ("complex_exp", "cexp") and fn.id not in env:
            need(len(node.args) == 1, "%s: %s with %d arguments" % (where, fn.id, len(node.args)))
            return cis(node.args[0], env, where), "num"
        if isinstance(fn, ast.Name) and fn.id == "len" and "len" not in env:
            need(len(node.args) == 1, "%s: len with %d arguments" % (where, len(node.args)))
            x, sx = expr(node.args[0], env, where)
            need(sx == "list:num" and isinstance(node.args[0], ast.Name), "%s: len of %s" % (where, sx))
            return "%s.length" % x, "len"
        if isinstance(fn, ast.Name) and fn.id == "list" and "list" not in env:
            need(len(node.args) == 1, "%s: list with %d arguments" % (where, len(node.args)))
            x, sx = expr(node.args[0], env, where)
            need(sx.startswith("list:"), "%s: list(%s)" % (where, sx))
            return x, sx
        if isinstance(fn, ast.Name) and fn.id == "sum" and "sum" not in env:
            need(len(node.args) == 1 and isinstance(node.args[0], ast.GeneratorExp), "%s: sum of something else than one generator expression" % where)
            g = _one_for(node.args[0], where)
            it = g.iter
            need(isinstance(it, ast.Call) and isinstance(it.func, ast.Name) and it.func.id == "enumerate"
                 and "enumerate" not in env and len(it.args) == 1 and not it.keywords,
                 "%s: sum over something else than enumerate(<block>)" % where)
            xs, sx = expr(it.args[0], env, where)
            need(sx == "list:num" and isinstance(it.args[0], ast.Name), "%s: enumerate of %s" % (where, sx))
            tg = g.target
            need(isinstance(tg, ast.Tuple) and len(tg.elts) == 2 and all(isinstance(e, ast.Name) for e in tg.elts)
                 and tg.elts[0].id != tg.elts[1].id, "%s: target of the enumerate loop is not `n, xn`" % where)
            n, x = fresh(env), fresh(env)
            inner = dict(env)
            inner[tg.elts[0].id] = (n, "idx")
            inner[tg.elts[1].id] = (x, "num")
            body, sb = expr(node.args[0].elt, inner, where)
            need(sb == "num", "%s: sum of %s" % (where, sb))
            return "sumEnum (fun %s %s => %s) %s" % (n, x, body, xs), "num"
        if isinstance(fn, ast.Name) and fn.id == "reduce" and "reduce" not in env:
            need(len(node.args) == 2, "%s: reduce with %d arguments (an initial value changes the empty case)" % (where, len(node.args)))
            op = node.args[0]
            need(isinstance(op, ast.Attribute) and isinstance(op.value, ast.Name) and op.value.id == "operator"
                 and "operator" not in env and op.attr in REDUCE_OPS, "%s: reduce with an operator other than operator.mul / operator.add" % where)
            xs, sx = expr(node.args[1], env, where)
            need(sx == "list:resp", "%s: reduce over %s" % (where, sx))
            return "reduceResp %s %s" % (REDUCE_OPS[op.attr], xs), "resp"
        if isinstance(fn, ast.Attribute) and isinstance(fn.value, ast.Name) and fn.value.id in env:
            obj, so = env[fn.value.id]
            if so == "self" and fn.attr in ("numpoly", "denpoly"):
                need(len(node.args) == 1, "%s: %s with %d arguments" % (where, fn.attr, len(node.args)))
                a, sa = expr(node.args[0], env, where)
                need(sa == "num", "%s: polynomial called on %s" % (where, sa))
                return "evalPoly %s.%s %s" % (obj, fn.attr[:3], a), "num"
            if so == "member" and fn.attr == "freq_response":
                need(len(node.args) == 1, "%s: member's freq_response with %d arguments" % (where, len(node.args)))
                a, sa = expr(node.args[0], env, where)
                need(sa == "freq", "%s: member's freq_response called on %s" % (where, sa))
                return "member %s %s" % (obj, a), "resp"
    raise TranslationError("%s: expression outside the subset: %s" % (where, ast.dump(node)[:120]))


def cond(node, env, where):
    """-> ("always", None) | ("if", lean Prop/Bool term)"""
    if isinstance(node, ast.UnaryOp) and isinstance(node.op, ast.Not):
        c = node.operand
        if (isinstance(c, ast.Call) and isinstance(c.func, ast.Name) and c.func.id == "isinstance" and "isinstance" not in env
                and len(c.args) == 2 and not c.keywords and isinstance(c.args[1], ast.Name) and c.args[1].id == "Stream"
                and "Stream" not in env and isinstance(c.args[0], ast.Name) and env.get(c.args[0].id, (None, None))[1] == "num"):
            return "always", None              # number regime: a number is not a Stream
    if isinstance(node, ast.Compare) and len(node.ops) == 1 and isinstance(node.ops[0], ast.Eq):
        a, sa = expr(node.left, env, where)
        r = node.comparators[0]
        need(sa == "num" and isinstance(r, ast.Constant) and type(r.value) is int and r.value == 0,
             "%s: comparison other than `<number> == 0`" % where)
        return "if", "%s = 0" % a
    if isinstance(node, ast.Name) and env.get(node.id, (None, None))[1] == "bool":
        return "if", env[node.id][0]
    raise TranslationError("%s: condition outside the subset: %s" % (where, ast.dump(node)[:120]))


def block(stmts, env, ret, where, ind):
    """statements -> Lean lines; `ret(term, sort)` turns a returned value into the result term"""
    if not stmts:
        raise TranslationError("%s: a path falls off the end of the function (returns None)" % where)
    st, rest = stmts[0], stmts[1:]
    pad = "  " * ind
    if isinstance(st, ast.Expr) and isinstance(st.value, ast.Constant) and isinstance(st.value.value, str):
        return block(rest, env, ret, where, ind)                      # docstring / string statement
    if isinstance(st, ast.Pass):
        return block(rest, env, ret, where, ind)
    if isinstance(st, ast.Assign):
        need(len(st.targets) == 1 and isinstance(st.targets[0], ast.Name), "%s: assignment target" % where)
        name = st.targets[0].id
        need(env.get(name, (None, "local"))[1] not in ("self", "bank"), "%s: `%s` is re-bound" % (where, name))
        term, sort = expr(st.value, env, where)
        need(sort not in ("nan",), "%s: nan bound to a variable" % where)
        v = fresh(env)
        inner = dict(env)
        inner[name] = (v, sort)
        return [pad + "let %s := %s" % (v, term)] + block(rest, inner, ret, where, ind)
    if isinstance(st, ast.Return):
        need(st.value is not None, "%s: bare return" % where)
        # statements after a return are dead code: ignored
        return [pad + ret(*expr(st.value, env, where))]
    if isinstance(st, ast.If):
        kind, c = cond(st.test, env, where)
        if kind == "always":
            need(not st.orelse, "%s: else-branch of the Stream test" % where)
            return block(list(st.body) + rest, env, ret, where, ind)
        then = block(list(st.body) + rest, env, ret, where, ind + 1)
        els = block(list(st.orelse) + rest, env, ret, where, ind + 1)
        return [pad + "if %s then" % c] + then + [pad + "else"] + els
    raise TranslationError("%s: statement outside the subset: %s" % (where, type(st).__name__))


# ------------------------------------------------------------------------------------------------
# the four functions
# ------------------------------------------------------------------------------------------------
def _ret_option_num(where):
    def ret(term, sort):
        if sort == "nan":
            return "none"
        need(sort == "num", "%s: returns %s" % (where, sort))
        return "some %s" % term
    return ret


def _ret_resp(where):
    def ret(term, sort):
        need(sort == "resp", "%s: returns %s" % (where, sort))
        return term
    return ret


def _ret_optlist(where):
    def ret(term, sort):
        if sort == "optnumlist":
            return term
        need(sort == "list:num", "%s: returns %s" % (where, sort))
        return "some %s" % term
    return ret


def tr_method(cls, fn):
    where = "%s.freq_response" % cls
    ps = params(fn, where)
    need(len(ps) == 2 and all(d is None for _, d in ps), "%s: signature is not (self, freq)-shaped: %r" % (where, ps))
    name, pos = elementwise_args(fn, where)
    sp, fp = ps[0][0], ps[1][0]
    fidx = 1          # the body is translated with the SECOND parameter as the frequency (any other use of it fails to type)
    ls, lf = lean_name(sp), lean_name(fp)
    lname = "%s_freq_response" % cls
    if cls == "LinearFilter":
        env = {sp: (ls, "self"), fp: (lf, "freq"), "\0n": [0]}
        lines = ["/-- body of `%s.freq_response(%s, %s)`; `none` = nan -/" % (cls, sp, fp),
                 "def %s (X : CExp φ α) (%s : Filt α) (%s : φ) : Option α :=" % (lname, ls, lf)]
        lines += block(list(fn.body), env, _ret_option_num(where), where, 1)
    else:
        env = {sp: (ls, "bank"), fp: (lf, "freq"), "\0n": [0]}
        lines = ["/-- body of `%s.freq_response(%s, %s)`: `member m f` is `m.freq_response(f)` -/" % (cls, sp, fp),
                 "def %s {μ : Type} (member : μ → φ → Resp α) (callables : List μ) (%s : φ) : Resp α :=" % (lname, lf)]
        lines += block(list(fn.body), env, _ret_resp(where), where, 1)
    lines += ["",
              "/-- `%s.freq_response` as decorated: `@elementwise(%s, %s)` around `def freq_response(%s)` -/" % (
                  cls, '"%s"' % name, pos, ", ".join(p for p, _ in ps)),
              "def %s_call (pt : φ → α) (t : Bank α) (args : List (Arg φ)) (kwargs : KwArgs φ) : Out α :=" % lname,
              "  wrapper %s %s (rawFreqByP [%s] %d (fun f => Bank.resp (pt f) t) t.isLeaf) args kwargs" % (
                  lean_str(name), "none" if pos is None else "(some %d)" % pos, ", ".join(lean_str(p) for p, _ in ps), fidx)]
    return lines


def tr_dft(fn):
    where = "dft"
    need(not fn.decorator_list, "dft: decorated")
    ps = params(fn, where)
    need(len(ps) == 3 and ps[0][1] is None and ps[1][1] is None, "dft: signature is not (blk, freqs, normalize[=…])-shaped: %r" % (ps,))
    (b, _), (f, _), (nz, _) = ps
    env = {b: (lean_name(b), "list:num"), f: (lean_name(f), "list:freq"), nz: (lean_name(nz), "bool"), "\0n": [0]}
    lines = ["/-- body of `dft(%s)`; `none` = ZeroDivisionError -/" % ", ".join(p for p, _ in ps),
             "def dft (X : CExp φ α) (%s : List α) (%s : List φ) (%s : Bool) : Option (List α) :=" % (
                 lean_name(b), lean_name(f), lean_name(nz))]
    lines += block(list(fn.body), env, _ret_optlist(where), where, 1)
    lines += ["",
              "/-- signature of `dft`: parameter names and default truth values -/",
              "def dft_params : List (String × Option Bool) := [%s]" % ", ".join(
                  "(%s, %s)" % (lean_str(p), "none" if d is None else "some %s" % ("true" if d else "false")) for p, d in ps)]
    return lines


def translate(texts):
    trees = {k: _parse(v, FILES[k]) for k, v in texts.items()}
    check_vocabulary(trees)
    out = ["/- GENERATED by harness/props/c12_tr.py from audiolazy/lazy_filters.py and audiolazy/lazy_analysis.py: the bodies,",
           "   decorators and signatures of LinearFilter / CascadeFilter / ParallelFilter.freq_response and of dft, read with",
           "   `ast`, statement by statement, in the vocabulary of ALV/Model/C12Src.lean.  Do not edit: rewritten on every",
           "   check; Props/C12.lean proves each definition equal to the hand-written model (`src_*_is_model`). -/",
           "import ALV.Model.C12Src",
           "namespace ALV.Gen.C12",
           "open ALV.C12",
           "",
           "section",
           "variable {α φ : Type} [Add α] [Mul α] [Sub α] [Neg α] [Div α] [OfNat α 0] [OfNat α 1] [DecidableEq α]",
           ""]
    for cls in METHODS:
        fn = _func(_class(trees["filters"], cls).body, "freq_response", cls)
        out += tr_method(cls, fn) + [""]
    out += tr_dft(_func(trees["analysis"].body, "dft", "lazy_analysis")) + [""]
    out += ["end", "end ALV.Gen.C12", ""]
    return "\n".join(out)


TRANSLATED = [
    {"function": "LinearFilter.freq_response", "file": "audiolazy/lazy_filters.py", "how": "shallow (body, statement by statement)",
     "lean": "ALV.Gen.C12.LinearFilter_freq_response", "theorem": "src_linear_freq_response_is_model"},
    {"function": "CascadeFilter.freq_response", "file": "audiolazy/lazy_filters.py", "how": "shallow (body)",
     "lean": "ALV.Gen.C12.CascadeFilter_freq_response", "theorem": "src_cascade_freq_response_is_model"},
    {"function": "ParallelFilter.freq_response", "file": "audiolazy/lazy_filters.py", "how": "shallow (body)",
     "lean": "ALV.Gen.C12.ParallelFilter_freq_response", "theorem": "src_parallel_freq_response_is_model"},
    {"function": "dft", "file": "audiolazy/lazy_analysis.py", "how": "shallow (body) + signature / default as data",
     "lean": "ALV.Gen.C12.dft, ALV.Gen.C12.dft_params", "theorem": "src_dft_is_model, src_dft_signature_is_model"},
    {"function": "@elementwise(\"freq\", 1) on the three freq_response methods + their parameter lists",
     "file": "audiolazy/lazy_filters.py", "how": "shallow (decorator arguments and signature into the wrapper call)",
     "lean": "ALV.Gen.C12.<Class>_freq_response_call", "theorem": "src_freq_response_call_is_model"},
]
NOT_TRANSLATED = [
    {"function": "lazy_misc.elementwise (the wrapper itself)", "why": "nested closures, *args/**kwargs slicing, try/except around "
     "numpy, `type(arg)(data)` dispatch on the dynamic class: outside the subset; stays the hand model ALV.C12.wrapper"},
    {"function": "Poly.__call__ (lazy_poly.py)", "why": "owned by the Poly slice (C07); nested function horner_step, reduce over "
     "sorted dict items, isinstance dispatch on the argument: stays the hand model ALV.C12.evalPoly"},
    {"function": "LinearFilter.__init__", "why": "Poly construction / operator overloading (`x ** -power`): hand model mkFilter / finishFilter"},
    {"function": "FilterList.callables, list operations of histories", "why": "`callable(filt)` is a dynamic test answered by the "
     "harness; CPython list semantics are not source of the repo"},
    {"function": "LinearFilter.__call__ (FIR instance)", "why": "source built at run time and exec'ed: covered by translator T3 of C04"},
]


def regenerate(eng=None):
    """Rewrite lean/ALV/Gen/C12Src.lean from the repo under test.  On a translation failure the last COMMITTED file is
    put back (so that the build speaks about the last translatable state) and the error propagates (= broken obligation)."""
    path = os.path.join(common.LEAN, GEN_REL)
    try:
        text = translate(read_sources())
    except Exception:
        try:
            import subprocess
            good = subprocess.run(["git", "-C", common.VERIF, "show", "HEAD:lean/" + GEN_REL.replace(os.sep, "/")],
                                  capture_output=True, text=True, timeout=30)
            if good.returncode == 0 and good.stdout and (not os.path.exists(path) or open(path).read() != good.stdout):
                with open(path, "w") as f:
                    f.write(good.stdout)
        except Exception:
            pass
        raise
    old = open(path).read() if os.path.exists(path) else None
    if old != text:
        os.makedirs(os.path.dirname(path), exist_ok=True)
        with open(path, "w") as f:
            f.write(text)
        return "rewritten (%d bytes)" % len(text)
    return "unchanged (%d bytes)" % len(text)


# ------------------------------------------------------------------------------------------------
# self test: edited copies of the source text must change the translation (or fail to translate)
# ------------------------------------------------------------------------------------------------
EDITS = [
    # (name, file key, old, new)
    ("sign-of-the-exponent", "filters", "z_ = complex_exp(-1j * freq)", "z_ = complex_exp(1j * freq)"),
    ("nan-test-on-the-numerator", "filters", "      if den == 0:\n        return nan", "      if num == 0:\n        return nan"),
    ("swap-num-and-den-statements", "filters", "    num = self.numpoly(z_)\n    den = self.denpoly(z_)",
     "    num = self.denpoly(z_)\n    den = self.numpoly(z_)"),
    ("cascade-reduces-with-add", "filters", "    return reduce(operator.mul, (filt.freq_response(freq)",
     "    return reduce(operator.add, (filt.freq_response(freq)"),
    ("decorator-position", "filters", "  @elementwise(\"freq\", 1)\n  def freq_response(self, freq):\n    return reduce(operator.add",
     "  @elementwise(\"freq\", 0)\n  def freq_response(self, freq):\n    return reduce(operator.add"),
    ("dft-kernel-without-index", "analysis", "cexp(-1j * n * f)", "cexp(-1j * f)"),
    ("dft-normalize-default", "analysis", "def dft(blk, freqs, normalize=True):", "def dft(blk, freqs, normalize=False):"),
    ("dft-enumerate-from-one", "analysis", "enumerate(blk))", "enumerate(blk, 1))"),
    ("dft-normalisation-multiplies", "analysis", "[v / lblk for v in dft_data]", "[v * lblk for v in dft_data]"),
    ("cexp-rebound", "analysis", "\ndef dft(", "\ncexp = lambda x: 1\n\ndef dft("),
]
HARMLESS = [
    ("comment-and-blank-lines", "filters", "    z_ = complex_exp(-1j * freq)", "    # the point on the unit circle\n\n    z_ = complex_exp( -1j*freq )"),
    ("dft-docstring", "analysis", "  Complex non-optimized Discrete Fourier Transform", "  DFT."),
    ("rename-locals", "analysis", "  dft_data = (sum(xn * cexp(-1j * n * f) for n, xn in enumerate(blk))\n                                         for f in freqs)\n  if normalize:\n    lblk = len(blk)\n    return [v / lblk for v in dft_data]\n  return list(dft_data)",
     "  data = (sum(x * cexp(-1j * k * w) for k, x in enumerate(blk)) for w in freqs)\n  if normalize:\n    size = len(blk)\n    return [y / size for y in data]\n  return list(data)"),
]


def selftest(texts=None, committed=None):
    """-> list of (name, ok, detail)"""
    res = []
    texts = texts if texts is not None else read_sources()
    try:
        base = translate(texts)
    except TranslationError as e:
        return [("translator-selftest", False, "unchanged source does not translate: %s" % e)]
    if committed is not None:
        res.append(("translator-selftest:reproduces-committed-file", base == committed,
                    "lean/%s differs from the translation of the source" % GEN_REL))
    bad = []
    n_err = n_diff = n_skip = 0
    for name, key, old, new in EDITS:
        if texts[key].count(old) < 1:
            n_skip += 1                           # the source under test spells this place differently: nothing to say
            continue
        t = dict(texts)
        t[key] = texts[key].replace(old, new, 1)
        try:
            out = translate(t)
        except TranslationError:
            n_err += 1
            continue
        if out == base:
            bad.append("%s: translation unchanged" % name)
        else:
            n_diff += 1
    if n_diff + n_err < 4:
        bad.append("only %d of the %d edits apply to the source under test" % (n_diff + n_err, len(EDITS)))
    res.append(("translator-selftest:edits-change-the-translation", not bad,
                "; ".join(bad) if bad else "%d edits: %d different text, %d TranslationError, %d not applicable" % (
                    len(EDITS), n_diff, n_err, n_skip)))
    bad = []
    for name, key, old, new in HARMLESS:
        if texts[key].count(old) < 1:
            continue                              # source changed: nothing to say
        t = dict(texts)
        t[key] = texts[key].replace(old, new, 1)
        try:
            if translate(t) != base:
                bad.append("%s: translation changed" % name)
        except TranslationError as e:
            bad.append("%s: %s" % (name, e))
    res.append(("translator-selftest:layout-does-not-matter", not bad, "; ".join(bad)))
    return res


if __name__ == "__main__":
    import sys
    sys.stdout.write(translate(read_sources()))
