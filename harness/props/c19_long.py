"""C19 helper module — long runs and large parameters.

Cases of the ordinary entries (modulo_counter, line, fades, ones/zeros/impulse, adsr, attack,
table_call, sinusoid, karplus, resample) with thousands of samples and parameters around powers
of two.  Streams are described compactly ({"cyc": pattern, "len": N}), and only a sparse set of
output positions ("pick": first items, the neighbourhood of every batch boundary and of every
power of two, a few random ones, the last ones) is transported and compared, together with the
number of outputs and the way the stream ended.  Values are integers / dyadic rationals, so the
comparison is exact (tolerance only where the code itself injects inexact floats).
"""
import itertools, json, math
from fractions import Fraction
from common import enc, dec
from props import c19 as B

F = Fraction
MAXN = 50000


def picks(rng, n, marks=(), extra=6):
    """positions to compare: 0..3, around every mark and every power of two, some random, the end"""
    s = set(range(0, 4))
    for m in marks:
        for d in (-2, -1, 0, 1, 2):
            s.add(m + d)
    e = 16
    while e <= n + 1:
        s.update((e - 1, e, e + 1))
        e *= 2
    for _ in range(extra):
        s.add(rng.randrange(0, max(1, n)))
    s.update((n - 3, n - 2, n - 1, n, n + 1))
    return sorted(i for i in s if i >= 0)


def cyc_arg(rng, pattern, n, allow_F=True, kinds=None):
    ts = [B.typ_for(x, rng) for x in pattern]
    if not allow_F:
        ts = ["f" if t == "F" else t for t in ts]
    return {"cyc": [enc(x) for x in pattern], "ts": ts, "len": n,
            "kind": rng.choice(kinds or B.KINDS)}


# ----------------------------------------------------------------------------------------------
# modulo_counter: every numbers-vs-streams combination, int(modulo/step) around 2**k
# ----------------------------------------------------------------------------------------------
def gen_mc_long(rng, tier, scale):
    cases = []
    reps = (1 if tier == "quick" else 5) * scale
    rot = rng.randrange(3)
    for ci, combo in enumerate(itertools.product([False, True], repeat=3)):
        p_it, m_it, s_it = combo
        batched = not m_it and not s_it                 # the two branches with a steps-batched fast path
        for k in range(2, 15):
            if tier == "quick" and scale == 1 and k >= 12 and not batched and (k - 12) != (ci + rot) % 3:
                continue                                # quick tier: one of 2**12, 2**13, 2**14 per other branch
            for _ in range(reps):
                s_abs = rng.choice([F(1), F(1), F(1, 2), F(1, 4), F(2), F(3), F(3, 8)])
                R = 2 ** k + rng.choice([-1, 0, 0, 0, 1])
                delta = rng.choice([F(0), F(0), s_abs / 2])
                sign = -1 if rng.random() < 0.15 else 1
                m, s = sign * (R * s_abs + delta), sign * s_abs
                n = min(MAXN, rng.choice([2 * R + 3, 2 * R + R // 2 + 5, 3 * R + 2]) if k < 12 else 2 * R + rng.randint(3, 40))
                allow_F = k <= 10                      # Fractions are slow: shorter runs only
                ln = lambda: rng.choice([n, n, n + 5, n - rng.randint(1, 3)])
                if p_it:
                    pat = [F(rng.randint(-64, 64), rng.choice([1, 1, 2, 8])) for _ in range(rng.choice([1, 2, 3, 5, 7]))]
                    start = cyc_arg(rng, pat, ln(), allow_F)
                else:
                    q = B.dyadic(rng, rng.random() < 0.3)
                    start = {"num": enc(q), "t": B.typ_for(q, rng) if allow_F else "f"}
                if m_it:
                    pat = [m] if rng.random() < 0.75 else [m, m * 2] if rng.random() < 0.5 else [m, m, m + sign * s_abs * 8]
                    modulo = cyc_arg(rng, pat, ln(), allow_F)
                else:
                    modulo = {"num": enc(m), "t": B.typ_for(m, rng) if allow_F else B.fit_type("f", m)}
                if s_it:
                    pat = [s] if rng.random() < 0.7 else rng.choice([[s, s, 2 * s], [s, F(0), s], [s, -s, s, s]])
                    step = cyc_arg(rng, pat, ln(), allow_F)
                else:
                    step = {"num": enc(s), "t": B.typ_for(s, rng) if allow_F else B.fit_type("f", s)}
                marks = [j * R for j in (1, 2, 3)] + [j * 4096 for j in range(1, n // 4096 + 1)]
                cases.append({"entry": "modulo_counter", "n": n, "start": start, "modulo": modulo, "step": step,
                              "pick": picks(rng, n, marks), "k": k})
    return cases


# ----------------------------------------------------------------------------------------------
# the other generators
# ----------------------------------------------------------------------------------------------
def gen_other_long(rng, tier, scale):
    cases = []
    reps = (1 if tier == "quick" else 6) * scale
    T = lambda q, allow=("i", "f", "F"): next(t for t in [B.typ_for(F(q), rng) for _ in range(20)] + ["F"] if t in allow + ("I", "X", "b"))
    for _ in range(reps):
        # line / fades
        for dur in (rng.choice([F(4096), F(8191, 2), F(1000)]), rng.choice([F(4097), F(8201, 2), F(5000), F(16385, 4)]),
                    rng.choice([F(8200), F(12000), F(9001, 2)])):
            fin = rng.random() < 0.4
            b = B.dyadic(rng)
            den = dur - (1 if fin else 0)
            e = b + den * F(rng.randint(-64, 64), 64)
            n = int(dur) + 8
            cases.append({"entry": "line", "dur": {"v": enc(dur), "t": T(dur)}, "begin": {"v": enc(b), "t": T(b)},
                          "end": {"v": enc(e), "t": T(e)}, "finish": fin, "how": rng.choice(["pos", "kw"]),
                          "fuel": n, "pick": picks(rng, n, [int(dur)])})
        dur = F(2) ** rng.choice([10, 12, 13]) * rng.choice([1, 1, F(5, 4)])
        cases.append({"entry": rng.choice(["fadein", "fadeout"]), "dur": {"v": enc(dur), "t": T(dur)},
                      "fuel": int(dur) + 8, "pick": picks(rng, int(dur) + 8, [int(dur)])})
        # ones / zeros / impulse
        for what in ("ones", "zeros", "impulse"):
            d = rng.choice([None, "inf", F(4096), F(8191, 2), F(4096) + F(31, 64), F(5000), F(8193)])
            n = rng.choice([4095, 4096, 4097, 6000, 9000])
            dur = d if d in (None, "inf") else {"v": enc(d), "t": T(d)}
            cases.append({"entry": what, "dur": dur, "n": n, "exp_end": "auto", "pick": picks(rng, n, [4096, 5000])})
        # noise: durations only
        d = rng.choice([F(4096), F(8191, 2), F(3000)])
        cases.append({"entry": rng.choice(["white_noise", "gauss_noise"]), "dur": {"v": enc(d), "t": T(d)}, "n": 5000})
        # adsr / attack
        a, dd, r = F(2) ** rng.randint(8, 13), F(2) ** rng.randint(7, 13), F(2) ** rng.randint(9, 13)
        if rng.random() < 0.3:
            a += F(1, 2)
        sv = F(rng.randint(0, 8), 8)
        dur = a + dd + r + rng.choice([F(1000), F(2049, 2), F(0)])
        n = int(dur) + 8
        cases.append({"entry": "adsr", "dur": {"v": enc(dur), "t": T(dur)}, "a": {"v": enc(a), "t": T(a)},
                      "d": {"v": enc(dd), "t": T(dd)}, "s": {"v": enc(sv), "t": T(sv)}, "r": {"v": enc(r), "t": T(r)},
                      "how": rng.choice(["pos", "kw"]), "fuel": n,
                      "pick": picks(rng, n, [int(a), int(a + dd), int(dur - r), int(dur)])})
        n = int(a + dd) + rng.choice([50, 2000])
        if rng.random() < 0.5:
            sus = {"num": enc(sv), "t": T(sv)}
        else:
            sus = cyc_arg(rng, [sv, F(1, 4), F(3, 8)], rng.choice([n, 40, 3000]))
        cases.append({"entry": "attack", "a": {"v": enc(a), "t": T(a)}, "d": {"v": enc(dd), "t": T(dd)}, "s": sus,
                      "n": n, "exp_end": "auto", "pick": picks(rng, n, [int(a), int(a + dd)])})
        # TableLookup oscillator: int(len / step) around 2**k, phase / freq numbers or streams
        for k in (rng.choice([5, 6, 7]), rng.choice([9, 10, 12]), 13):
            L = rng.choice([4, 8, 64, 1024])
            tbl = [F(rng.randint(-32, 32)) for _ in range(L)]
            kk = rng.randint(0, 3)
            den = F(2) ** kk
            freq = den / 2 ** k if rng.random() < 0.6 else den * 3 / 2 ** (k + 2)
            R = int(den / freq)
            n = min(40000, 2 * R + R // 4 + 7)
            fr = {"num": enc(freq), "t": "f"}
            if rng.random() < 0.4:
                fr = cyc_arg(rng, [freq], rng.choice([n, n + 3, n - 2]), False, B.SKINDS)
            ph = F(rng.randint(-48, 48), 8)
            pa = {"num": enc(ph), "t": T(ph, ("i", "f"))}
            if rng.random() < 0.5:
                pa = cyc_arg(rng, [ph] if rng.random() < 0.6 else [ph, ph + 1, ph - F(1, 2)], rng.choice([n, n + 3, n - 2]),
                             False, B.SKINDS)
            cases.append({"entry": "table_call", "table": [enc(x) for x in tbl], "tts": [rng.choice("if") for _ in tbl],
                          "cycles": {"c0exp": kk}, "freq": fr, "phase": pa, "n": n, "exact": True, "default_phase": False,
                          "pick": picks(rng, n, [R, 2 * R, 4096, 8192]), "k": k})
        # sinusoid
        for k in (rng.choice([6, 8]), rng.choice([11, 12])):
            R = 2 ** k + rng.choice([-1, 0, 1])
            freq = F(B.TWO_PI / R)
            n = min(20000, 2 * R + R // 3 + 5)
            fr = {"num": enc(freq), "t": "f"}
            if rng.random() < 0.4:
                fr = cyc_arg(rng, [freq], n, False)
            ph = F(rng.uniform(-7, 7))
            pa = {"num": enc(ph), "t": "f"} if rng.random() < 0.6 else cyc_arg(rng, [ph], n + 2, False)
            cases.append({"entry": "sinusoid", "freq": fr, "phase": pa, "n": n, "default_phase": False,
                          "pick": picks(rng, n, [R, 2 * R]), "k": k})
        # karplus_strong: integer delay (exact), and a fractional one (tolerance)
        for delay in (float(rng.choice([16, 37, 64, 100])), float(F(rng.randint(17, 80), 2))):
            freq = B.exact_freq_for(delay)
            if freq is None:
                continue
            lm = math.ceil(delay)
            mem = [F(rng.randint(-16, 16), 16) for _ in range(lm)]
            n = rng.choice([3000, 5000])
            cases.append({"entry": "karplus", "freq": enc(F(freq)), "tau": "inf", "memory": [enc(x) for x in mem],
                          "mem_kind": rng.choice(["list", "iter", "callable", "Stream"]), "n": n,
                          "pick": picks(rng, n, [lm, 64 * lm])})
        # resample: long inputs
        for exact in (True, False):
            order = rng.choice([1, 2, 3, 3, 4, 5])
            L = rng.choice([1500, 3000])
            pat = [F(rng.randint(-16, 16)) for _ in range(7)]
            sig = [pat[i % 7] for i in range(L)]
            st = rng.choice([F(3, 4), F(1, 2), F(1), F(5, 4), F(2), F(3, 8)]) if not exact else \
                rng.choice([F(3, 4), F(2, 3), F(4, 3), F(1), F(5, 7), F(2)])
            n = int(L / st) + 20
            c = {"entry": "resample", "sig": [enc(x) for x in sig], "sts": [("i" if exact else "f")] * L, "order": order,
                 "zero": {"v": 0, "t": "i" if exact else "f"}, "n": n, "exact": exact,
                 "sig_kind": rng.choice(["list", "iter", "Stream", "tuple"]),
                 "pick": picks(rng, n, [int(L / st), 4096])}
            if rng.random() < 0.3:
                c["steps"] = [enc(st)] * rng.choice([n + 5, n // 2])
            else:
                c["old"] = {"v": enc(st), "t": "F" if exact else "f"}
                c["new"] = {"v": 1, "t": "i"}
            cases.append(c)
    return cases


def generate(rng, tier, scale):
    return gen_mc_long(rng, tier, scale) + gen_other_long(rng, tier, scale)


# ----------------------------------------------------------------------------------------------
# comparison on the picked positions
# ----------------------------------------------------------------------------------------------
def view(j):
    """{"n", "at"} -> (n, [Fraction or None])"""
    return j["n"], [None if x is None else dec(x) for x in j["at"]]


def same_view(a, b, exact):
    if a[0] != b[0] or len(a[1]) != len(b[1]):
        return False
    if any((x is None) != (y is None) for x, y in zip(a[1], b[1])):
        return False
    xs = [x for x in a[1] if x is not None]
    ys = [y for y in b[1] if y is not None]
    return B.same_vals(xs, ys, exact)


def show(v, pick, focus=None):
    """the view around the picked position `focus` (default: the first ones)"""
    n, at = v
    idx = [i for i in pick if i < n]
    j = idx.index(focus) if focus in idx else 0
    lo = max(0, j - 3)
    return "%d outputs, at %s: %s" % (n, idx[lo:lo + 8], [enc(x) if x is not None else None for x in at][lo:lo + 8])


def first_diff(a, b, pick, exact):
    idx = [i for i in pick if i < min(a[0], b[0])]
    for i, x, y in zip(idx, a[1], b[1]):
        if x != y and not (x is not None and y is not None and B.same_vals([x], [y], exact)):
            return i
    return None


def expected(c, drv):
    """(model view, [spec views], expected end, exact?) of a long-run case"""
    e = c["entry"]
    fuel = c.get("fuel", c.get("n"))
    exact = True
    if e == "modulo_counter":
        if drv["zero_at"] is not None:
            return None
        model = view(drv["model"])
        specs = [view(drv["rec"])] + ([view(drv["closed"])] if drv["closed"] is not None else [])
    elif e in ("line", "fadein", "fadeout", "adsr", "attack"):
        if "err" in drv["model"]:
            return None
        model, specs = view(drv["model"]["out"]), [view(drv["spec"])]
        exact = B.line_exact(c) if e in ("line", "fadein", "fadeout") else B.adsr_exact(c)
    elif e in ("ones", "zeros", "zeroes", "impulse"):
        model, specs = view(drv["model"]), [view(drv["spec"])]
    elif e == "table_call":
        model, specs = view(drv["model"]), [view(drv["spec"])]
        exact = c["exact"]
    elif e == "sinusoid":
        model, specs = view(drv["model"]), [view(drv["spec"])]
        exact = False
    elif e == "karplus":
        model, specs = view(drv["model"]), [view(drv["spec"])]
        exact = float(2 * math.pi / float(dec(c["freq"]))).is_integer()
    elif e == "resample":
        if "err" in drv["model"] or drv["short"]:
            return None
        model, specs = view(drv["model"]["out"]), [view(drv["spec"]["out"])]
        exact = c["exact"]
        end = "stop" if drv["spec"]["ended"] and specs[0][0] < fuel else "fuel"
        return model, specs, end, exact
    else:
        return None
    end = "fuel" if model[0] == fuel else "stop"
    return model, specs, end, exact


def cmp_long(c, io, drv):
    ex = expected(c, drv)
    if ex is None:
        return [("model", "long run: the model predicts an exception for %s" % json.dumps(c)[:200])]
    model, specs, end, exact = ex
    got = view(io["out"]) if isinstance(io["out"], dict) else (len(io["out"]), [])
    res = []
    label = "%s (long run)" % c["entry"]
    if not same_view(got, model, exact) or io["end"] != end:
        f = first_diff(got, model, c["pick"], exact)
        res.append(("model", "%s: first difference at output %s: impl %s /%s; model %s /%s" % (
            label, f, show(got, c["pick"], f), io["end"], show(model, c["pick"], f), end)))
    for sp in specs:
        if not same_view(got, sp, exact) or io["end"] != end:
            f = first_diff(got, sp, c["pick"], exact)
            res.append(("spec", "%s: first difference at output %s: impl %s /%s; spec %s /%s" % (
                label, f, show(got, c["pick"], f), io["end"], show(sp, c["pick"], f), end)))
            break
    return res


def classify(c, io, drv):
    e = c["entry"]
    tag = e + (":" + B.mc_branch(c) if e == "modulo_counter" else "")
    if io["end"] not in ("fuel", "stop"):
        return "%s:long-run:%s" % (tag, io["end"])
    ex = expected(c, drv)
    if ex is not None and isinstance(io["out"], dict) and io["out"]["n"] != ex[1][-1][0]:
        return "%s:long-run:length" % tag
    return "%s:long-run:values" % tag


def tally(eng, c, io):
    e = c["entry"]
    fuel = c.get("fuel", c.get("n"))
    eng.count("long_entry", e)
    eng.count("long_n", "2^%d" % max(0, fuel.bit_length() - 1))
    eng.count("long_end", io["end"])
    if e == "modulo_counter":
        br = B.mc_branch(c)
        eng.count("long_mc_branch", br)
        eng.count("long_mc_ratio", "%s 2^%d" % (br[:3], c.get("k", 0)))
        m, s = c["modulo"], c["step"]
        if "num" in m and "num" in s and dec(s["num"]) != 0:
            R = int(dec(m["num"]) / dec(s["num"]))
            eng.count("long_mc_batches_crossed", min(fuel // R if R > 1 else 0, 4))
        ts = set()
        for k in B.MC_ARGS:
            ts |= set(c[k]["ts"]) if B.is_strm(c[k]) else {c[k]["t"]}
        eng.count("long_mc_types", "".join(sorted(ts)))
    if e in ("table_call", "sinusoid"):
        eng.count("long_osc", "%s %s%s 2^%d" % (e, "F" if B.is_strm(c["freq"]) else "f", "P" if B.is_strm(c["phase"]) else "p", c.get("k", 0)))


# ----------------------------------------------------------------------------------------------
# shrinking: shorter runs (the picked positions follow), simpler arguments
# ----------------------------------------------------------------------------------------------
def with_n(c, n):
    key = "fuel" if "fuel" in c else "n"
    pick = sorted(set([i for i in c["pick"] if i <= n + 1] + [i for i in range(n - 4, n + 2) if i >= 0]))
    return dict(c, **{key: n, "pick": pick})


def shrink(c):
    n = c.get("fuel", c.get("n"))
    for m in (n // 2, n * 3 // 4, n - n // 8, n - 16, n - 1):
        if 0 < m < n:
            yield with_n(c, m)
    if len(c["pick"]) > 12:
        # keep every other picked position
        yield dict(c, pick=c["pick"][::2])
        yield dict(c, pick=c["pick"][1::2])
        h = len(c["pick"]) // 2
        yield dict(c, pick=c["pick"][:h])
        yield dict(c, pick=c["pick"][h:])
    if c["entry"] == "modulo_counter":
        for k in B.MC_ARGS:
            a = c[k]
            if "cyc" in a:
                if len(set(a["cyc"])) == 1 and a["len"] >= n:
                    yield dict(c, **{k: {"num": a["cyc"][0], "t": a["ts"][0]}})
                if len(a["cyc"]) > 1:
                    yield dict(c, **{k: dict(a, cyc=a["cyc"][:1], ts=a["ts"][:1])})
                if a.get("kind") != "list":
                    yield dict(c, **{k: dict(a, kind="list")})
                if a["len"] != n:
                    yield dict(c, **{k: dict(a, len=n)})
                if any(t != "f" for t in a["ts"]) and all(B.fit_type("f", dec(x)) == "f" for x in a["cyc"]):
                    yield dict(c, **{k: dict(a, ts=["f"] * len(a["ts"]))})
            else:
                q = dec(a["num"])
                if k == "start" and q != 0:
                    yield dict(c, **{k: dict(a, num=0, t=B.fit_type(a["t"], 0))})
                if k != "start":
                    # halve the modulo / step ratio
                    pass
                if a["t"] != "f" and B.fit_type("f", q) == "f":
                    yield dict(c, **{k: dict(a, t="f")})
        m, s = c["modulo"], c["step"]
        if "num" in m and "num" in s:
            mv, sv = dec(m["num"]), dec(s["num"])
            if sv != 0 and abs(mv / sv) > 8:
                yield dict(c, modulo=dict(m, num=enc(mv / 2), t=B.fit_type(m["t"], mv / 2)))
            if sv not in (1, -1) and sv != 0:
                r = mv / sv
                yield dict(c, modulo=dict(m, num=enc(r), t=B.fit_type(m["t"], r)), step=dict(s, num=1, t=B.fit_type(s["t"], 1)))
    elif c["entry"] in ("table_call", "sinusoid"):
        for k in ("freq", "phase"):
            a = c[k]
            if "cyc" in a and len(set(a["cyc"])) >= 1 and a["len"] >= n:
                yield dict(c, **{k: {"num": a["cyc"][0], "t": "f"}})
        if c["entry"] == "table_call" and len(c["table"]) > 4:
            h = len(c["table"]) // 2
            yield dict(c, table=c["table"][:h], tts=c["tts"][:h])
    elif c["entry"] == "resample":
        if c["sig_kind"] != "list":
            yield dict(c, sig_kind="list")
        if len(c["sig"]) > 16:
            h = len(c["sig"]) // 2
            yield dict(c, sig=c["sig"][:h], sts=c["sts"][:h])
        if c["order"] > 1:
            yield dict(c, order=c["order"] - 1)
    elif c["entry"] == "karplus":
        if c["mem_kind"] != "list":
            yield dict(c, mem_kind="list")
