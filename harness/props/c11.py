"""C11 — PARCOR step-down / parcor_stable / Levinson reflection coefficients.

Tie: reflection-coefficient vectors (rational, non-zero last entry) through the step-up
recursion, denominators with a pole set known by construction (rational real poles and
rational complex-conjugate pairs inside / on / outside the unit circle) times any non-zero
rational gain, explicit numerators with any constant denominator, autocorrelation lists.
All inputs are `Fraction`s, so the real code stays exact unless `Poly`'s float zero `0.` leaks in
(a coefficient that is exactly zero is read back as `0.`): the impl side reports whether a float
was seen and the comparison is exact otherwise.
"""
import sys
import common
from common import err_kind, enc, encl, dec, decl, close, close_list
from fractions import Fraction as F
from props import c11_hist as H
from props import c11_float as FL
from props import c11_tr as TR

ID = "C11"
RULE = ("exhaustive small grids (reflection vectors of length <= 3 over a 9-point pool, pole sets of "
        "<= 2 real poles and <= 1 conjugate pair x 4 gains) plus random larger cases; non-trivial = "
        "order >= 1 (at least one step-down iteration runs / one reflection coefficient exists); "
        "distinct = distinct JSON case; long inputs: reflection vectors / pole sets / autocorrelations of order 30-129 "
        "around powers of two in exact arithmetic; histories (entry hist, harness/props/c11_hist.py): 3-40 operations "
        "of a caller on up to three MUTABLE ZFilter objects (levinson_durbin results and ZFilters edited in place by "
        "Poly item assignment / attribute rebinding, one Poly object bound to two filters, the same autocorrelation "
        "object passed again, numerically equal coefficients given as float / int / Fraction in both orders with "
        "critical denominators whose binary64 verdict differs from the exact one, two parcor generators drained in "
        "turns, CascadeFilter), every history in a forked child of a pristine process; a history is non-trivial when "
        "it contains a parcor / parcor_stable query; "
        "round 3: NEAR-CRITICAL inputs in exact arithmetic (reflection vectors with entries at distance 1e-3..1e-15 "
        "from +-1 on either side, real poles and conjugate pairs at distance 1e-3..1e-12 from the unit circle inside / "
        "outside, alone, with ordinary poles, beside really critical ones, any gain): ParCorError iff some |k| = 1 "
        "exactly, verdict iff all |k| < 1, and parcor_stable on every stepped-up filter; FLOAT regime (entry fparcor, "
        "harness/props/c11_float.py): int / float coefficient lists of order 1-8 (integer denominators with poles known "
        "by construction and leading coefficient c*prod b_i, every int lead 1..300 in the thorough tier, float step-ups "
        "times random float gains, float near-critical, raw), compared BIT FOR BIT with the binary64 run of the same "
        "loop and, where well conditioned, with the exact specification on the same numbers (1e-9); CALL shapes (entry "
        "call): ZFilter(num, den) with Laurent numerator / denominator (powers from -2, missing power 0, leading / "
        "trailing zeros, constant / zero / feedback denominators) built from dicts, lists or z-expressions, positional "
        "or keyword call - error branches ValueError / ZeroDivisionError included; "
        "round 4: FLOAT levinson_durbin (entry flevinson): float autocorrelation data of order 1-8 (from float reflection "
        "vectors, autocorrelations of random blocks, integral-valued floats, near-singular |k| = 1 - 1e-3..1e-12, really "
        "singular [c, +-c, ..] / r0 = 0, raw indefinite; order = / < / > len(r) - 1), numerator and error compared BIT FOR "
        "BIT with the binary64 run of the same recursion with sum = CPython's compensated sum, and with the exact "
        "recursion + r0*prod(1-k^2) on the same numbers (1e-9) where well conditioned; the round trip lead * step-up(yields) "
        "= shifted numerator on every completed call of entry call; CALL EXPRESSIONS (entry apply): parcor(*args, **kwargs) / "
        "parcor_stable(*args, **kwargs) with 0-2 positional arguments, keywords fir_filt / filt / foreign, objects of four "
        "kinds (constructed Laurent ZFilter; int / bool / Fraction; Stream; float / complex / None / str / list / tuple / "
        "dict / Poly): which exception, raised by the call expression or by the first next(), yields, verdict")
TRUSTED = [
    "round 5, translator T5 (harness/props/c11_tr.py: ast -> lean/ALV/Gen/C11Src.lean, rewritten before every build): the "
    "statements of lazy_lpc.parcor and lazy_lpc.parcor_stable are REGENERATED from the source and proved equal to the model "
    "functions of the theorems (Props.C11.src_pstep_is_model, src_ploop_is_model, src_parcor_is_model, "
    "src_parcor_is_exact_model, src_parcor_f64, src_parcor_stable_is_model, src_parcor_stable_is_exact_model, "
    "src_parcor_stable_f64, src_parcor_guard_is_call) on every carrier, no law of arithmetic used. The translator trusts: "
    "(i) Python semantics of the subset it accepts (straight-line assignments evaluated in order with rebinding = "
    "shadowing, `if` without else, one count-down `for ... in xrange(start, 0, -1)`, a generator yielding one number per "
    "pass and suspended at the yield, `try/except` around ONE division whose only exception is the ZeroDivisionError of "
    "`1 / c` for c == 0, `all()` over a generator stopping at the first false test and abandoning the generator, "
    "`except ParCorError` catching what the generator raises; ParCorError derives from ZeroDivisionError and `/` is the "
    "true division: both checked in the source), everything outside the subset being a TranslationError = broken "
    "obligation; (ii) the VOCABULARY mapping ALV/Model/C11Src.lean, hand-written: what ZFilter(poly), f.denominator, "
    "f.numpoly[i], len(f.numerator), f / g, f(1 / z), f * z ** e, k * f, f - g, f / c, f - c, f + 1, abs(k) and k ** 2 do "
    "to the coefficients of a filter with a constant denominator (window of Laurent coefficients; `f + 1` over the "
    "denominator d adds d, i.e. 1 * d = d is used; absent terms read as zero; the operation order of "
    "ALV/Model/C11Float.lean) - validated by the tie, bit for bit in the float regime; (iii) the three fixed templates "
    "(generator -> (yields, raised) recursion on the counter, all() -> short-circuit recursion, the call of parcor on "
    "ZFilter(filt.denpoly) -> numerator := the denominator list, denominator 1, for which the feedback test passes: "
    "src_guard_passes_unit_den). The translator is self-tested on every run on edited copies of the source text (extra "
    "check translator-selftest). NOT under the translator: levinson_durbin, ZFilter / Poly arithmetic itself, the call "
    "expression, histories (hand-written models, reasons in evidence `translated`)",
    "round 4, levinson_durbin in the float regime: the driver runs ALV.C11.levinsonG - the recursion of the theorems with "
    "the summation function as a parameter, PROVED equal to ALV.C11.levinson for the left fold on every carrier "
    "(Props.C11.levfloat_is_model) and for CPython's compensated sum over every field "
    "(levfloat_compensated_is_model) - on binary64 bit patterns with sum = sumPyG F64.isFinite. Trusted, not proved: "
    "(i) IEEE-754 agreement of Lean's Float and Python's float (as above), (ii) the builtin sum of THIS interpreter on "
    "floats is Neumaier's compensated summation as in CPython >= 3.12 bltinmodule.c (checked on every run on a fixed "
    "table of 1505 lists, 797 of which differ from the left fold: extra check float-twin-sum-is-cpython-sum; on an "
    "interpreter < 3.12 that check fails and the twin must be run with lsum), (iii) the operation order "
    "(acdata[|i-j|]*ai)*bj, i outer / j inner; one division inner(A,z^-m)/inner(B,B); a + (-(q*b)); error = inner(A,A) "
    "- validated by the bit-for-bit comparison itself; the round trip of bit patterns through the driver is checked "
    "on a table (extra check float-bits-roundtrip: identity, -0.0 -> +0.0)",
    "round 4, call expressions: hand-written model ALV/Model/C11Apply.lean of Python's binding of a one-parameter "
    "function and of the first lines of parcor / parcor_stable on non-filter objects (which attribute is missing on "
    "which kind of object: read from the code, validated by the tie on 13 object spellings)",
    "float regime (round 3): the driver runs ALV.C11.parcorFixedG / parcorStableFixedG - the loop of the theorems, "
    "parameterised by the squaring function and PROVED equal to parcorFixed / parcorStableFixed for sq = k*k "
    "(Props.C11.floatloop_is_model) - on binary64 bit patterns (ALV.C11.F64) with sq = Float.pow(k, 2). Trusted, not "
    "proved: (i) Lean's Float + - * / and Python's float + - * / are the same IEEE-754 binary64 round-to-nearest "
    "operations of this machine, (ii) Lean's Float.pow and CPython's float ** call the same libm pow (checked on every "
    "run on a fixed table of 4048 numbers, which contains numbers where pow(k,2) != k*k: extra check "
    "float-twin-pow-is-cpython-pow), (iii) the operation ORDER of the model is the code's (read from lazy_filters.py / "
    "lazy_poly.py: c*(1/g), a+(-(k*c)), (..)*(1/(1-k**2)), (c+(-c))+1; documented in ALV/Model/C11Float.lean) - this is "
    "what the bit-for-bit comparison validates, (iv) -0.0 is stored as +0.0 (Python's == 0 does not see the sign; no "
    "division by a zero survives); runs that meet inf / nan are flagged and not compared (CPython raises OverflowError "
    "from ** where C returns inf). No theorem is ABOUT binary64 arithmetic",
    "call shapes (round 3): hand-written model ALV/Model/C11Call.lean of LinearFilter.__init__'s shift and of the "
    "branches of parcor before the loop (len(den) != 1, gain == 0, negative powers left); the z-expression / list / dict "
    "constructions and the keyword call are exercised on the real code and compared with the one model",
    "lsf / lsf_stable (same file, 'see also' of parcor_stable) import numpy.roots, which is absent here: they raise "
    "ImportError after their own ValueError('Filter has feedback') test and are neither modelled nor tied",
    "hand-written Lean model ALV/Model/C11.lean of lazy_lpc.parcor / parcor_stable / levinson_durbin "
    "(modelled, not verified: ZFilter/Poly arithmetic as a window of Laurent coefficients over a field, "
    "generator protocol, all()'s short circuit)",
    "pole sets are known by construction (harness multiplies the factors in exact Fractions; the Lean "
    "side recomputes the product with ALV.C11.fromPoles and both are compared on every case)",
    "Schur-Cohn equivalence (verdict of the specification <-> all poles strictly inside the unit circle) is "
    "proved for every order over real coefficients / complex poles (Props.C11.schur_cohn, "
    "stable_eq_construction); the tie additionally compares the Lean verdict with the construction on every "
    "generated pole set (exact rationals)",
    "histories: hand-written heap model ALV/Model/C11Hist.lean (Poly objects = cells, ZFilter = two cell indices + the "
    "`error` attribute; `f.numpoly[i] = v`, `f.numpoly = Poly(..)`, `f.numpoly = g.denpoly` are plain Python object "
    "semantics, modelled not verified); in the model a query is a pure function of the current contents of the two "
    "cells and returns the heap unchanged BY CONSTRUCTION (no theorem: it is the definition) - the harness checks it "
    "on the real code by comparing the contents of every live filter with the Lean heap after every step and every "
    "query with the payload of the same call taken alone on the current contents (Props.C11.hist_query_alone)",
    "numerically equal int / float / Fraction coefficients are one and the same Lean input (the model is over a field): "
    "independence of the numeric type of EARLIER calls holds in the model by construction; steps on int / float "
    "coefficients are compared with tolerance 1e-9 and not judged when critical or ill conditioned, steps on Fractions "
    "exactly",
    "isolation (harness/props/c11_hist.py: zygote_start): a process forked before this one has used the library forks "
    "one child per history, so a witness is self-contained (no cache / attribute / module state left by earlier cases)",
]
ASSUMPTIONS = [
    "float levinson_durbin: acdata are Python floats (the zero extension appends the int 0, harmless); int acdata go "
    "through the exact int path of the builtin sum and int true division and are compared in the tolerance regime "
    "(entry levinson) only; results that meet inf / nan are flagged and not compared",
    "outside model and generator (observed on /repo, not tied): coefficient lists mixing Fraction and float (yields are "
    "Fractions until the first float operand: [Fraction(1,6), 0.214..] for [F(2), 0.5, F(1,3)]), Stream-valued "
    "coefficients (a Stream at power 0 -> TypeError 'Streams can't be used as booleans' at the first next(); elsewhere "
    "the generator yields Stream objects and parcor_stable raises that TypeError), Poly-valued coefficients (the first "
    "yielded Poly is followed by TypeError: int / Poly), complex coefficients (work; abs() is the modulus); "
    "lsf / lsf_stable need numpy (absent): neither modelled nor tied",
    "leading (delay 0) coefficient of the step-down input is non-zero for the clauses of the property (ZFilter's "
    "constructor guarantees it for denominators); what the code does otherwise - ZeroDivisionError for a numerator "
    "without a term at power 0, ValueError for negative powers or feedback - is modelled (ALV/Model/C11Call.lean) and "
    "tied (entry call), and Props.C11.call_parcorError_only_critical shows that none of these is a ParCorError",
    "float regime: finite binary64 numbers only; ints below 2^53; complex, Stream (time-varying) and Poly-valued "
    "coefficients are outside the property's quantifier and outside model and generator",
    "coefficients are exact rationals; float rounding inside the real code is only bounded by the "
    "1e-9 tolerance in the cases where Poly's float zero leaks in (flagged per case); floats yielded for an "
    "all-Fraction filter without a zero reflection coefficient are NOT excused (compared exactly)",
    "histories: the caller never leaves a Poly empty or with a zero leading (power 0) coefficient, never uses negative "
    "or fractional powers, and never hashes a Poly (a hashed Poly refuses item assignment)",
]
MANIFEST = {
    "text": ("ROUND 5: parcor and parcor_stable are under a TRANSLATOR - their statements are regenerated from "
             "audiolazy/lazy_lpc.py into lean/ALV/Gen/C11Src.lean before every build (loop body, generator, gain "
             "normalisation, feedback test, stability test; the squaring operator `k ** 2` read from the source) and "
             "proved equal to the model functions every theorem below is about (src_*_is_model), on every carrier.  "
             "ROUND 4: what is RUN on binary64 is the generic loop at carrier F64 (instantiation theorems; "
             "ParCorError on any carrier iff a yielded k has 1 - sq k = 0); levinson_durbin in the bit-exact float regime "
             "(recursion parameterised by the summation function = the model for the left fold on any carrier and for "
             "CPython's compensated sum over any field; shape and raise conditions law-free); levinson_durbin raises iff "
             "the prediction error of a completed prefix is zero; error = errorSpec; rebuilding for non-monic and "
             "Laurent-shifted input through the call (lead * step-up(yields) = shifted numerator); the call expressions "
             "(binding, positional = keyword, only the binding TypeError is raised by parcor(...) itself, verdict <-> poles "
             "through the keyword call).  "
             "ROUND 3: sharp step-down (every reflection vector: yields up to and including the first k with k^2 = 1 "
             "and raises there, completes otherwise; ParCorError iff some input k = +-1; verdict of a stepped-up filter "
             "= all |k| < 1; for every eps > 0 a coefficient within eps of 1 on either side that is NOT critical), the "
             "loop parameterised by the squaring function = the model (so that the binary64 run with libm pow is the same "
             "definition), the call on Laurent numerators / denominators with its error branches, parcor_stable decides "
             "on the shifted denominator and never reads the numerator.  "
             "Lean 4 theorems, for every order and any field: parcor as coded inverts the step-up recursion and "
             "step-up rebuilds the filter (whenever leading coefficient = den[0]); ParCorError iff some yielded "
             "k^2 = 1 (all inputs); levinson_durbin as coded = step-up of its reflection coefficients with "
             "error = r0*prod(1-k^2); gain invariance of the specification and of the repaired code, and its "
             "NEGATION for the code as it stands (defect D3); Schur-Cohn in both directions for every order "
             "(real coefficients, complex poles): verdict True <-> all poles strictly inside the unit circle; "
             "histories on mutable filter objects (heap of Poly cells): well-formedness invariant under every operation "
             "incl. the raising ones, frame theorems (only an in-place edit through a bound filter changes an existing "
             "Poly; only rebinding changes a filter), coefficient semantics of poly[i] = v, a query = the same query "
             "taken alone on the current contents, levinson_durbin result edited (rebinding or item loop) then parcor "
             "yields the NEW reflection coefficients, aliasing, verdict <-> poles of the CURRENT denominator"),
    "note": ("Trusted: Lean kernel, axioms propext/Classical.choice/Quot.sound, the Python correspondence harness. "
             "The model is hand written (ZFilter/Poly arithmetic abstracted to a window of Laurent coefficients "
             "over a field) and validated differentially. Nothing of the property is left pending; the parcor_stable "
             "clause is proved for the specification and the repaired code, and refuted for the code as it stands (D3)."),
    "technique": ("Lean 4 machine-checked proof over an executable model + SOURCE-TO-LEAN TRANSLATOR for parcor / "
                  "parcor_stable (harness/props/c11_tr.py regenerates lean/ALV/Gen/C11Src.lean from lazy_lpc.py on every "
                  "run; src_*_is_model theorems: the regenerated definitions are the model, on every carrier incl. "
                  "binary64) + differential correspondence (exact rationals; bit for bit on binary64) for everything, "
                  "levinson_durbin and the call / history layers included"),
    "design_ref": "DESIGN.md section 7, C11; section 8 D3; section 9; section 3.2 (T5)",
}
if hasattr(sys, "set_int_max_str_digits"):
    sys.set_int_max_str_digits(0)      # a mutated recursion may blow the Fractions up; still report it
TOL = F(1, 10**9)
MARGIN = F(1, 10**6)

# ----------------------------------------------------------------------------------------------
# exact helpers (harness side)
# ----------------------------------------------------------------------------------------------
def pmul(a, b):
    out = [F(0)] * (len(a) + len(b) - 1)
    for i, x in enumerate(a):
        for j, y in enumerate(b):
            out[i + j] += x * y
    return out


def step_up(ks):
    a = [F(1)]
    for k in ks:
        ext = a + [F(0)]
        rev = ext[::-1]
        a = [x + k * y for x, y in zip(ext, rev)]
    return a


def from_poles(g, reals, pairs):
    f = [g]
    for p in reals:
        f = pmul(f, [F(1), -p])
    for a, b in pairs:
        f = pmul(f, [F(1), -2 * a, a * a + b * b])
    return f


def acorr_from_ks(ks, r0=F(1)):
    """autocorrelation whose Levinson recursion has reflection coefficients ks"""
    r = [r0]
    a = [F(1)]
    e = r0
    for m, k in enumerate(ks, 1):
        # k = -(r_m + sum_{i=1}^{m-1} a_i r_{m-i}) / e
        acc = sum(a[i] * r[m - i] for i in range(1, m))
        r.append(-k * e - acc)
        ext = a + [F(0)]
        a = [x + k * y for x, y in zip(ext, ext[::-1])]
        e = e * (1 - k * k)
    return r


def fr(s):
    return F(s)


# ----------------------------------------------------------------------------------------------
# generation
# ----------------------------------------------------------------------------------------------
KPOOL = [F(-3, 2), F(-1), F(-1, 2), F(-1, 3), F(0), F(1, 3), F(1, 2), F(1), F(2)]
IN_REAL = [F(0), F(1, 2), F(-1, 2), F(9, 10), F(-3, 4), F(1, 3), F(-99, 100), F(2, 3)]
ON_REAL = [F(1), F(-1)]
OUT_REAL = [F(2), F(-3, 2), F(5), F(11, 10), F(-101, 100), F(-4)]
IN_PAIR = [(F(0), F(1, 2)), (F(1, 2), F(1, 2)), (F(-3, 5), F(3, 5)), (F(1, 3), F(-2, 3)), (F(7, 10), F(7, 10)),
           (F(0), F(9, 10)), (F(-1, 2), F(1, 4))]
ON_PAIR = [(F(0), F(1)), (F(3, 5), F(4, 5)), (F(-4, 5), F(3, 5)), (F(5, 13), F(12, 13)), (F(-7, 25), F(24, 25))]
OUT_PAIR = [(F(1), F(1)), (F(0), F(2)), (F(4, 5), F(4, 5)), (F(-3, 2), F(1, 2)), (F(3, 5), F(9, 10))]
GAINS = [F(1), F(2), F(-1), F(1, 10), F(-3, 7), F(5), F(1, 3), F(-2), F(100)]


def rk(rng, lim=None):
    """a random reflection coefficient"""
    t = rng.random()
    if t < 0.70:
        q = rng.choice([2, 3, 4, 5, 7, 10])
        return F(rng.randint(-q + 1, q - 1), q)
    if t < 0.80:
        return rng.choice([F(1), F(-1)])
    if t < 0.88:
        return F(0)
    return F(rng.randint(-9, 9), rng.choice([2, 3, 4])) + rng.choice([F(1), F(-1), F(2)])


def rnz(rng):
    while True:
        g = F(rng.randint(-12, 12), rng.choice([1, 1, 2, 3, 5, 10]))
        if g != 0:
            return g


def case_stepup(ks):
    return {"entry": "stepup", "ks": encl(ks)}


def case_parcor(num, den):
    return {"entry": "parcor", "num": encl(num), "den": encl(den)}


def case_stable(g, reals, pairs, num=None):
    c = {"entry": "stable", "gain": enc(g), "reals": encl(reals), "pairs": [encl(p) for p in pairs]}
    if num is not None:
        c["num"] = encl(num)
    return c


def case_lev(r, order):
    return {"entry": "levinson", "r": encl(r), "order": order}


def generate(rng, tier, scale=1):
    cases = []
    quick = tier == "quick"
    if scale == 1:
        # --- exhaustive small universes ---------------------------------------------------
        pool = KPOOL
        for a in pool:
            if a != 0:
                cases.append(case_stepup([a]))
            for b in pool:
                if b != 0:
                    cases.append(case_stepup([a, b]))
                if quick:
                    continue
                for c in pool:
                    if c != 0:
                        cases.append(case_stepup([a, b, c]))
        r_small = [F(1, 2), F(-3, 4), F(1), F(-1), F(2), F(-3, 2), F(0)]
        p_small = [(F(0), F(1, 2)), (F(3, 5), F(4, 5)), (F(1), F(1)), (F(-1, 2), F(1, 2))]
        gs = [F(1), F(2), F(1, 10), F(-3)]
        for g in gs:
            for i, r1 in enumerate(r_small):
                cases.append(case_stable(g, [r1], []))
                for r2 in r_small[i:]:
                    cases.append(case_stable(g, [r1, r2], []))
                    if not quick:
                        for p in p_small:
                            cases.append(case_stable(g, [r1, r2], [p]))
                for p in p_small:
                    cases.append(case_stable(g, [r1], [p]))
            for p in p_small:
                cases.append(case_stable(g, [], [p]))
        # the witnesses of D3 and the documented examples
        cases.append(case_stable(F(2), [F(1, 2)], []))
        cases.append(case_stable(F(1, 10), [F(5)], []))
        cases.append(case_parcor([F(3), F(3, 2), F(1)], [F(1)]))
        cases.append(case_parcor([F(1), F(1, 2), F(1, 3)], [F(1)]))
        cases.append(case_parcor([F(1), F(1, 2)], [F(1), F(1, 2)]))       # feedback -> ValueError
        cases.append(case_lev([F(12), F(6), F(0), F(-3), F(-6), F(-3), F(0), F(2), F(4), F(2)], 3))
        cases.append(case_lev([F(1), F(2), F(3), F(4), F(5), F(3), F(2), F(1)], 7))
        for r in ([0, 1], [0, 0, 0], [1, 1, 1], [1, -1, 1, -1], [2, 1, 2, 1], [4, 2]):
            cases.append(case_lev([F(x) for x in r], len(r) - 1))
    n = (300 if quick else 12000) * scale
    # --- reflection vectors -------------------------------------------------------------------
    for _ in range(n):
        order = rng.choice([1, 2, 3, 3, 4, 5, 6, 8, rng.randint(1, 12)])
        ks = [rk(rng) for _ in range(order)]
        while ks[-1] == 0:
            ks[-1] = rk(rng)
        if rng.random() < 0.5:        # the purely stable regime, no error branch
            ks = [k if abs(k) < 1 else F(1) / (k + (k > 0) - (k < 0)) for k in ks]
            while ks[-1] == 0:
                ks[-1] = F(rng.randint(1, 4), 5)
        cases.append(case_stepup(ks))
    # --- explicit numerators, gains, constant denominators --------------------------------------
    for _ in range(n // 2):
        order = rng.choice([0, 1, 2, 3, 4, 6])
        t = rng.random()
        if t < 0.45:
            ks = [rk(rng) for _ in range(order)]
            a = step_up(ks)
        else:
            a = [F(1)] + [F(rng.randint(-8, 8), rng.choice([1, 2, 3, 4, 5])) for _ in range(order)]
        g = rnz(rng)
        u = rng.random()
        if u < 0.35:
            num, den = [g * x for x in a], [F(1)]            # gain in the numerator only (D3 regime)
        elif u < 0.6:
            num, den = [g * x for x in a], [g]               # numerator leading = den[0]
        elif u < 0.8:
            num, den = a, [F(1)]
        elif u < 0.95:
            num, den = [g * x for x in a], [rnz(rng)]
        else:
            num, den = a, [F(1), rnz(rng)]                   # feedback -> ValueError
        cases.append(case_parcor(num, den))
    # --- pole sets ------------------------------------------------------------------------------
    for _ in range(n):
        t = rng.random()
        nr = rng.choice([0, 1, 1, 2, 3, 4])
        npair = rng.choice([0, 0, 1, 1, 2, 3])
        if nr + npair == 0:
            nr = 1
        if t < 0.45:      # all inside
            reals = [rng.choice(IN_REAL) if rng.random() < .5 else F(rng.randint(-19, 19), 20) for _ in range(nr)]
            pairs = [rng.choice(IN_PAIR) if rng.random() < .5 else rnd_pair(rng, "in") for _ in range(npair)]
        else:
            reals = [rng.choice(IN_REAL) for _ in range(nr)]
            pairs = [rng.choice(IN_PAIR) for _ in range(npair)]
            # spoil one or two of them
            for _ in range(rng.choice([1, 1, 2])):
                kind = rng.choice(["on", "out"])
                if reals and (not pairs or rng.random() < .5):
                    reals[rng.randrange(len(reals))] = rng.choice(ON_REAL if kind == "on" else OUT_REAL + [F(rng.randint(21, 60), 20)])
                else:
                    pairs[rng.randrange(len(pairs))] = rng.choice(ON_PAIR) if kind == "on" else (
                        rng.choice(OUT_PAIR) if rng.random() < .5 else rnd_pair(rng, "out"))
        g = rng.choice(GAINS) if rng.random() < .6 else rnz(rng)
        num = None
        if rng.random() < 0.2:
            num = [F(rng.randint(1, 5)), F(rng.randint(-3, 3), 7)]
        cases.append(case_stable(g, reals, pairs, num))
    # --- autocorrelation lists --------------------------------------------------------------------
    for _ in range(n // 2):
        order = rng.choice([1, 2, 3, 4, 5, 6, 8])
        lim = 9 if order <= 4 else 6
        ks = [F(rng.randint(-lim, lim), 10) for _ in range(order)]
        if ks[-1] == 0:
            ks[-1] = F(3, 10)
        r = acorr_from_ks(ks, rng.choice([F(1), F(2), F(7, 3), F(10)]))
        t = rng.random()
        if t < 0.7:
            cases.append(case_lev(r, order))
        elif t < 0.85:
            cases.append(case_lev(r, max(1, order - 1)))       # order below len(r) - 1
        else:
            cases.append(case_lev(r[:max(2, order)], order + rng.choice([0, 1, 2])))   # zero extension
    cases.extend(near_critical_cases(rng, (70 if quick else 1200) * scale, scale == 1))
    if scale == 1:
        cases.extend(long_cases(rng, quick))
    cases.extend(FL.generate(rng, tier, scale))
    cases.extend(H.generate(rng, tier, scale))
    return cases


def near_unit(rng, lo=3, hi=15):
    """a rational at distance 10^-e (e in lo..hi) from +1 or -1, on either side"""
    e = rng.randint(lo, hi)
    return rng.choice([1, -1]) * (1 + rng.choice([1, -1]) * F(1, 10 ** e))


def near_critical_cases(rng, n, fixed):
    """near-critical but not critical inputs in EXACT arithmetic (the ParCorError test and the verdict are exact:
    Props.C11.stepdown_stepup_sharp, stable_stepUp, near_critical_is_not_critical)"""
    out = []
    if fixed:
        eps = F(1, 10 ** 9)
        for ks in ([F(1, 3), 1 - eps, F(1, 4)], [-(1 - eps), F(1, 2)], [F(2, 5), F(-1, 7), 1 + eps, F(-3, 4)],
                   [1 - F(1, 10 ** 7)], [1 - F(1, 10 ** 8)], [-1 - F(1, 10 ** 15)], [F(1, 3), F(1), F(1, 4)]):
            out.append(case_stepup(ks))
        for reals in ([1 - eps], [-(1 - eps)], [1 - eps, F(1, 2), F(-1, 3)], [1 - eps, F(1)], [1 + eps], [1 + eps, F(1, 2)],
                      [1 - F(1, 10 ** 7), F(1, 2)], [1 - F(1, 10 ** 12), F(-1, 2)]):
            for g in (F(1), F(-5, 2), F(3)):
                out.append(case_stable(g, reals, []))
    for _ in range(n):
        order = rng.choice([1, 2, 3, 3, 4, 5, 6])
        # reflection vectors: one or two entries next to +-1, the others ordinary and non-zero (no float zero leaks)
        ks = [F(rng.randint(1, 9) * rng.choice([1, -1]), 10) for _ in range(order)]
        for _ in range(rng.choice([1, 1, 2])):
            ks[rng.randrange(order)] = near_unit(rng)
        if rng.random() < .15:
            ks[rng.randrange(order)] = rng.choice([F(1), F(-1)])       # a really critical one beside it
        out.append(case_stepup(ks))
    for _ in range(n):
        nr = rng.choice([0, 1, 1, 2, 3])
        npair = rng.choice([0, 0, 1, 1]) if nr else 1
        reals = [rng.choice(IN_REAL[1:]) for _ in range(nr)]
        pairs = [rng.choice(IN_PAIR) for _ in range(npair)]
        t = rng.random()
        if reals and (not pairs or t < .6):
            reals[rng.randrange(nr)] = near_unit(rng, 3, 12)
        else:
            a, b = rng.choice(ON_PAIR)
            s_ = abs(near_unit(rng, 3, 12))
            pairs[rng.randrange(npair)] = (a * s_, b * s_)              # modulus s_, next to the unit circle
        if rng.random() < .1 and reals:
            reals.append(rng.choice(ON_REAL))                         # critical beside near-critical
        g = rng.choice(GAINS) if rng.random() < .6 else rnz(rng)
        out.append(case_stable(g, reals, pairs))
    return out


def long_cases(rng, quick):
    """high orders around powers of two, exact arithmetic (no zero coefficient: Poly's float zero stays out)"""
    out = []
    orders = [31, 32, 33, 63, 64, 65] if quick else [30, 31, 32, 33, 48, 63, 64, 65, 96, 100, 127, 128, 129]
    for n in orders:
        ks = [F(rng.choice([-3, -2, -1, 1, 2, 3]), rng.choice([4, 4, 5, 7])) for _ in range(n)]
        out.append(case_stepup(ks))
        if n <= (33 if quick else 65):
            ks2 = list(ks)
            ks2[rng.randrange(n // 2, n)] = rng.choice([F(1), F(-1)])       # ParCorError deep in the recursion
            out.append(case_stepup(ks2))
    for n in ([31, 33] if quick else [31, 32, 33, 63, 64, 65]):
        for where in (["in", "on"] if quick else ["in", "on", "out"]):
            npair = rng.randint(n // 4, n // 3)
            # small dyadic poles: the exact recursion stays cheap (a few hundred digits at order 64)
            reals = [F(rng.choice([-3, -2, -1, 1, 2, 3]), 4) for _ in range(n - 2 * npair)]
            pairs = [rng.choice([(F(0), F(1, 2)), (F(1, 2), F(1, 2)), (F(-1, 2), F(1, 4)), (F(1, 4), F(-3, 4)),
                                 (F(-1, 4), F(1, 2))]) for _ in range(npair)]
            if where == "on":
                if rng.random() < .5:
                    reals[0] = rng.choice(ON_REAL)
                else:
                    pairs[0] = rng.choice(ON_PAIR)
            elif where == "out":
                reals[0] = rng.choice(OUT_REAL)
            out.append(case_stable(rng.choice(GAINS), reals, pairs))
    for n in ([32, 64] if quick else [31, 32, 33, 63, 64, 65]):
        ks = [F(0)] * n
        for i in rng.sample(range(n - 1), 4):
            ks[i] = F(rng.choice([-2, -1, 1, 2]), 8)
        ks[-1] = F(rng.choice([-1, 1]), 8)
        r = acorr_from_ks(ks, F(rng.choice([1, 2])))
        out.append(case_lev(r, n))
        if not quick:
            out.append(case_lev(r[:n // 2 + 1], n))          # zero extension up to the order
    return out


def rnd_pair(rng, where):
    while True:
        a, b = F(rng.randint(-30, 30), 20), F(rng.randint(-30, 30), 20)
        m = a * a + b * b
        if b != 0 and ((where == "in" and m < 1) or (where == "out" and m > 1)):
            return (a, b)


# ----------------------------------------------------------------------------------------------
# the real code
# ----------------------------------------------------------------------------------------------
def _drain(gen):
    from audiolazy.lazy_lpc import ParCorError
    out, raised = [], False
    try:
        for k in gen:
            out.append(k)
    except ParCorError:
        raised = True
    return {"ks": encl(out), "raised": raised, "float": any(isinstance(k, float) for k in out)}


def impl(c):
    H.zygote_start()       # the pristine process of the histories is forked before this one uses the library
    if c["entry"] == "hist":
        return H.impl(c)
    if c["entry"] in FL.ENTRIES:
        return FL.impl(c)
    from audiolazy import ZFilter, parcor, parcor_stable, levinson_durbin
    from audiolazy.lazy_lpc import ParCorError
    e = c["entry"]
    try:
        if e == "stepup":
            f = step_up(decl(c["ks"]))
            o = dict(_drain(parcor(ZFilter(f))), filter=encl(f))
            try:
                o["stable"] = bool(parcor_stable(ZFilter([F(1)], f)))
            except Exception as ex:
                o["stable"] = "err:" + err_kind(ex)
            return o
        if e == "parcor":
            return _drain(parcor(ZFilter(decl(c["num"]), decl(c["den"]))))
        if e in ("stable", "stable_den"):
            if e == "stable":
                den = from_poles(dec(c["gain"]), decl(c["reals"]), [tuple(decl(p)) for p in c["pairs"]])
            else:
                den = decl(c["den"])
            filt = ZFilter(decl(c["num"]) if c.get("num") else [F(1)], den)
            res = parcor_stable(filt)
            # what the generator hands to all(): only to know whether floats leaked in
            seen = _drain(parcor(ZFilter(filt.denpoly)))
            return {"stable": bool(res), "den": encl(den), "float": seen["float"]}
        if e == "levinson":
            r = decl(c["r"])
            try:
                filt = levinson_durbin(r, c["order"])
            except ParCorError:
                return {"err": "ParCorError"}
            return {"a": encl(filt.numerator), "error": enc(filt.error), "parcor": _drain(parcor(filt))}
    except Exception as ex:
        return {"err": err_kind(ex)}
    raise ValueError("unknown entry " + e)


def request(c):
    if c["entry"] == "hist":
        return H.request(c)
    if c["entry"] in FL.ENTRIES:
        return FL.request(c)
    return c


# ----------------------------------------------------------------------------------------------
# comparison
# ----------------------------------------------------------------------------------------------
def _same_ks(io, lean, tol):
    return io.get("raised") == lean.get("raised") and close_list(decl(io["ks"]), decl(lean["ks"]), tol)


def _pad_close(xs, ys, tol):
    """coefficient lists up to trailing zeros (Poly keeps no zero coefficient)"""
    n = max(len(xs), len(ys))
    xs = list(xs) + [F(0)] * (n - len(xs))
    ys = list(ys) + [F(0)] * (n - len(ys))
    return close_list(xs, ys, tol)


EPS = F(1, 10**16)
SAFETY = 1000


def _float_err(*ks_lists):
    """Estimated absolute error of a float-contaminated step-down whose exact reflection coefficients
    are known: eps * n * (largest coefficient of the intermediate filters) * prod max(1, 1/|1-|k||),
    times a safety factor (calibrated on the real code: the plain estimate was 30x too small once)."""
    worst = F(0)
    for ks in ks_lists:
        ks = [k for k in ks]
        if not ks:
            continue
        amp, big, a = F(1), F(1), [F(1)]
        for k in reversed(ks):            # yielded last first: rebuild the intermediate filters
            if abs(k) == 1:
                return F(1)
            amp *= max(F(1), 1 / abs(1 - abs(k)))
            ext = a + [F(0)]
            a = [x + k * y for x, y in zip(ext, ext[::-1])]
            big = max(big, max(abs(x) for x in a))
        worst = max(worst, EPS * len(ks) * big * amp * SAFETY)
    return worst


def _critical(ks):
    """some |k| within MARGIN of 1 (a float-contaminated run may fall on either side)"""
    return any(abs(abs(k) - 1) < MARGIN for k in ks)


def compare(c, io, drv):
    e = c["entry"]
    if e == "hist":
        return H.compare(c, io, drv)
    if e in FL.ENTRIES:
        return FL.compare(c, io, drv)
    out = []
    if e in ("stepup", "parcor"):
        m = drv["model"]
        if "err" in io or "err" in m:
            if io.get("err") != m.get("err"):
                out.append(("model", "impl %r model %r" % (io.get("err", "no error"), m.get("err", "no error"))))
            if "err" in io and io["err"] != "ValueError":
                out.append(("spec", "impl raised " + io["err"]))
            return out
        # Floats among the yielded coefficients of an all-Fraction filter are legitimate only through Poly's
        # float zero: a reflection coefficient that is exactly zero is read back as `0.`; without one the
        # coefficients must be exact (`c.get("machine")`: a history step on int / float coefficients)
        if io["float"] and not c.get("machine") and "ks" in drv["spec"] and \
                all(k != 0 for k in decl(drv["spec"]["ks"])) and all(k != 0 for k in decl(io["ks"])):
            io["float"] = False
            io["float_unexplained"] = True
        tol = TOL if io["float"] else 0
        io["compared"] = "tol 1e-9" if io["float"] else "exact"
        if io["float"] and (_critical(decl(drv["spec"]["ks"]) + decl(m["ks"])) or
                            _float_err(decl(drv["spec"]["ks"]), decl(m["ks"])) > TOL / 10):
            io["compared"] = "not compared (float leak, ill conditioned)"
            return out
        if not _same_ks(io, m, tol) and not _same_ks(io, drv["fixed"], tol):
            out.append(("model", "parcor yields %r raised=%s; model %r" % (io["ks"], io["raised"], m)))
        if not _same_ks(io, drv["spec"], tol):
            out.append(("spec", "parcor yields %r raised=%s; spec %r" % (io["ks"], io["raised"], drv["spec"])))
        if e == "stepup":
            if io["filter"] != drv["filter"]:
                out.append(("model", "harness step-up differs from ALV.C11.stepUp"))
            ks = decl(c["ks"])
            if all(k * k != 1 for k in ks):
                # the statement of the property: last first, exactly the reflection coefficients
                if not (io["raised"] is False and close_list(decl(io["ks"]), ks[::-1], tol)):
                    out.append(("spec", "parcor(step-up(ks)) = %r raised=%s, expected reversed ks and no ParCorError "
                                        "(no |k| equals 1)" % (io["ks"], io["raised"])))
            # the sharp form (Props.C11.stepdown_stepup_sharp): up to and including the first critical one
            if drv["sharp"] != drv["spec"]:
                out.append(("model", "Lean cutAtUnit disagrees with parcorSpec (contradicts stepdown_stepup_sharp)"))
            if not _same_ks(io, drv["sharp"], tol):
                out.append(("spec", "parcor(step-up(ks)) = %r raised=%s; sharp expectation %r" % (io["ks"], io["raised"], drv["sharp"])))
            # the verdict on the stepped-up filter (Props.C11.stable_stepUp): True iff every |k| < 1
            if drv["stable_spec"] != drv["all_inside"] or drv["stable_model"] != drv["all_inside"]:
                out.append(("model", "Lean verdict on step-up(ks) is not all(|k|<1) (contradicts stable_stepUp)"))
            if not (io["float"] and _critical(ks)) and io.get("stable") != drv["all_inside"]:
                out.append(("model", "parcor_stable(1/step-up(ks)) = %s, model %s" % (io.get("stable"), drv["stable_model"])))
                out.append(("spec", "parcor_stable(1/step-up(ks)) = %s but all |k| < 1 is %s" % (io.get("stable"), drv["all_inside"])))
        if not io["raised"]:
            # rebuilding by step-up returns the (monic) filter
            reb = step_up(decl(io["ks"])[::-1])
            if not close_list(reb, decl(drv["monic"] if e == "parcor" else drv["filter"]), tol):
                out.append(("spec", "step-up of the yielded coefficients does not rebuild the filter: %s" % (str(encl(reb))[:200],)))
        return out
    if e in ("stable", "stable_den"):
        if "err" in io:
            return [("model", "impl raised " + io["err"]), ("spec", "impl raised " + io["err"])]
        if e == "stable" and io["den"] != drv["den"]:
            out.append(("model", "harness product of the factors differs from ALV.C11.fromPoles"))
        if e == "stable" and drv["spec"] != drv["inside"]:
            out.append(("model", "Lean parcorStableSpec disagrees with the construction (contradicts Props.C11.stable_eq_construction)"))
        io["compared"] = "float, verdict" if io["float"] else "exact"
        if io["float"] and (_critical(decl(drv["ks"]["ks"]) + decl(drv["ks_model"]["ks"])) or
                            _float_err(decl(drv["ks"]["ks"]), decl(drv["ks_model"]["ks"])) > MARGIN / 10):
            io["compared"] = "not compared (float leak, ill conditioned)"
            return out
        if io["stable"] != drv["model"] and io["stable"] != drv["fixed"]:
            out.append(("model", "parcor_stable=%s model=%s" % (io["stable"], drv["model"])))
        want = drv["inside"] if e == "stable" else drv["spec"]
        if io["stable"] != want or io["stable"] != drv["spec"]:
            out.append(("spec", "parcor_stable=%s but all poles inside the unit circle is %s" % (io["stable"], want)))
        return out
    if e == "levinson":
        m = drv["model"]
        if "err" in io or "err" in m:
            if io.get("err") != m.get("err"):
                out.append(("model", "impl %r model %r" % (io.get("err", "no error"), m.get("err", "no error"))))
                out.append(("spec", "levinson_durbin error behaviour"))
            return out
        s = drv["spec"]
        ks = decl(m["ks"])
        io["compared"] = "tol 1e-9"
        if any(abs(1 - k * k) < F(1, 20) for k in ks) or _float_err(ks[::-1]) > TOL / 10:
            io["compared"] = "not compared (float, ill conditioned)"
            return out
        if not _pad_close(decl(io["a"]), decl(m["a"]), TOL) or not close(dec(io["error"]), dec(m["error"]), TOL):
            out.append(("model", "levinson_durbin numerator/error differ from model: %r %r" % (io["a"], io["error"])))
        if not close(dec(io["error"]), dec(s["error"]), TOL):
            out.append(("spec", "error %r is not r0*prod(1-k^2) = %r" % (io["error"], s["error"])))
        if not _pad_close(decl(io["a"]), decl(s["a"]), TOL):
            out.append(("spec", "levinson_durbin numerator is not the step-up of its reflection coefficients"))
        if ks and ks[-1] != 0 and not io["parcor"].get("err"):
            if not (io["parcor"]["raised"] is False and close_list(decl(io["parcor"]["ks"]), ks[::-1], TOL)):
                out.append(("spec", "parcor(levinson_durbin(r)) = %r, expected %r" % (io["parcor"]["ks"], s["expected"])))
        return out
    return [("model", "unknown entry")]


def _order(c):
    e = c["entry"]
    if e == "stepup":
        return len(c["ks"])
    if e == "parcor":
        return max(0, len(c["num"]) - 1)
    if e == "stable":
        return len(c["reals"]) + 2 * len(c["pairs"])
    if e == "stable_den":
        return len(c["den"]) - 1
    return c["order"]


def nontrivial(c, io):
    if c["entry"] == "hist":
        return H.nontrivial(c, io)
    if c["entry"] in FL.ENTRIES:
        return FL.nontrivial(c, io)
    return _order(c) >= 1 and io.get("err") != "ValueError"


def _dist_bucket(d):
    if d == 0:
        return "0 (critical)"
    for e in (15, 12, 9, 7, 5, 3):
        if d <= F(1, 10 ** e):
            return "<=1e-%d" % e
    return ">1e-3"


def tally(eng, c, io):
    e = c["entry"]
    if e == "hist":
        eng.count("entry", e)
        return H.tally(eng, c, io)
    eng.count("entry", e)
    if e in FL.ENTRIES:
        return FL.tally(eng, c, io)
    eng.count("compared:" + e, io.get("compared", "error branch"))
    eng.count("order", min(_order(c), 12))
    if _order(c) >= 30:
        o = _order(c)
        eng.count("order_long", "%s %s" % (e, "30-33" if o <= 33 else "34-62" if o < 63 else "63-65" if o <= 65 else
                                           "66-126" if o < 127 else "127-129"))
    if "err" in io:
        eng.count("impl_error", io["err"])
        return
    if e in ("stepup", "parcor"):
        eng.count("regime", "float-leak" if io["float"] else "exact")
        eng.count("parcor_branch", "ParCorError" if io["raised"] else "completed")
        if e == "parcor":
            num, den = decl(c["num"]), decl(c["den"])
            eng.count("normalisation", "lead==den0==1" if num[0] == den[0] == 1 else
                      "lead==den0" if num[0] == den[0] else "den0==1,lead!=1" if den[0] == 1 else "lead!=den0!=1")
        else:
            ks = decl(c["ks"])
            eng.count("ks_kind", "all|k|<1" if all(abs(k) < 1 for k in ks) else
                      "some|k|=1" if any(abs(k) == 1 for k in ks) else "some|k|>1")
            eng.count("ks_has_zero", any(k == 0 for k in ks))
            eng.count("ks_distance_to_unit", _dist_bucket(min(abs(abs(k) - 1) for k in ks)))
    elif e in ("stable", "stable_den"):
        eng.count("regime", "float-leak" if io["float"] else "exact")
        eng.count("parcor_stable", io["stable"])
        if e == "stable":
            reals, pairs = decl(c["reals"]), [decl(p) for p in c["pairs"]]
            mods = [p * p for p in reals] + [a * a + b * b for a, b in pairs]
            eng.count("pole_set", "on-circle" if any(m == 1 for m in mods) and all(m <= 1 for m in mods) else
                      "all-inside" if all(m < 1 for m in mods) else "some-outside")
            eng.count("gain", "1" if dec(c["gain"]) == 1 else "non-1")
            eng.count("pole_distance_to_circle", _dist_bucket(min(abs(m - 1) for m in mods) / 2))
    elif e == "levinson":
        eng.count("regime", "float (Poly zero 0. always leaks into levinson_durbin)")
        eng.count("levinson_parcor", "ParCorError" if io["parcor"].get("raised") else "completed")
        eng.count("levinson", "order>=len(r)" if c["order"] >= len(c["r"]) else
                  "order=len(r)-1" if c["order"] == len(c["r"]) - 1 else "order<len(r)-1")


# ----------------------------------------------------------------------------------------------
# shrinking, neighbours, classification
# ----------------------------------------------------------------------------------------------
def _simpler(x):
    x = F(x)
    out = []
    for y in (F(0), F(1, 2), F(-1, 2), F(2), F(1), F(round(x)), F(round(2 * x), 2)):
        if y != x and (abs(y.numerator) + y.denominator) < (abs(x.numerator) + x.denominator):
            out.append(y)
    return out


LONG = 12      # above this length a list is shrunk by chunks only (every candidate costs up to seconds)


def _list_variants(xs, keep_last_nonzero=False, minlen=1):
    xs = list(xs)
    n = len(xs)
    if n > LONG:
        seen = []
        for ys in (xs[:n // 2], xs[n // 2:], xs[:-8], xs[8:], xs[:-2], xs[2:], xs[:-1], xs[1:]):
            if len(ys) >= minlen and ys not in seen and (not keep_last_nonzero or (ys and ys[-1] != 0)):
                seen.append(ys)
                yield ys
        plain = [F(1, 2) if x != 0 else x for x in xs]
        if plain != xs:
            yield plain
        return
    for i in range(n):
        if n - 1 >= minlen:
            ys = xs[:i] + xs[i + 1:]
            if not keep_last_nonzero or (ys and ys[-1] != 0):
                yield ys
    for i in range(n):
        for y in _simpler(xs[i]):
            ys = xs[:i] + [y] + xs[i + 1:]
            if not keep_last_nonzero or ys[-1] != 0:
                yield ys


def shrink(c):
    e = c["entry"]
    if e == "hist":
        for s in H.shrink(c):
            yield s
        return
    if e in FL.ENTRIES:
        for s in FL.shrink(c):
            yield s
        return
    if e == "stepup":
        for ks in _list_variants(decl(c["ks"]), keep_last_nonzero=True):
            yield case_stepup(ks)
    elif e == "parcor":
        num, den = decl(c["num"]), decl(c["den"])
        for v in _list_variants(num):
            if v[0] != 0:
                yield case_parcor(v, den)
        if len(den) == 1:
            for y in _simpler(den[0]):
                if y != 0:
                    yield case_parcor(num, [y])
    elif e == "stable":
        g, reals, pairs = dec(c["gain"]), decl(c["reals"]), [tuple(decl(p)) for p in c["pairs"]]
        num = decl(c["num"]) if c.get("num") else None
        if num is not None:
            yield case_stable(g, reals, pairs)
        if len(reals) + len(pairs) > LONG:
            for rs in _list_variants(reals, minlen=0) if len(reals) > LONG else [reals[:len(reals) // 2], reals[1:]]:
                yield case_stable(g, rs, pairs, num)
            for ps in (pairs[:len(pairs) // 2], pairs[len(pairs) // 2:], pairs[1:], pairs[:-1]):
                if len(ps) < len(pairs):
                    yield case_stable(g, reals, ps, num)
            if g != 1:
                yield case_stable(F(1), reals, pairs, num)
            return
        for i in range(len(reals)):
            if len(reals) + len(pairs) > 1:
                yield case_stable(g, reals[:i] + reals[i + 1:], pairs, num)
            for y in _simpler(reals[i]):
                yield case_stable(g, reals[:i] + [y] + reals[i + 1:], pairs, num)
        for i in range(len(pairs)):
            if len(reals) + len(pairs) > 1:
                yield case_stable(g, reals, pairs[:i] + pairs[i + 1:], num)
        for y in _simpler(g):
            if y != 0:
                yield case_stable(y, reals, pairs, num)
    elif e == "stable_den":
        for v in _list_variants(decl(c["den"]), minlen=2):
            if v[0] != 0:
                yield {"entry": "stable_den", "den": encl(v)}
    elif e == "levinson":
        r = decl(c["r"])
        if c["order"] > LONG:
            for o in (c["order"] // 2, c["order"] - 8, c["order"] - 1):
                yield case_lev(r[:o + 1], o)
                yield case_lev(r, o)
            return
        if c["order"] > 1:
            yield case_lev(r, c["order"] - 1)
            yield case_lev(r[:c["order"]], c["order"] - 1)
        for i in range(len(r)):
            for y in _simpler(r[i]):
                yield case_lev(r[:i] + [y] + r[i + 1:], c["order"])


def neighbours(c):
    e = c["entry"]
    if e == "hist":
        for s in H.neighbours(c):
            yield s
        return
    if e in FL.ENTRIES:
        for s in FL.neighbours(c):
            yield s
        return
    for s in shrink(c):
        yield s
    if e == "stepup":
        ks = decl(c["ks"])
        for i in range(len(ks)):
            for d in (F(1, 7), F(-1, 7)):
                v = ks[:i] + [ks[i] + d] + ks[i + 1:]
                if v[-1] != 0:
                    yield case_stepup(v)
        yield case_stepup(ks + [F(1, 3)])
    elif e == "stable":
        g, reals, pairs = dec(c["gain"]), decl(c["reals"]), [tuple(decl(p)) for p in c["pairs"]]
        for g2 in (F(1), F(2), F(-1, 3)):
            yield case_stable(g2, reals, pairs)
        for p in (F(1, 2), F(1), F(3)):
            yield case_stable(g, reals + [p], pairs)
    elif e == "parcor":
        num, den = decl(c["num"]), decl(c["den"])
        if len(den) == 1 and num and num[0] != 0:
            yield case_parcor([x / num[0] for x in num], [F(1)])
            yield case_parcor(num, [num[0]])
            yield case_parcor([3 * x for x in num], den)


def classify(c, io, drv):
    """signature of a disagreement with the spec"""
    e = c["entry"]
    if e == "hist":
        return H.classify(c, io, drv)
    if e in FL.ENTRIES:
        return FL.classify(c, io, drv)
    if "err" in io:
        return "%s:%s" % (e, io["err"])
    if e in ("parcor", "stepup"):
        if e == "parcor":
            num, den = decl(c["num"]), decl(c["den"])
        else:
            num, den = decl(drv["filter"]), [F(1)]
        m = drv["model"]
        if len(den) == 1 and num and num[0] != den[0] and "err" not in m and \
                _same_ks(io, m, TOL if io["float"] else 0):
            return "parcor-leading-coefficient-not-1"
        return "%s:wrong-coefficients" % e
    if e in ("stable", "stable_den"):
        lead = dec(drv["den"][0]) if e == "stable" else dec(c["den"][0])
        if lead != 1 and io["stable"] == drv["model"]:
            return "parcor-leading-coefficient-not-1"
        return "%s:%s-but-poles-%s" % (e, io["stable"], "inside" if drv["spec"] else "not-inside")
    if e == "levinson":
        return "levinson:reflection-or-error"
    return "unclassified"


def regenerate(eng=None):
    """translator T5: lean/ALV/Gen/C11Src.lean from lazy_lpc.parcor / parcor_stable of the repo under test"""
    return TR.regenerate(eng)


def extra_checks(eng):
    for r in FL.extra_checks(eng):
        yield r
    for r in TR.selftest():
        yield r
