"""
Translator T1 (DESIGN.md 3.2): the operator table of audiolazy, read from the SOURCE TEXT with `ast`
(nothing is imported or executed), written as the Lean literal `ALV.Gen.OpTable.table : TableSrc`.

What is read
  lazy_core.py    OpMethod._initialize : the `op_symbols` string (+ the `HAS_MATMUL` append) and the
                                         shape of the loop that feeds `_insert`
                  OpMethod._insert     : the literals of the `rev`, `dname`, `arity`, `func` assignments
                  AbstractOperatorOverloaderMeta : `__operators__`, `__without__`, and in `__new__` the
                                         builder dict `{(rev, arity): mcls.__xxx__}[op.rev, op.arity]`,
                                         the `op.dname not in namespace` guard, the `setattr`
  lazy_stream.py  StreamMeta (must not narrow `__operators__` / `__without__`), the names bound in the
                  body of `class Stream` (a dunder defined there is not templated)

Anything outside the recognised shapes raises `TranslationError` (= broken obligation, DESIGN.md 4).
"""
import ast, os


class TranslationError(Exception):
    pass


def _need(cond, msg):
    if not cond:
        raise TranslationError(msg)


def _find_class(tree, name):
    for n in tree.body:
        if isinstance(n, ast.ClassDef) and n.name == name:
            return n
    raise TranslationError("class %s not found" % name)


def _find_func(cls, name):
    for n in cls.body:
        if isinstance(n, ast.FunctionDef) and n.name == name:
            return n
    raise TranslationError("method %s.%s not found" % (cls.name, name))


def _is_name(n, ident):
    return isinstance(n, ast.Name) and n.id == ident


def _is_attr(n, obj, attr):
    return isinstance(n, ast.Attribute) and n.attr == attr and _is_name(n.value, obj)


def _const_str(n):
    return n.value if isinstance(n, ast.Constant) and isinstance(n.value, str) else None


def _body_wo_doc(fn):
    body = list(fn.body)
    if body and isinstance(body[0], ast.Expr) and _const_str(body[0].value) is not None:
        body = body[1:]
    return body


def _format_call(n, argtest):
    """ `"pre{}post".format(<arg>)`  ->  (pre, post) """
    _need(isinstance(n, ast.Call) and isinstance(n.func, ast.Attribute) and n.func.attr == "format"
          and len(n.args) == 1 and not n.keywords, "expected '...{}...'.format(x): " + ast.dump(n)[:200])
    tpl = _const_str(n.func.value)
    _need(tpl is not None and tpl.count("{}") == 1 and tpl.count("{") == 1 and tpl.count("}") == 1,
          "format template not of the form 'pre{}post'")
    _need(argtest(n.args[0]), "unexpected argument of .format: " + ast.dump(n.args[0])[:200])
    pre, post = tpl.split("{}")
    return pre, post


def parse_initialize(fn):
    """ -> list of (symbol, [names]) """
    body = _body_wo_doc(fn)
    _need(len(body) >= 2, "_initialize: body too short")
    # 1. op_symbols = """...""".strip().splitlines()
    a = body[0]
    _need(isinstance(a, ast.Assign) and len(a.targets) == 1 and _is_name(a.targets[0], "op_symbols"),
          "_initialize: first statement is not `op_symbols = ...`")
    v = a.value
    _need(isinstance(v, ast.Call) and isinstance(v.func, ast.Attribute) and v.func.attr == "splitlines"
          and not v.args and isinstance(v.func.value, ast.Call)
          and isinstance(v.func.value.func, ast.Attribute) and v.func.value.func.attr == "strip"
          and not v.func.value.args and _const_str(v.func.value.func.value) is not None,
          "_initialize: op_symbols is not `<string>.strip().splitlines()`")
    lines = _const_str(v.func.value.func.value).strip().splitlines()
    # 2. optional:  if HAS_MATMUL: op_symbols.append("<line>")      (HAS_MATMUL is true on python >= 3.5)
    rest = body[1:]
    while rest and isinstance(rest[0], ast.If):
        st = rest[0]
        _need(_is_name(st.test, "HAS_MATMUL") and not st.orelse, "_initialize: unknown guard " + ast.dump(st.test)[:100])
        for s in st.body:
            _need(isinstance(s, ast.Expr) and isinstance(s.value, ast.Call)
                  and _is_attr(s.value.func, "op_symbols", "append") and len(s.value.args) == 1
                  and _const_str(s.value.args[0]) is not None, "_initialize: unknown statement under HAS_MATMUL")
            lines.append(_const_str(s.value.args[0]))
        rest = rest[1:]
    # 3. for op_line in op_symbols: symbol, names = op_line.split(None, 1); for name in names.split(): cls._insert(name, symbol)
    _need(len(rest) == 1 and isinstance(rest[0], ast.For), "_initialize: expected the insertion loop")
    want = ast.dump(ast.parse(
        "for op_line in op_symbols:\n"
        "  symbol, names = op_line.split(None, 1)\n"
        "  for name in names.split():\n"
        "    cls._insert(name, symbol)\n").body[0])
    _need(ast.dump(rest[0]) == want, "_initialize: the insertion loop has an unknown shape")
    out = []
    for ln in lines:
        parts = ln.split(None, 1)
        _need(len(parts) == 2, "operator table line without names: %r" % ln)
        out.append((parts[0], parts[1].split()))
    return out


def parse_insert(fn):
    """ literals of the four assignments of `_insert` """
    _need([a.arg for a in fn.args.args] == ["cls", "name", "symbol"], "_insert: unexpected parameters")
    assigns = {}
    for st in fn.body:
        if isinstance(st, ast.Assign) and len(st.targets) == 1 and isinstance(st.targets[0], ast.Attribute) \
                and _is_name(st.targets[0].value, "self"):
            _need(st.targets[0].attr not in assigns, "_insert: self.%s assigned twice" % st.targets[0].attr)
            assigns[st.targets[0].attr] = st.value
    for k in ("name", "symbol", "rev", "dname", "arity", "func"):
        _need(k in assigns, "_insert: no assignment to self." + k)
    _need(_is_name(assigns["name"], "name") and _is_name(assigns["symbol"], "symbol"), "_insert: name/symbol not stored as given")
    res = {}
    # rev = name.startswith("r") and name != "rshift" [and name != ...]
    r = assigns["rev"]
    terms = r.values if isinstance(r, ast.BoolOp) and isinstance(r.op, ast.And) else [r]
    t0 = terms[0]
    _need(isinstance(t0, ast.Call) and _is_attr(t0.func, "name", "startswith") and len(t0.args) == 1
          and _const_str(t0.args[0]) is not None and not t0.keywords, "_insert: rev is not `name.startswith(<str>) and ...`")
    res["revPrefix"] = _const_str(t0.args[0])
    exc = []
    for t in terms[1:]:
        ok = isinstance(t, ast.Compare) and _is_name(t.left, "name") and len(t.ops) == 1
        if ok and isinstance(t.ops[0], ast.NotEq) and _const_str(t.comparators[0]) is not None:
            exc.append(_const_str(t.comparators[0]))
        elif ok and isinstance(t.ops[0], ast.NotIn) and isinstance(t.comparators[0], (ast.List, ast.Tuple)) \
                and all(_const_str(e) is not None for e in t.comparators[0].elts):
            exc.extend(_const_str(e) for e in t.comparators[0].elts)
        else:
            raise TranslationError("_insert: unknown conjunct in rev: " + ast.dump(t)[:200])
    res["revExcept"] = exc
    # dname = "__{}__".format(name)
    res["dnamePre"], res["dnamePost"] = _format_call(assigns["dname"], lambda n: _is_name(n, "name"))
    # arity = 1 if name in [...] else 2
    a = assigns["arity"]
    _need(isinstance(a, ast.IfExp) and isinstance(a.test, ast.Compare) and _is_name(a.test.left, "name")
          and len(a.test.ops) == 1 and isinstance(a.test.ops[0], ast.In)
          and isinstance(a.test.comparators[0], (ast.List, ast.Tuple))
          and all(_const_str(e) is not None for e in a.test.comparators[0].elts)
          and isinstance(a.body, ast.Constant) and type(a.body.value) is int and a.body.value >= 0
          and isinstance(a.orelse, ast.Constant) and type(a.orelse.value) is int and a.orelse.value >= 0,
          "_insert: arity is not `<int> if name in [<strs>] else <int>`")
    res["unaryNames"] = [_const_str(e) for e in a.test.comparators[0].elts]
    res["arityIn"], res["arityElse"] = a.body.value, a.orelse.value
    # func = getattr(operator, "__{}__".format(name[self.rev:]))
    f = assigns["func"]
    _need(isinstance(f, ast.Call) and _is_name(f.func, "getattr") and len(f.args) == 2 and _is_name(f.args[0], "operator"),
          "_insert: func is not `getattr(operator, ...)`")

    def slice_ok(n):
        return (isinstance(n, ast.Subscript) and _is_name(n.value, "name") and isinstance(n.slice, ast.Slice)
                and _is_attr(n.slice.lower, "self", "rev") and n.slice.upper is None and n.slice.step is None)
    res["funcPre"], res["funcPost"] = _format_call(f.args[1], slice_ok)
    return res


def parse_meta(cls):
    """ AbstractOperatorOverloaderMeta: class attributes + the builder dict of __new__ """
    attrs = {}
    for st in cls.body:
        if isinstance(st, ast.Assign) and len(st.targets) == 1 and isinstance(st.targets[0], ast.Name):
            attrs[st.targets[0].id] = st.value
    _need("__operators__" in attrs and _const_str(attrs["__operators__"]) == "all",
          "AbstractOperatorOverloaderMeta.__operators__ is not \"all\"")
    _need("__without__" in attrs and isinstance(attrs["__without__"], ast.Constant) and attrs["__without__"].value is None,
          "AbstractOperatorOverloaderMeta.__without__ is not None")
    new = _find_func(cls, "__new__")
    loops = [n for n in new.body if isinstance(n, ast.For)]
    _need(len(loops) == 1, "__new__: expected exactly one loop")
    loop = loops[0]
    want_iter = ast.dump(ast.parse("OpMethod.get(mcls.__operators__, without=mcls.__without__)").body[0].value)
    _need(_is_name(loop.target, "op") and ast.dump(loop.iter) == want_iter, "__new__: loop is not over OpMethod.get(...)")
    first = loop.body[0]
    want_test = ast.dump(ast.parse("op.dname not in namespace").body[0].value)
    _need(isinstance(first, ast.If) and ast.dump(first.test) == want_test, "__new__: guard `op.dname not in namespace` not found")
    disp = None
    seen_setattr = False
    for st in first.body:
        if isinstance(st, ast.Assign) and len(st.targets) == 1 and _is_name(st.targets[0], "dunder"):
            v = st.value
            _need(isinstance(v, ast.Call) and [ast.dump(a) for a in v.args] ==
                  [ast.dump(ast.Name("cls", ast.Load())), ast.dump(ast.Name("op", ast.Load()))] and not v.keywords,
                  "__new__: builder not called as builder(cls, op)")
            sub = v.func
            _need(isinstance(sub, ast.Subscript) and isinstance(sub.value, ast.Dict), "__new__: builder is not chosen by a dict")
            idx = sub.slice
            _need(isinstance(idx, ast.Tuple) and len(idx.elts) == 2 and _is_attr(idx.elts[0], "op", "rev")
                  and _is_attr(idx.elts[1], "op", "arity"), "__new__: builder dict not indexed by (op.rev, op.arity)")
            disp = []
            for k, val in zip(sub.value.keys, sub.value.values):
                _need(isinstance(k, ast.Tuple) and len(k.elts) == 2 and isinstance(k.elts[0], ast.Constant)
                      and type(k.elts[0].value) is bool and isinstance(k.elts[1], ast.Constant)
                      and type(k.elts[1].value) is int and k.elts[1].value >= 0
                      and isinstance(val, ast.Attribute) and _is_name(val.value, "mcls"), "__new__: unknown builder dict entry")
                disp.append(((k.elts[0].value, k.elts[1].value), val.attr))
        if isinstance(st, ast.Expr) and isinstance(st.value, ast.Call) and _is_name(st.value.func, "setattr"):
            want = ast.dump(ast.parse("setattr(cls, dunder.__name__, dunder)").body[0].value)
            _need(ast.dump(st.value) == want, "__new__: unknown setattr")
            seen_setattr = True
        if isinstance(st, ast.Assign) and len(st.targets) == 1 and isinstance(st.targets[0], ast.Attribute) \
                and st.targets[0].attr == "__name__":
            _need(_is_name(st.targets[0].value, "dunder") and _is_attr(st.value, "op", "dname"), "__new__: dunder.__name__ is not op.dname")
    _need(disp is not None and seen_setattr, "__new__: builder dict / setattr not found")
    return disp


def parse_stream_module(tree):
    meta = _find_class(tree, "StreamMeta")
    _need(len(meta.bases) == 1 and _is_name(meta.bases[0], "AbstractOperatorOverloaderMeta"), "StreamMeta: unexpected bases")
    names = []
    for st in meta.body:
        if isinstance(st, ast.Assign):
            for t in st.targets:
                if isinstance(t, ast.Name):
                    _need(t.id not in ("__operators__", "__without__"), "StreamMeta narrows " + t.id + " (not supported by T1)")
        if isinstance(st, ast.FunctionDef):
            names.append(st.name)
    for b in ("__binary__", "__rbinary__", "__unary__"):
        _need(b in names, "StreamMeta does not define " + b)
    cls = _find_class(tree, "Stream")
    ns = []
    for st in cls.body:
        if isinstance(st, (ast.FunctionDef, ast.ClassDef)):
            ns.append(st.name)
        elif isinstance(st, ast.Assign):
            for t in st.targets:
                for n in ast.walk(t):
                    if isinstance(n, ast.Name):
                        ns.append(n.id)
        elif isinstance(st, ast.AnnAssign) and isinstance(st.target, ast.Name):
            ns.append(st.target.id)
        elif isinstance(st, ast.Expr) and _const_str(st.value) is not None:
            pass  # docstring
        else:
            raise TranslationError("class Stream: statement of unknown kind in the body: " + type(st).__name__)
    return sorted(set(ns))


def extract(repo):
    core = ast.parse(open(os.path.join(repo, "audiolazy", "lazy_core.py")).read())
    stream = ast.parse(open(os.path.join(repo, "audiolazy", "lazy_stream.py")).read())
    opm = _find_class(core, "OpMethod")
    # `OpMethod._initialize()` must be called once at module level, right after the class
    calls = [n for n in core.body if isinstance(n, ast.Expr) and isinstance(n.value, ast.Call)
             and _is_attr(n.value.func, "OpMethod", "_initialize")]
    _need(len(calls) == 1, "module does not call OpMethod._initialize() exactly once")
    t = {"opLines": parse_initialize(_find_func(opm, "_initialize"))}
    t.update(parse_insert(_find_func(opm, "_insert")))
    t["dispatch"] = parse_meta(_find_class(core, "AbstractOperatorOverloaderMeta"))
    t["classNamespace"] = parse_stream_module(stream)
    return t


# ----------------------------------------------------------------------------------------------
# Lean emission
# ----------------------------------------------------------------------------------------------
def lean_name(s):
    """ Python str -> Lean `List Char` literal """
    if s and all((c.isalnum() or c in "_+-*/%<>=!~&|^@.") and ord(c) < 128 for c in s):
        return 'n!"%s"' % s
    _need(all(32 <= ord(c) < 127 for c in s), "non-ASCII name in the table: %r" % s)
    return "[" + ", ".join("Char.ofNat %d" % ord(c) for c in s) + "]"


def lean_names(xs):
    return "[" + ", ".join(lean_name(x) for x in xs) + "]"


HEADER = """/-
  GENERATED by harness/props/c01_t1.py (translator T1) from
    audiolazy/lazy_core.py  (OpMethod._initialize, OpMethod._insert, AbstractOperatorOverloaderMeta)
    audiolazy/lazy_stream.py (StreamMeta, names bound in class Stream)
  Rewritten on every run of ./check C01 — do not edit.
-/
import ALV.Model.C01
namespace ALV.Gen.OpTable
open ALV.C01

"""


def emit(t):
    o = [HEADER, "def table : TableSrc where\n"]
    o.append("  opLines := [\n")
    o.append(",\n".join("    (%s, %s)" % (lean_name(sym), lean_names(names)) for sym, names in t["opLines"]))
    o.append("]\n")
    o.append("  revPrefix := %s\n" % lean_name(t["revPrefix"]))
    o.append("  revExcept := %s\n" % lean_names(t["revExcept"]))
    o.append("  unaryNames := %s\n" % lean_names(t["unaryNames"]))
    o.append("  arityIn := %d\n  arityElse := %d\n" % (t["arityIn"], t["arityElse"]))
    for k in ("dnamePre", "dnamePost", "funcPre", "funcPost"):
        o.append("  %s := %s\n" % (k, lean_name(t[k])))
    o.append("  dispatch := [" + ", ".join("((%s, %d), %s)" % ("true" if r else "false", a, lean_name(b))
                                           for (r, a), b in t["dispatch"]) + "]\n")
    o.append("  classNamespace := [\n    " + ",\n    ".join(lean_name(x) for x in t["classNamespace"]) + "]\n")
    o.append("\nend ALV.Gen.OpTable\n")
    return "".join(o)


STUB = HEADER + """-- translation failed and no earlier table was available: empty table (every obligation about it fails)
def table : TableSrc where
  opLines := []
  revPrefix := []
  revExcept := []
  unaryNames := []
  arityIn := 0
  arityElse := 0
  dnamePre := []
  dnamePost := []
  funcPre := []
  funcPost := []
  dispatch := []
  classNamespace := []

end ALV.Gen.OpTable
"""


def regenerate(repo, lean_dir):
    """ rewrite lean/ALV/Gen/OpTable.lean; on failure keep a compilable file in place and raise """
    path = os.path.join(lean_dir, "ALV", "Gen", "OpTable.lean")
    os.makedirs(os.path.dirname(path), exist_ok=True)
    try:
        t = extract(repo)
        text = emit(t)
    except Exception:
        if not os.path.exists(path):
            with open(path, "w") as f:
                f.write(STUB)
        raise
    old = open(path).read() if os.path.exists(path) else None
    if old != text:        # keep the mtime when nothing changed (lake would rebuild anyway only on content hash)
        with open(path, "w") as f:
            f.write(text)
    return {"file": "lean/ALV/Gen/OpTable.lean", "lines": len(t["opLines"]),
            "names": sum(len(n) for _s, n in t["opLines"]), "changed": old != text}
