"""C19 helper module — pools of generators (entry "multi").

Several generator calls of the ordinary entries are made first and consumed afterwards in
interleaved chunks (several generators alive at once), sharing argument objects: one python
list / tuple / deque / iterable object given to several calls, one `thub` read by several calls,
the same call repeated with numerically equal arguments of other numeric types.  Every call is
compared with the Lean model / spec of that call TAKEN ALONE on pristine values (the Lean
functions are pure: independence from other calls holds for the model by construction); shared
containers must still hold their pristine items at the end.
"""
import copy, json
from fractions import Fraction
from common import enc, dec
from props import c19 as B

F = Fraction
SUB_ENTRIES = ("modulo_counter", "modulo_counter", "table_call", "sinusoid", "line", "adsr", "ones",
               "white_noise", "karplus", "resample")
CONTAINERS = ("list", "tuple", "deque", "iterable")


def stream_args(c):
    """(field, descriptor) of the stream arguments of a sub-case that mc_build builds"""
    e = c["entry"]
    fields = {"modulo_counter": B.MC_ARGS, "attack": ("s",), "table_call": ("freq", "phase"),
              "sinusoid": ("freq", "phase")}.get(e, ())
    return [(f, c[f]) for f in fields if isinstance(c.get(f), dict) and "strm" in c[f]]


def dyadic_items(a):
    return all(B.is_dyadic(dec(x), 20) for x in a["strm"])


def retype(rng, c):
    """the same call with numerically equal arguments of other numeric types (dyadic values only)"""
    d = copy.deepcopy(c)
    changed = False

    def other(t, q):
        opts = [x for x in ("i", "f", "F", "I", "X", "b") if B.fit_type(x, q) == x and x != t]
        return rng.choice(opts) if opts else t

    if d["entry"] == "modulo_counter" and not any(k in d for k in ("alias", "late", "raises")):
        allq = []
        for k in B.MC_ARGS:
            a = d[k]
            allq += [dec(a["num"])] if "num" in a else [dec(x) for x in a["strm"]]
        if not all(B.is_dyadic(q, 20) for q in allq):
            return None
        for k in B.MC_ARGS:
            a = d[k]
            if "num" in a:
                a["t"] = other(a["t"], dec(a["num"]))
            else:
                a["ts"] = [other(t, dec(x)) for t, x in zip(a["ts"], a["strm"])]
            changed = True
    elif d["entry"] in ("line", "adsr"):
        if not (B.line_exact(d) if d["entry"] == "line" else B.adsr_exact(d)):
            return None
        for k in ("dur", "begin", "end", "a", "d", "s", "r"):
            if k in d and isinstance(d[k], dict) and "v" in d[k]:
                d[k]["t"] = other(d[k]["t"], dec(d[k]["v"]))
                changed = True
    return d if changed else None


def mc_dyadic(c):
    for k in B.MC_ARGS:
        a = c[k]
        if not all(B.is_dyadic(dec(x), 20) for x in ([a["num"]] if "num" in a else a["strm"])):
            return False
    return True


def generate(rng, tier, scale, base):
    """`base`: the single-call cases of this run (the pool the calls are drawn from)"""
    n = (150 if tier == "quick" else 2000) * scale
    pool = {}
    for c in base:
        if "pick" not in c and c["entry"] != "table_getitem" and "co" in B.ENTRIES.get(c["entry"], {}):
            pool.setdefault(B.GEN_OF.get(c["entry"], c["entry"]), []).append(c)
    cases = []
    streamful = [c for e in ("modulo_counter", "adsr", "table_call", "sinusoid") for c in pool.get(e, [])
                 if stream_args(c) and not any(k in c for k in ("alias", "late", "raises"))]
    donors_pool = [c for c in streamful if c["entry"] in ("modulo_counter", "attack")
                   and any(dyadic_items(a) and a["strm"] for _, a in stream_args(c))]
    for _ in range(n):
        subs = []
        want = rng.choice([2, 2, 3, 4])
        if rng.random() < 0.7 and donors_pool:
            subs.append(copy.deepcopy(rng.choice(donors_pool)))
            subs.append(copy.deepcopy(rng.choice(streamful)))
        for _ in range(want - len(subs)):
            c = copy.deepcopy(rng.choice(pool[rng.choice(SUB_ENTRIES)]))
            if c["entry"] == "modulo_counter":
                for k in ("alias", "late", "raises"):           # single-call flavours stay single
                    if k in c:
                        c = None
                        break
                if c is None:
                    continue
            subs.append(c)
        if len(subs) < 2:
            continue
        # a sibling: another call that takes the same path of the same function
        if rng.random() < 0.4:
            a = rng.choice(subs)
            same = [c for c in pool.get(B.GEN_OF.get(a["entry"], a["entry"]), [])
                    if c["entry"] == a["entry"] and not any(k in c for k in ("alias", "late", "raises"))
                    and (a["entry"] != "modulo_counter" or B.mc_branch(c) == B.mc_branch(a))]
            if same:
                subs.append(copy.deepcopy(rng.choice(same)))
        # the same call again with arguments of other numeric types
        rng.shuffle(subs)
        if rng.random() < 0.5:
            r = retype(rng, rng.choice(subs))
            if r is not None:
                subs.insert(rng.randrange(len(subs) + 1), r)
        # one argument object for several calls
        shared = 0
        donors = [(i, f, a) for i, c in enumerate(subs) for f, a in stream_args(c)
                  if dyadic_items(a) and a["strm"] and c["entry"] in ("modulo_counter", "attack")]
        if donors and rng.random() < 0.8:
            i, f, a = rng.choice(donors)
            users = [(i, f)]
            for j, c in enumerate(subs):
                for g, b in stream_args(c):
                    if (j, g) == (i, f) or rng.random() < 0.5:
                        continue
                    if g == "modulo" and any(dec(x) == 0 for x in a["strm"]):
                        continue
                    if c["entry"] == "modulo_counter" and not mc_dyadic(c):
                        continue                        # Fraction regime: no floats may come in
                    users.append((j, g))
            if len(users) > 1:
                need_mul = any(subs[j]["entry"] in ("table_call", "sinusoid") for j, _ in users)
                kind = "thub" if need_mul or rng.random() < 0.3 else rng.choice(CONTAINERS)
                key = "s%d" % shared
                desc = dict(a, kind=kind, share=key, users=len(users))
                for j, g in users:
                    subs[j][g] = dict(desc)
                    if subs[j]["entry"] in ("table_call", "sinusoid"):
                        subs[j]["default_phase"] = False
                shared += 1
        # the schedule: which generator yields its next chunk
        sched = [[rng.randrange(len(subs)), rng.choice([1, 1, 2, 3, 5, 8])] for _ in range(rng.randint(4, 16))]
        cases.append({"entry": "multi", "subs": subs, "sched": sched, "create": rng.choice(["first", "lazy"])})
    # twins: two different calls taking the same path of the same function, alive at once and
    # consumed alternately (state kept outside the generator's own frame would be shared)
    groups = {}
    for e, cs in sorted(pool.items()):
        for c in cs:
            if any(k in c for k in ("alias", "late", "raises")):
                continue
            key = c["entry"] + (":" + B.mc_branch(c) if c["entry"] == "modulo_counter" else "")
            groups.setdefault(key, []).append(c)
    for key, cs in sorted(groups.items()):
        for _ in range((1 if tier == "quick" else 4) * scale):
            if len(cs) >= 2:
                a, b = rng.sample(cs, 2)
                sched = [[j % 2, rng.choice([1, 1, 2])] for j in range(rng.randint(6, 14))]
                cases.append({"entry": "multi", "subs": [copy.deepcopy(a), copy.deepcopy(b)], "sched": sched,
                              "create": rng.choice(["first", "lazy"]), "twins": key})
    return cases


# ----------------------------------------------------------------------------------------------
def impl(c):
    B._SHARE = {}
    try:
        subs = c["subs"]
        cos = [B.co_impl(s) for s in subs]
        state = ["new"] * len(subs)          # new | open | done
        res = [None] * len(subs)

        def advance(i, k):
            try:
                cos[i].send(None if state[i] == "new" else k)
                state[i] = "open"
            except StopIteration as e:
                res[i] = e.value
                state[i] = "done"

        if c.get("create") == "first":
            for i in range(len(subs)):
                advance(i, None)             # the call is made, nothing is consumed yet
        for i, k in c["sched"]:
            if state[i] == "new":
                advance(i, None)
            if state[i] == "open":
                advance(i, k)
        for i in range(len(subs)):
            while state[i] != "done":
                advance(i, None)
        changed = []
        for key, (obj, pristine, kind) in sorted(B._SHARE.items()):
            if kind in CONTAINERS:
                now = list(obj)
                if len(now) != len(pristine) or any(type(x) is not type(y) or x != y for x, y in zip(now, pristine)):
                    changed.append(key)
        return {"subs": res, "changed": changed, "out": [r for r in res if r and r.get("out")]}
    finally:
        B._SHARE = None


def request(c):
    return {"entry": "multi", "reqs": [dict(B.request(s), entry=B.request(s).get("entry", s["entry"])) for s in c["subs"]]}


def sub_problems(c, io, drv):
    """[(sub index, kind, detail)]"""
    out = []
    for i, (s, o, d) in enumerate(zip(c["subs"], io["subs"], drv["res"])):
        for kind, detail in B.compare(s, o, d):
            out.append((i, kind, detail))
    return out


def compare(c, io, drv):
    res = [(kind, "call %d of %d alive at once (%s): %s" % (i, len(c["subs"]), c["subs"][i]["entry"], detail))
           for i, kind, detail in sub_problems(c, io, drv)]
    if io["changed"]:
        res.append(("model", "shared argument object(s) %s changed by the calls" % io["changed"]))
        res.append(("spec", "shared argument object(s) %s changed by the calls" % io["changed"]))
    return res


def classify(c, io, drv):
    ps = sub_problems(c, io, drv)
    if not ps:
        return "multi:shared-argument-changed" if io["changed"] else "multi:none"
    i = ps[0][0]
    return B.classify(c["subs"][i], io["subs"][i], drv["res"][i])


def nontrivial(c, io):
    return sum(1 for r in io["subs"] if r and r.get("out")) >= 2


def tally(eng, c, io):
    eng.count("multi_calls", len(c["subs"]))
    eng.count("multi_created", c.get("create"))
    if c.get("twins"):
        eng.count("multi_twins", c["twins"])
    for s in c["subs"]:
        eng.count("multi_entry", s["entry"])
    keys = {}
    for s in c["subs"]:
        for f, a in stream_args(s):
            if "share" in a:
                keys.setdefault(a["share"], []).append((s["entry"], f, a["kind"]))
    for k, us in keys.items():
        eng.count("multi_shared_object", "%s x%d" % (us[0][2], len(us)))
        eng.count("multi_shared_roles", "+".join(sorted({"%s.%s" % (e[:6], f) for e, f, _ in us})))
    if not keys:
        eng.count("multi_shared_object", "none")
    js = [json.dumps({k: v for k, v in B.request(s).items()}, sort_keys=True) for s in c["subs"]]
    eng.count("multi_equal_calls_other_types", len(js) - len(set(js)))
    alive = len({i for i, _ in c["sched"]})
    eng.count("multi_interleaved", alive)


def shrink(c):
    subs = c["subs"]
    if len(subs) == 1:
        s = copy.deepcopy(subs[0])
        for f, a in stream_args(s):
            a.pop("share", None)
            a.pop("users", None)
            if a.get("kind") == "thub":
                a["kind"] = "Stream"
        yield s
        return
    for i in range(len(subs)):
        rest = subs[:i] + subs[i + 1:]
        sched = [[j - (j > i), k] for j, k in c["sched"] if j != i]
        yield dict(c, subs=rest, sched=sched)
    if c["sched"]:
        yield dict(c, sched=[])
        yield dict(c, sched=c["sched"][:-1])
    if c.get("create") != "first":
        yield dict(c, create="first")
    # un-share
    if any("share" in a for s in subs for _, a in stream_args(s)):
        d = copy.deepcopy(c)
        for s in d["subs"]:
            for f, a in stream_args(s):
                if "share" in a:
                    a.pop("share")
                    a.pop("users", None)
                    if a["kind"] == "thub":
                        a["kind"] = "Stream"
        yield d
    for i, s in enumerate(subs):
        f = B.ENTRIES[s["entry"]].get("shrink")
        if f:
            for k, t in enumerate(f(s)):
                if k > 40:
                    break
                yield dict(c, subs=subs[:i] + [t] + subs[i + 1:])
