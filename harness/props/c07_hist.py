"""C07 — histories of mutable Poly objects (entry "hist"): generation, the real code, comparison, shrinking.

A case is

    {"entry": "hist", "objs": [leaf, …], "srcs": [{"kind": "list"|"dict"|"odict", "items": [[k, lit], …]}, …],
     "ops": [step, …]}

Variables are named by id: id i < len(objs) is the i-th initial object, id len(objs)+t the object returned by step t
(unbound when that step returned no object, e.g. because it raised; a step that names an unbound variable is skipped on
both sides).  A literal is a plain exact number (`common.enc`: a Fraction in the real code) or {"t": flavour, "v": number}
with flavour "i" int, "b" bool, "f" float, "c" complex (imaginary part 0), "F" Fraction: the Lean side always gets the
number, the real code gets the number in that Python type.  Steps:

    ["new", "dict"|"list"|"const", data]      Poly(OrderedDict(pairs) | list | number, zero=Fraction(0))
    ["from", s]  ["src_set", s, k, lit]       Poly(srcs[s], zero=…) / the caller changes his own container afterwards
    ["un", "neg"|"pos"|"copy"|"ctor", i]      -p, +p, p.copy(), Poly(p)
    ["bin", "add"|"sub"|"mul", i, j]   ["scal", "adds"|"radds"|"subs"|"rsubs"|"muls"|"rmuls", i, lit]
    ["divs", i, lit]  ["div", i, j]  ["pow", i, nlit]  ["comp", i, j]  ["call", i, lit, horner]
    ["diff", i, n]  ["integ", i]  ["setitem", i, klit, lit]  ["setzero", i, lit]  ["hash", i]
    ["eq", i, j]  ["ne", i, j]  ["eqs", i, lit]
    ["lagf", pairs, ks, container]  ["lagp", pairs, ks, container]   lagrange.func / lagrange.poly
    ["resample", sig, old, new, order, zero]                          resample's use of lagrange (one interpolator/sample)

Each step is compared with the Lean model of that step on the CURRENT contents of its operands (`Model/C07Hist.lean`,
`act`), with the specification (`Spec/C07.lean` on the canonical forms of the current contents), and — model free — with
the same operation of the real code on PRISTINE copies of the operands' current contents; after each step the contents
of every variable are read again: only the target of `p[k] = c` / `p.zero = z` may have changed, a result must be a new
object, the caller's containers must be as the caller left them, and a step whose inputs are all exact (int / bool /
Fraction, no int/int division) must stay exact.
"""
import json
from fractions import Fraction as F
from collections import OrderedDict, deque

import common
from common import enc, dec, err_kind

Z = F(0)
TOL = 1e-9
PRUNE = 1e-12

REFS = {"un": (2,), "bin": (2, 3), "scal": (2,), "divs": (1,), "div": (1, 2), "pow": (1,), "comp": (1, 2), "call": (1,),
        "diff": (1,), "integ": (1,), "setitem": (1,), "setzero": (1,), "hash": (1,), "eq": (1, 2), "ne": (1, 2), "eqs": (1,)}
PRODUCES = ("new", "from", "un", "bin", "scal", "divs", "div", "pow", "comp", "diff", "integ")
MUTATES = ("setitem", "setzero")
LAG = ("lagf", "lagp", "resample")
CONTAINERS = ("list_tuples", "list_lists", "tuple_tuples", "gen", "zip", "dictitems", "iter_lists", "enum_deque")


# ----------------------------------------------------------------------------------------------------------------
# literals
# ----------------------------------------------------------------------------------------------------------------
def lit(j):
    """literal -> the Python number the real code gets"""
    if isinstance(j, dict):
        v, t = dec(j["v"]), j["t"]
        if t == "i":
            return int(v)
        if t == "b":
            return bool(v)
        if t == "f":
            return float(v)
        if t == "c":
            return complex(float(v), 0.0)
        return v
    return dec(j)


def nom(j):
    """literal -> the number the Lean side gets"""
    return j["v"] if isinstance(j, dict) else j


def flav(j):
    return j["t"] if isinstance(j, dict) else "F"


def lit_exact(j):
    return flav(j) not in ("f", "c")


def lit_int(j):
    return flav(j) in ("i", "b")


def mklit(v, t):
    """a literal of value v (Fraction) in flavour t, falling back to Fraction when v has no such form"""
    v = F(v)
    if t == "i" and v.denominator == 1:
        return {"t": "i", "v": enc(v)}
    if t == "b" and v in (0, 1):
        return {"t": "b", "v": enc(v)}
    if t in ("f", "c"):
        return {"t": t, "v": enc(v)}
    return enc(v)


def lits_of(op):
    """the literals of a step (for flavour bookkeeping)"""
    k = op[0]
    if k == "new":
        if op[1] == "dict":
            return [c for _, c in op[2]]
        if op[1] == "list":
            return list(op[2])
        return [op[2]]
    if k in ("scal", "eqs"):
        return [op[3]] if k == "scal" else [op[2]]
    if k == "divs":
        return [op[2]]
    if k == "pow":
        return [op[2]]
    if k == "call":
        return [op[2]]
    if k == "setitem":
        return [op[3]]                      # the key's flavour (2.0 for 2, True for 1) does not touch the coefficients
    if k == "setzero":
        return [op[2]]
    if k == "src_set":
        return [op[3]]
    if k in ("lagf", "lagp"):
        return [v for pr in op[1] for v in pr] + list(op[2])
    if k == "resample":
        return list(op[1]) + [op[2], op[3], op[5]]
    return []


# ----------------------------------------------------------------------------------------------------------------
# request for the Lean driver: nominal numbers, resample unfolded into its interpolator calls
# ----------------------------------------------------------------------------------------------------------------
def _leaf_nom(t):
    if t[0] == "dict":
        return ["dict", [[nom(k), nom(c)] for k, c in t[1]]]
    if t[0] == "list":
        return ["list", [nom(c) for c in t[1]]]
    if t[0] == "const":
        return ["const", nom(t[1])]
    return [t[0]]


def src_pairs(s):
    """a caller's container as the association list the model works on"""
    if s["kind"] == "list":
        return [[i, nom(c)] for i, c in enumerate(s["items"])]
    return [[nom(k), nom(c)] for k, c in s["items"]]


def resample_queries(op):
    """the interpolator calls `lagrange(enumerate(data))(idx)` that `resample(sig, old, new, order, zero)` makes on
    a finite input (lazy_poly.py:582-609; the window bookkeeping itself is property C19's).  `step` and `idx` are
    computed in the number types the real call gets (a float step moves the window where ITS rounded sums say)."""
    sig = [dec(nom(v)) for v in op[1]]
    order, zero = op[4], dec(nom(op[5]))
    thr = .5 * (order + 1)
    ntake = order // 2 + 1                             # rint(threshold): halves round away from zero
    step = lit(op[2]) / lit(op[3])
    data = deque([zero] * (order + 1), maxlen=order + 1)
    first = sig[:ntake]
    if len(first) < ntake:
        return []
    data.extend(first)
    rest = sig[ntake:]
    idx = int(thr)
    out = []
    pos = 0
    while True:
        out.append([[[i, enc(v)] for i, v in enumerate(data)], enc(idx)])
        idx += step
        stop = False
        while idx > thr:
            if pos >= len(rest):
                stop = True
                break
            data.append(rest[pos])
            pos += 1
            idx -= 1
        if stop or len(out) > 400:
            break
    return out


def op_nom(op):
    k = op[0]
    if k == "new":
        return ["new"] + _leaf_nom([op[1], op[2]])
    if k == "src_set":
        return ["src_set", op[1], nom(op[2]), nom(op[3])]
    if k == "scal":
        return ["scal", op[1], op[2], nom(op[3])]
    if k in ("divs", "eqs"):
        return [k, op[1], nom(op[2])]
    if k == "pow":
        return ["pow", op[1], nom(op[2]), flav(op[2]) == "f"]
    if k == "call":
        return ["call", op[1], nom(op[2]), op[3]]
    if k == "setitem":
        return ["setitem", op[1], nom(op[2]), nom(op[3])]
    if k == "setzero":
        return ["setzero", op[1]]
    if k in ("lagf", "lagp"):
        if len(op) > 3 and op[3] == "enum_deque":         # abscissae 0, 1, …
            return [k, [[i, nom(b)] for i, (_, b) in enumerate(op[1])], [nom(v) for v in op[2]]]
        return [k, [[nom(a), nom(b)] for a, b in op[1]], [nom(v) for v in op[2]]]
    if k == "resample":
        return ["lagseq", resample_queries(op)]
    return list(op)


def request(c):
    return {"entry": "hist", "objs": [_leaf_nom(t) for t in c["objs"]],
            "srcs": [src_pairs(s) for s in c.get("srcs", [])], "ops": [op_nom(o) for o in c["ops"]]}


# ----------------------------------------------------------------------------------------------------------------
# the real code
# ----------------------------------------------------------------------------------------------------------------
def encx(x):
    """a number of the real code -> JSON (complex as {"re","im"}, anything else as a tagged repr)"""
    if isinstance(x, complex):
        return {"re": encx(x.real), "im": encx(x.imag)}
    try:
        return enc(x)
    except TypeError:
        return {"other": type(x).__name__ + ":" + repr(x)[:60]}


def is_exact(x):
    return isinstance(x, (int, F))


def _terms(p):
    return [[encx(k), encx(v)] for k, v in sorted(p.terms(sort=False), key=lambda kv: kv[0])]


def poly_exact(p):
    return all(is_exact(v) for _, v in p.terms(sort=False)) and is_exact(p.zero)


def has_int(p):
    return any(isinstance(v, int) for _, v in p.terms(sort=False))


def _key(j):
    """a power: a plain int, or the flavours 2.0 / True of it"""
    return lit(j) if isinstance(j, dict) else int(dec(j))


def build_leaf(t):
    from audiolazy import Poly
    if t[0] == "dict":
        return Poly(OrderedDict((_key(k), lit(c)) for k, c in t[1]), zero=Z)
    if t[0] == "list":
        return Poly([lit(c) for c in t[1]], zero=Z)
    if t[0] == "const":
        return Poly(lit(t[1]), zero=Z)
    if t[0] == "empty":
        return Poly(zero=Z)
    if t[0] == "x":
        return Poly({1: 1}, zero=Z)
    raise ValueError("bad leaf %r" % (t,))


def build_src(s):
    if s["kind"] == "list":
        return [lit(c) for c in s["items"]]
    d = OrderedDict((_key(k), lit(c)) for k, c in s["items"])
    return d if s["kind"] == "odict" else dict(d)


def src_state(obj):
    if isinstance(obj, list):
        return [[i, encx(v)] for i, v in enumerate(obj)]
    return [[encx(k), encx(v)] for k, v in obj.items()]


def pairs_container(pairs, kind):
    """the point set in the container flavour `kind`"""
    pts = [(lit(a), lit(b)) for a, b in pairs]
    if kind == "list_lists":
        return [list(p) for p in pts]
    if kind == "tuple_tuples":
        return tuple(pts)
    if kind == "gen":
        return (p for p in pts)
    if kind == "zip":
        return zip([a for a, _ in pts], [b for _, b in pts])
    if kind == "dictitems":
        return OrderedDict(pts).items()
    if kind == "iter_lists":
        return iter([iter(p) for p in pts])
    if kind == "enum_deque":
        return enumerate(deque(b for _, b in pts))        # abscissae 0, 1, …: what `resample` passes
    return pts


def apply_op(op, get, srcs):
    """run one step on the objects `get(id)`; returns (kind, value)"""
    from audiolazy import Poly
    k = op[0]
    if k == "new":
        return "obj", build_leaf([op[1], op[2]])
    if k == "from":
        return "obj", Poly(srcs[op[1]], zero=Z)
    if k == "src_set":
        srcs[op[1]][_key(op[2])] = lit(op[3])
        return "none", None
    if k == "un":
        p = get(op[2])
        u = op[1]
        return "obj", (-p if u == "neg" else +p if u == "pos" else p.copy() if u == "copy" else Poly(p))
    if k == "bin":
        p, q = get(op[2]), get(op[3])
        return "obj", (p + q if op[1] == "add" else p - q if op[1] == "sub" else p * q)
    if k == "scal":
        p, cv = get(op[2]), lit(op[3])
        o = op[1]
        return "obj", (p + cv if o == "adds" else cv + p if o == "radds" else p - cv if o == "subs" else
                       cv - p if o == "rsubs" else p * cv if o == "muls" else cv * p)
    if k == "divs":
        return "obj", get(op[1]) / lit(op[2])
    if k == "div":
        return "obj", get(op[1]) / get(op[2])
    if k == "pow":
        return "obj", get(op[1]) ** _key(op[2])
    if k == "comp":
        return "obj", get(op[1])(get(op[2]))
    if k == "call":
        return "num", get(op[1])(lit(op[2]), horner=op[3])
    if k == "diff":
        return "obj", get(op[1]).diff(op[2])
    if k == "integ":
        return "obj", get(op[1]).integrate()
    if k == "setitem":
        get(op[1])[_key(op[2])] = lit(op[3])
        return "none", None
    if k == "setzero":
        get(op[1]).zero = lit(op[2])
        return "none", None
    if k == "hash":
        return "hash", hash(get(op[1]))
    if k == "eq":
        return "bool", get(op[1]) == get(op[2])
    if k == "ne":
        return "bool", get(op[1]) != get(op[2])
    if k == "eqs":
        return "bool", get(op[1]) == lit(op[2])
    raise ValueError("bad step %r" % (op,))


def hazard(op, get):
    """may this step legitimately leave the exact regime (Python's int / int, int ** negative int)?"""
    k = op[0]
    try:
        if k == "integ":
            return has_int(get(op[1]))
        if k == "div":
            return has_int(get(op[1])) and has_int(get(op[2]))
        if k == "divs":
            return has_int(get(op[1])) and lit_int(op[2])
        if k == "pow":
            return dec(nom(op[2])) < 0 and has_int(get(op[1]))
        if k == "comp":
            return any(kk < 0 for kk, _ in get(op[1]).terms(sort=False)) and has_int(get(op[2]))
        if k == "call":
            return lit_int(op[2]) and any(kk < 0 for kk, _ in get(op[1]).terms(sort=False))
    except Exception:
        pass
    return False


def _copy_of(p):
    from audiolazy import Poly
    return Poly(OrderedDict(p.terms(sort=False)), zero=p.zero)


def _same_value(a, b):
    if a != a:
        return b != b
    return a == b


def _lag_exact_expected(op, what):
    """is a Fraction-typed answer due?  (k - rk) / (rj - rk) is int / int (a float) unless k or both abscissae are Fractions"""
    pairs, ks = op[1], op[2]
    cont = op[3] if len(op) > 3 else "list_tuples"
    enum = cont == "enum_deque"                    # abscissae are the ints 0, 1, …
    ok = all(lit_exact(b) and (enum or lit_exact(a)) for a, b in pairs)
    xs_frac = not enum and all(flav(a) == "F" for a, _ in pairs)
    n = len(pairs)
    if what == "poly":
        return ok and (xs_frac or n <= 1)
    pts = [({"t": "i", "v": 0} if enum else a) for a, _ in pairs] + list(ks)
    return [ok and lit_exact(k) and (n <= 1 or xs_frac or flav(k) == "F") for k in pts]


_LAGP_RESULTS = []          # the Polys that lagrange.poly returned so far in this history (kept alive: identity)


def run_lag(op):
    from audiolazy import lagrange
    kind = op[0]
    cont = op[3] if len(op) > 3 else "list_tuples"
    xs = list(range(len(op[1]))) if cont == "enum_deque" else [lit(a) for a, _ in op[1]]
    at = xs + [lit(v) for v in op[2]]
    out = {"kind": kind}
    try:
        f = lagrange.func(pairs_container(op[1], cont))
        vals = [f(v) for v in at]
        out["values"] = [encx(v) for v in vals]
        out["exact"] = [is_exact(v) for v in vals]
    except Exception as e:
        out["values"] = {"err": err_kind(e)}
    out["exact_due"] = _lag_exact_expected(op, "func")
    if kind == "lagp":
        try:
            p = lagrange.poly(pairs_container(op[1], cont))
            vals = [p(v) for v in at]
            out["poly"] = {"terms": _terms(p), "at": [encx(v) for v in vals],
                           "exact": all(is_exact(v) for _, v in p.terms(sort=False)),
                           "at_exact": [is_exact(v) for v in vals],
                           "same_as_earlier": any(q is p for q in _LAGP_RESULTS)}
            _LAGP_RESULTS.append(p)
            try:
                p[97] = F(1)          # the caller's own (never hashed) result, changed by the caller: nobody else may see it
            except Exception:
                pass
        except Exception as e:
            out["poly"] = {"err": err_kind(e)}
        out["poly_exact_due"] = _lag_exact_expected(op, "poly")
    return out


def run_resample(op):
    from audiolazy import resample
    sig = [lit(v) for v in op[1]]
    out = {"kind": "lagseq"}
    try:
        vals = list(resample(sig, old=lit(op[2]), new=lit(op[3]), order=op[4], zero=lit(op[5])))
        out["values"] = [encx(v) for v in vals]
        out["exact"] = [is_exact(v) for v in vals]
    except Exception as e:
        out["values"] = {"err": err_kind(e)}
    # the first output is evaluated at the int `int(threshold)`: int / int, a float; later ones at idx + old / new
    all_exact = all(lit_exact(v) for v in lits_of(op))
    frac_step = all_exact and (flav(op[2]) == "F" or flav(op[3]) == "F")
    out["exact_due"] = [False] + [frac_step] * 400
    return out


def impl_here(c):
    del _LAGP_RESULTS[:]
    pool = [build_leaf(t) for t in c["objs"]]
    vm = {i: i for i in range(len(pool))}
    srcs = [build_src(s) for s in c.get("srcs", [])]
    hashed = set()
    n0 = len(pool)
    snap = [json.dumps(_terms(p)) for p in pool]
    init = [{"terms": _terms(p), "exact": poly_exact(p)} for p in pool]
    src_snap = [src_state(s) for s in srcs]
    steps = []
    for t, op in enumerate(c["ops"]):
        k = op[0]
        if k in LAG:
            o = run_lag(op) if k != "resample" else run_resample(op)
            vm_bind = None
        else:
            refs = [op[i] for i in REFS.get(k, ())]
            if any(r not in vm for r in refs):
                steps.append({"kind": "unbound"})
                continue
            get = lambda r: pool[vm[r]]           # noqa: E731
            ops_exact = all(poly_exact(get(r)) for r in refs)
            if k == "from":
                ops_exact = all(is_exact(v) for v in (srcs[op[1]] if isinstance(srcs[op[1]], list) else srcs[op[1]].values()))
            lits_exact = all(lit_exact(v) for v in lits_of(op))
            hz = hazard(op, get)
            target_hashed = k in MUTATES and id(get(op[1])) in hashed
            # pristine copies of the CURRENT contents of the operands, taken before the step
            try:
                copies = {r: _copy_of(get(r)) for r in set(refs)}
                src_copies = [list(s) if isinstance(s, list) else type(s)(s) for s in srcs]
            except Exception:
                copies = None
            o = {}
            try:
                kind, val = apply_op(op, get, srcs)
            except Exception as e:
                kind, val = "err", err_kind(e)
            o["kind"] = kind
            vm_bind = None
            if kind == "obj":
                same = next((i for i, q in enumerate(pool) if q is val), -1)
                o["same_as"] = same
                pool.append(val)
                snap.append(None)
                vm_bind = len(pool) - 1
                o["exact"] = poly_exact(val)
            elif kind == "num":
                o["v"] = encx(val)
                o["exact"] = is_exact(val)
            elif kind == "bool":
                o["v"] = val if isinstance(val, bool) else {"other": repr(val)[:40]}
                o["exact"] = True
            elif kind == "hash":
                hashed.add(id(get(op[1])))
                o["exact"] = True
            elif kind == "err":
                o["err"] = val
                o["exact"] = True
            else:
                o["exact"] = poly_exact(get(op[1])) if k in MUTATES else True
            o["justified"] = (not ops_exact) or (not lits_exact) or hz
            o["inputs_exact"] = ops_exact and lits_exact
            # the same step on the pristine copies
            if copies is not None and not target_hashed and k != "src_set":
                try:
                    k2, v2 = apply_op(op, lambda r: copies[r], src_copies)
                except Exception as e:
                    k2, v2 = "err", err_kind(e)
                same_res = k2 == kind
                got = None
                if same_res:
                    if kind == "obj":
                        same_res = dict(val.terms(sort=False)) == dict(v2.terms(sort=False))
                        got = _terms(v2)
                    elif kind == "num":
                        same_res = _same_value(val, v2)
                        got = encx(v2)
                    elif kind in ("bool", "hash", "err"):
                        same_res = val == v2
                        got = v2 if kind != "hash" else None
                    elif k in MUTATES:
                        same_res = dict(get(op[1]).terms(sort=False)) == dict(copies[op[1]].terms(sort=False))
                        got = _terms(copies[op[1]])
                else:
                    got = {"kind": k2, "value": (v2 if k2 == "err" else None)}
                if not same_res:
                    o["pristine"] = {"differs": True, "got": got}
        # what changed in the variables and in the caller's containers
        delta, expected = [], set()
        if k in MUTATES and o["kind"] == "none":
            tgt = pool[vm[op[1]]]
            expected = {i for i, q in enumerate(pool) if q is tgt}
        if vm_bind is not None:
            expected.add(vm_bind)
        for i, p in enumerate(pool):
            try:
                now = json.dumps(_terms(p))
            except Exception as e:
                now = "unreadable:" + err_kind(e)
            if now != snap[i]:
                snap[i] = now
                delta.append([i, json.loads(now) if not now.startswith("unreadable") else now, poly_exact(p)])
        o["delta"] = delta
        unexpected = [d[0] for d in delta if d[0] not in expected]
        if unexpected:
            o["unexpected"] = unexpected
        now_src = [src_state(s) for s in srcs]
        if now_src != src_snap:
            if k != "src_set":
                o["src_changed"] = True
            src_snap = now_src
        o["srcs"] = now_src
        steps.append(o)
        if vm_bind is not None:
            vm[n0 + t] = vm_bind
    return {"init": init, "steps": steps}


# ----------------------------------------------------------------------------------------------------------------
# isolation: a history has to fail by itself (not through state left in the library by earlier cases of the run)
# ----------------------------------------------------------------------------------------------------------------
ISO_ALWAYS = 250
_ISO = {"zygote": None, "failed": False, "n": 0, "always": False}


def zygote_start():
    import os
    if _ISO["zygote"] is not None or _ISO["failed"]:
        return
    try:
        req_r, req_w = os.pipe()
        res_r, res_w = os.pipe()
        pid = os.fork()
    except Exception:
        _ISO["failed"] = True
        return
    if pid:
        os.close(req_r)
        os.close(res_w)
        _ISO["zygote"] = (pid, os.fdopen(req_w, "w"), os.fdopen(res_r, "r"))
        return
    try:
        os.close(req_w)
        os.close(res_r)
        import sys
        for m in [m for m in sys.modules if m == "audiolazy" or m.startswith("audiolazy.")]:
            del sys.modules[m]
        import audiolazy          # noqa: F401  imported once, pristine; the children inherit it
        inp = os.fdopen(req_r, "r")
        while True:
            line = inp.readline()
            if not line:
                break
            child = os.fork()
            if child == 0:
                try:
                    try:
                        obs = _impl_any(json.loads(line))
                    except Exception as e:
                        import traceback
                        obs = {"err": "UNMAPPED:" + err_kind(e), "trace": traceback.format_exc()[-800:]}
                    os.write(res_w, (json.dumps(obs) + "\n").encode())
                finally:
                    os._exit(0)
            _, status = os.waitpid(child, 0)
            if status != 0:
                os.write(res_w, (json.dumps({"err": "UNMAPPED:child-died", "status": status}) + "\n").encode())
    finally:
        os._exit(0)


_IMPL_OTHER = {}          # entry -> in-process impl function of the other entries (set by c07.py)


def _impl_any(c):
    if c["entry"] == "hist":
        return impl_here(c)
    return _IMPL_OTHER[c["entry"]](c)


def isolated(c):
    """the observation of case c by a fresh process that has run nothing else (None when forking is impossible)"""
    zygote_start()
    z = _ISO["zygote"]
    if z is None:
        return None
    _, out, inp = z
    try:
        out.write(json.dumps(c) + "\n")
        out.flush()
        line = inp.readline()
    except Exception:
        line = ""
    if not line:
        _ISO["zygote"], _ISO["failed"] = None, True
        return None
    return dict(json.loads(line), isolated=True)


def impl(c):
    _ISO["n"] += 1
    # once a history has failed, every further one (the search around it, the shrinking) runs in a fresh process:
    # state left in the library by other cases can hide a failure as well as cause one
    if _ISO["n"] <= ISO_ALWAYS or _ISO["always"]:
        r = isolated(c)
        if r is not None:
            return r
    return dict(impl_here(c), isolated=False)


# ----------------------------------------------------------------------------------------------------------------
# comparison
# ----------------------------------------------------------------------------------------------------------------
def _num_ok(a, m, exact):
    """impl number a (encx) against the model's rational m"""
    if isinstance(a, dict):
        if "re" in a:
            return (not exact) and _num_ok(a["re"], m, False) and _num_ok(a["im"], 0, False)
        return False
    try:
        av, mv = dec(a), dec(m)
    except Exception:
        return False
    if isinstance(av, float) or isinstance(mv, float):
        return False
    return av == mv if exact else common.close(av, mv, TOL)


def _small(a):
    if isinstance(a, dict):
        return "re" in a and _small(a["re"]) and _small(a["im"])
    try:
        v = dec(a)
        return not isinstance(v, float) and abs(v) <= PRUNE
    except Exception:
        return False


def _terms_ok(a, m, exact):
    if not isinstance(a, list):
        return False
    if not exact:
        a = [t for t in a if not _small(t[1])]
        m = [t for t in m if not _small(t[1])]
    return len(a) == len(m) and all(x[0] == y[0] and _num_ok(x[1], y[1], exact) for x, y in zip(a, m))


def describe_op(op, n0, t):
    def v(i):
        return "p%d" % i
    def L(j):
        return repr(lit(j))
    def K(j):
        return repr(_key(j))
    k = op[0]
    r = "p%d = " % (n0 + t)
    if k == "new":
        if op[1] == "dict":
            return r + "Poly({%s})" % ", ".join("%s: %s" % (K(a), L(b)) for a, b in op[2])
        if op[1] == "list":
            return r + "Poly([%s])" % ", ".join(L(b) for b in op[2])
        return r + "Poly(%s)" % L(op[2])
    if k == "from":
        return r + "Poly(src%d)" % op[1]
    if k == "src_set":
        return "src%d[%s] = %s" % (op[1], K(op[2]), L(op[3]))
    if k == "un":
        return r + {"neg": "-%s", "pos": "+%s", "copy": "%s.copy()", "ctor": "Poly(%s)"}[op[1]] % v(op[2])
    if k == "bin":
        return r + "%s %s %s" % (v(op[2]), {"add": "+", "sub": "-", "mul": "*"}[op[1]], v(op[3]))
    if k == "scal":
        sym = {"adds": "+", "radds": "+", "subs": "-", "rsubs": "-", "muls": "*", "rmuls": "*"}[op[1]]
        return r + ("%s %s %s" % (L(op[3]), sym, v(op[2])) if op[1].startswith("r") else "%s %s %s" % (v(op[2]), sym, L(op[3])))
    if k == "divs":
        return r + "%s / %s" % (v(op[1]), L(op[2]))
    if k == "div":
        return r + "%s / %s" % (v(op[1]), v(op[2]))
    if k == "pow":
        return r + "%s ** %s" % (v(op[1]), K(op[2]))
    if k == "comp":
        return r + "%s(%s)" % (v(op[1]), v(op[2]))
    if k == "call":
        return "%s(%s, horner=%r)" % (v(op[1]), L(op[2]), op[3])
    if k == "diff":
        return r + "%s.diff(%d)" % (v(op[1]), op[2])
    if k == "integ":
        return r + "%s.integrate()" % v(op[1])
    if k == "setitem":
        return "%s[%s] = %s" % (v(op[1]), K(op[2]), L(op[3]))
    if k == "setzero":
        return "%s.zero = %s" % (v(op[1]), L(op[2]))
    if k == "hash":
        return "hash(%s)" % v(op[1])
    if k in ("eq", "ne"):
        return "%s %s %s" % (v(op[1]), "==" if k == "eq" else "!=", v(op[2]))
    if k == "eqs":
        return "%s == %s" % (v(op[1]), L(op[2]))
    if k in ("lagf", "lagp"):
        cont = op[3] if len(op) > 3 else "list_tuples"
        pts = ("enumerate(deque(%r))" % [lit(b) for _, b in op[1]] if cont == "enum_deque" else
               "%s %r" % (cont, [(lit(a), lit(b)) for a, b in op[1]]))
        return "lagrange.%s(%s) at its abscissae and at %s" % ("func" if k == "lagf" else "poly", pts, [lit(x) for x in op[2]])
    if k == "resample":
        return "list(resample(%s, old=%s, new=%s, order=%d, zero=%s))" % ([lit(x) for x in op[1]], L(op[2]), L(op[3]), op[4], L(op[5]))
    return json.dumps(op)


def describe(c):
    n0 = len(c["objs"])
    parts = []
    for i, t in enumerate(c["objs"]):
        parts.append(describe_op(["new", t[0], t[1] if len(t) > 1 else None], 0, i) if t[0] in ("dict", "list", "const")
                     else "p%d = Poly(%s)" % (i, "" if t[0] == "empty" else "{1: 1}"))
    for i, s in enumerate(c.get("srcs", [])):
        parts.append("src%d = %s %r" % (i, s["kind"], build_src(s)))
    parts += [describe_op(o, n0, t) for t, o in enumerate(c["ops"])]
    return "; ".join(parts)


def problems(c, io, drv):
    """[(kind, category, step, detail)] for every step on which the real code, the model and the spec differ"""
    out = []
    if "steps" not in io or "steps" not in drv or len(io["steps"]) != len(c["ops"]):
        return [("model", "observation", -1, "no observation of the history: %s" % json.dumps(io)[:300]),
                ("spec", "observation", -1, "no observation of the history")]
    n0 = len(c["objs"])
    exact_slot = {}
    garbage = False
    istate, mstate = {}, {}            # current contents of every variable: real code / model
    for i, (a, m) in enumerate(zip(io["init"], drv["init"])):
        exact_slot[i] = a["exact"]
        istate[i], mstate[i] = a["terms"], m
        if not _terms_ok(a["terms"], m, a["exact"]):
            out.append(("model", "value", -1, "initial object p%d: impl=%s model=%s" % (i, json.dumps(a["terms"])[:120], json.dumps(m)[:120])))
    for t, (op, a, m) in enumerate(zip(c["ops"], io["steps"], drv["steps"])):
        k = op[0]
        where = "step %d `%s`: " % (t + 1, describe_op(op, n0, t)[:150])

        def add(kind, cat, msg):
            out.append((kind, cat, t, where + msg))
        if a["kind"] == "unbound" or m["kind"] == "unbound":
            if a["kind"] != m["kind"] and not out:
                add("model", "unbound", "names a variable that is %s in the real code and %s in the model" % (
                    "unbound" if a["kind"] == "unbound" else "bound", "unbound" if m["kind"] == "unbound" else "bound"))
            continue
        spec = m.get("spec")
        # ---- interpolators -------------------------------------------------------------------------------
        if k in LAG:
            mv = m["values"]
            av = a["values"]
            if isinstance(av, dict) or isinstance(mv, dict):
                if av != mv:
                    add("model", "raises" if isinstance(av, dict) else "value", "impl=%s model=%s" % (json.dumps(av)[:80], json.dumps(mv)[:80]))
                    if isinstance(av, dict) and spec is not None:
                        add("spec", "raises:" + av.get("err", "?"), "raised %s on distinct abscissae" % av.get("err"))
            else:
                if len(av) != len(mv):
                    add("model", "value", "%d values, model %d" % (len(av), len(mv)))
                for j, (x, y) in enumerate(zip(av, mv)):
                    due = a["exact_due"][j] if j < len(a["exact_due"]) else False
                    if due and not a["exact"][j]:
                        add("spec", "inexact", "value #%d is %s: not exact although every input is an exact number "
                            "(the same call alone gives the Fraction %s)" % (j, json.dumps(x)[:60], y))
                        break
                    if not _num_ok(x, y, a["exact"][j]):
                        add("model", "value", "value #%d: impl=%s model=%s" % (j, json.dumps(x)[:60], y))
                        n = len(op[1]) if k != "resample" else 0
                        if spec is not None and j < n:
                            add("spec", "value", "the interpolator does not pass through point #%d: %s, ordinate %s" % (
                                j, json.dumps(x)[:60], spec["at_nodes"][j]))
                        elif k == "resample" or spec is not None:
                            add("spec", "value", "value #%d is not the value of the interpolating polynomial: %s vs %s" % (j, json.dumps(x)[:60], y))
                        break
            if k == "lagp":
                ap, mp = a["poly"], m["poly"]
                if "err" in ap or "err" in mp:
                    if ap != mp:
                        add("model", "raises", "lagrange.poly: impl=%s model=%s" % (json.dumps(ap)[:80], json.dumps(mp)[:80]))
                        if "err" in ap and spec is not None:
                            add("spec", "raises:" + ap["err"], "lagrange.poly raised %s on distinct abscissae" % ap["err"])
                else:
                    if ap.get("same_as_earlier"):
                        add("spec", "not-fresh", "lagrange.poly returned the very object it returned before (which the caller "
                            "has changed since): %s" % json.dumps(ap["terms"])[:120])
                    if a["poly_exact_due"] and not ap["exact"]:
                        add("spec", "inexact", "lagrange.poly has inexact coefficients although every input is an exact number: %s (alone: %s)" % (
                            json.dumps(ap["terms"])[:120], json.dumps(mp["terms"])[:120]))
                    elif not _terms_ok(ap["terms"], mp["terms"], ap["exact"]):
                        add("model", "value", "lagrange.poly terms: impl=%s model=%s" % (json.dumps(ap["terms"])[:120], json.dumps(mp["terms"])[:120]))
                        if spec is not None:
                            add("spec", "value", "lagrange.poly is not the interpolating polynomial")
                    else:
                        for j, (x, y) in enumerate(zip(ap["at"], mp["at"])):
                            if not _num_ok(x, y, ap["at_exact"][j] and ap["exact"]):
                                add("model", "value", "lagrange.poly(...)(x) #%d: impl=%s model=%s" % (j, json.dumps(x)[:60], y))
                                if spec is not None:
                                    add("spec", "value", "lagrange.poly does not pass through its points / differs from lagrange.func")
                                break
            continue
        # ---- operations on the heap ---------------------------------------------------------------------
        refs = [op[i] for i in REFS.get(k, ())]
        inputs_exact = a.get("inputs_exact", True)
        if garbage and not inputs_exact:
            # rounding residue in a float operand: the branch taken may differ legitimately
            for d in a.get("delta", []):
                istate[d[0]] = d[1]
                exact_slot[d[0]] = d[2]
            for d in m.get("delta", []):
                mstate[d[0]] = d[1]
            continue
        res_exact = a.get("exact", True)
        if a["kind"] != m["kind"]:
            if a["kind"] == "err":
                add("model", "raises", "raised %s, the model gives %s" % (a["err"], m["kind"]))
                if spec is not None:
                    add("spec", "raises:" + a["err"], "raised %s where the property defines the result %s" % (a["err"], json.dumps(spec)[:120]))
            elif m["kind"] == "err":
                add("model", "no-raise", "returned normally, the model raises %s" % m["err"])
                if k in MUTATES:
                    add("spec", "no-raise", "item assignment on a hashed instance was accepted")
            else:
                add("model", "kind", "impl %s, model %s" % (a["kind"], m["kind"]))
            break
        if a["kind"] == "err":
            if a["err"] != m["err"]:
                add("model", "raises", "raised %s, model %s" % (a["err"], m["err"]))
        elif a["kind"] == "num":
            if not res_exact and not a["justified"]:
                add("spec", "inexact", "returned %s: not an exact number although the operands and the value are exact (alone: %s)" % (
                    json.dumps(a["v"])[:60], m["v"]))
            elif not _num_ok(a["v"], m["v"], res_exact):
                add("model", "value", "impl=%s model=%s" % (json.dumps(a["v"])[:80], m["v"]))
                if spec is not None and not _num_ok(a["v"], spec["num"], res_exact):
                    add("spec", "value", "p(v) = %s, but the sum of c*v^k over the current terms is %s" % (json.dumps(a["v"])[:80], spec["num"]))
        elif a["kind"] == "bool":
            if inputs_exact:
                if a["v"] != m["v"]:
                    add("model", "value", "impl=%r model=%r" % (a["v"], m["v"]))
                if spec is not None and a["v"] != spec["bool"]:
                    add("spec", "value", "%r, but the denoted Laurent polynomials are %s" % (
                        a["v"], "equal" if spec["bool"] == (k != "ne") else "different"))
        # contents of the variables after the step
        ad = {d[0]: d for d in a["delta"]}
        md = {d[0]: d[1] for d in m["delta"]}
        iprev, mprev = dict(istate), dict(mstate)
        for idx in ad:
            istate[idx] = ad[idx][1]
        for idx in md:
            mstate[idx] = md[idx]
        for idx in sorted(set(ad) | set(md)):
            if idx in ad:
                exact_slot[idx] = ad[idx][2]
        newidx = None
        if a["kind"] == "obj":
            newidx = max(ad) if ad else None
        for idx in sorted(set(ad) | set(md)):
            ex = exact_slot.get(idx, True)
            if idx in ad and idx in md:
                if not ex and not a["justified"] and (k in PRODUCES or k in MUTATES):
                    add("spec", "inexact", "%s now has inexact (float / complex) coefficients %s although operands and literals are "
                        "exact numbers (the same operation alone gives %s)" % (
                            "the result" if idx == newidx else "variable #%d" % idx, json.dumps(ad[idx][1])[:120], json.dumps(md[idx])[:120]))
                    continue
                if not _terms_ok(ad[idx][1], md[idx], ex):
                    what = "the result" if idx == newidx else "variable #%d" % idx
                    add("model", "value", "%s is %s, model %s" % (what, json.dumps(ad[idx][1])[:140], json.dumps(md[idx])[:140]))
                    if spec is not None and "terms" in spec and not _terms_ok(ad[idx][1], spec["terms"], ex):
                        add("spec", "value", "%s is %s; the operation on the current contents of its operands gives %s" % (
                            what, json.dumps(ad[idx][1])[:140], json.dumps(spec["terms"])[:140]))
                elif not ex and isinstance(ad[idx][1], list) and len(ad[idx][1]) != len(md[idx]):
                    garbage = True
            elif idx in ad:
                if idx in mprev and _terms_ok(ad[idx][1], mprev[idx], ex):
                    continue              # the same value in another number type
                if not ex and isinstance(ad[idx][1], list):
                    garbage = True
                add("model", "changed", "the contents of variable #%d changed to %s; in the model they do not change" % (idx, json.dumps(ad[idx][1])[:120]))
            else:
                if idx in iprev and _terms_ok(iprev[idx], md[idx], ex):
                    continue
                add("model", "unchanged", "the contents of variable #%d did not change; in the model they become %s" % (idx, json.dumps(md[idx])[:120]))
                if spec is not None and "terms" in spec and k in MUTATES:
                    add("spec", "value", "the assignment left the contents as they were; they should be %s" % json.dumps(spec["terms"])[:120])
        if a["kind"] == "obj" and a.get("same_as", -1) != -1 and m.get("same_as", -1) == -1:
            add("spec", "not-fresh", "the result is not a new object: it is the object of variable #%d (a later change of one changes the other)" % a["same_as"])
        if a.get("unexpected"):
            add("spec", "operand-modified", "modified the contents of variable(s) %s, which are not the target of an assignment" % a["unexpected"])
        if a.get("src_changed"):
            add("spec", "src-modified", "modified the caller's own container: %s" % json.dumps(a["srcs"])[:160])
        elif a.get("srcs") is not None and not _srcs_ok(a["srcs"], m["srcs"]):
            add("model", "src", "caller's containers: impl=%s model=%s" % (json.dumps(a["srcs"])[:100], json.dumps(m["srcs"])[:100]))
        if a.get("pristine"):
            add("spec", "stale", "differs from the same operation on pristine copies of the current contents of its operands, which gives %s" % (
                json.dumps(a["pristine"]["got"])[:160]))
    return out


def _srcs_ok(a, m):
    """the caller's containers, real code against model (numbers in whatever type the caller put there)"""
    if len(a) != len(m):
        return False
    for x, y in zip(a, m):
        try:
            x = sorted(x, key=lambda kv: dec(kv[0]))
            y = sorted(y, key=lambda kv: dec(kv[0]))
        except Exception:
            return False
        if len(x) != len(y) or any(dec(p[0]) != dec(q[0]) or not (_num_ok(p[1], q[1], True) or _num_ok(p[1], q[1], False))
                                   for p, q in zip(x, y)):
            return False
    return True


def compare(c, io, drv):
    probs = problems(c, io, drv)
    if probs:
        _ISO["always"] = True
    if probs and io.get("isolated") is False:
        io2 = isolated(c)
        if io2 is not None:
            probs2 = problems(c, io2, drv)
            io.clear()
            io.update(io2)
            if not probs2:
                io["only_after_earlier_cases"] = True
                # not a self-contained witness: reported as a broken correspondence, never as the failing input
                return [("model", "only after the earlier cases of this run (agrees when run alone in a fresh process: the library "
                         "keeps state somewhere): " + d) for _, _, _, d in probs[:3]]
            probs = probs2
    if not probs:
        return []
    text = describe(c)
    first = True
    out = []
    for kd, _, _, d in probs[:6]:
        out.append((kd, ("history [%s] — " % text[:900] if first else "") + d))
        first = False
    return out


def classify(c, io, drv):
    if io.get("only_after_earlier_cases"):
        return "hist:only-after-earlier-cases"
    probs = problems(c, io, drv)
    if not probs:
        return "hist:none"
    sp = [p for p in probs if p[0] == "spec"] or probs
    t = sp[0][2]
    opk = c["ops"][t][0] if 0 <= t < len(c["ops"]) else "init"
    if opk in ("un", "bin", "scal", "new"):
        opk += ":" + c["ops"][t][1]
    return "hist:%s:%s" % (opk, sp[0][1])


def nontrivial(c, io):
    return "steps" in io and any(s.get("kind") in ("obj", "num", "bool", "hash", "lagf", "lagp", "lagseq") for s in io["steps"])


# ----------------------------------------------------------------------------------------------------------------
# histograms
# ----------------------------------------------------------------------------------------------------------------
def _bucket(n):
    return "1-3" if n <= 3 else "4-7" if n <= 7 else "8-15" if n <= 15 else "16-63" if n <= 63 else "64-255" if n <= 255 else ">=256"


def tally(eng, c, io):
    ops = c["ops"]
    n0 = len(c["objs"])
    eng.count("hist_len", _bucket(len(ops)))
    eng.count("hist_shape", c.get("shape", "?"))
    eng.count("hist_isolated", "fresh process" if io.get("isolated") else "in process")
    steps = io.get("steps", [])
    produced_by = {}          # var id -> step index
    last_use = {}             # (op without result) -> step
    mutated_at = {}           # var id -> last step that assigned into it
    seen_sig = {}
    fl_seen = []
    for t, (op, st) in enumerate(zip(ops, steps)):
        k = op[0]
        kind = st.get("kind")
        eng.count("hist_op", k + (":" + op[1] if k in ("un", "bin", "scal", "new") else "") +
                  (" -> " + st["err"] if kind == "err" else " (unbound)" if kind == "unbound" else ""))
        if kind == "unbound":
            continue
        fls = sorted({flav(v) for v in lits_of(op)})
        for f in fls:
            eng.count("hist_literal_flavour", f)
        if k in LAG:
            eng.count("hist_lag_container", op[3] if k != "resample" and len(op) > 3 else ("resample" if k == "resample" else "list_tuples"))
            eng.count("hist_lag_points", len(op[1]) if k != "resample" else "order %d" % op[4])
            enum = k == "resample" or (len(op) > 3 and op[3] == "enum_deque")
            n = (op[4] + 1) if k == "resample" else len(op[1])
            key = json.dumps(list(range(n)) if enum else [str(dec(nom(a))) for a, _ in op[1]])
            xfl = "i" if enum else "/".join(sorted({flav(a) for a, _ in op[1]}))
            if key in seen_sig and seen_sig[key][0] != xfl:
                eng.count("hist_shared", "interpolator on numerically equal abscissae of another type (%s then %s)" % (seen_sig[key][0], xfl))
            if k != "resample":
                full = json.dumps([[str(dec(nom(a))), str(dec(nom(b)))] for a, b in op[1]])
                if seen_sig.get("full:" + full, (fls,))[0] != fls:
                    eng.count("hist_shared", "interpolator on numerically equal POINTS of another type")
                seen_sig.setdefault("full:" + full, (fls,))
            seen_sig.setdefault(key, (xfl,))
            if st.get("exact") and isinstance(st.get("values"), list):
                eng.count("hist_lag_regime", "exact" if all(st["exact"]) else "float")
            continue
        refs = [op[i] for i in REFS.get(k, ())]
        for r in refs:
            if r >= n0:
                eng.count("hist_shared", "operand is the result of an earlier step")
            if r in mutated_at:
                eng.count("hist_shared", "operand was assigned into (p[k] = c) before")
        if k in MUTATES:
            r = op[1]
            eng.count("hist_mutation_target", "a result of an earlier step" if r >= n0 else "an initial object")
            if kind == "err":
                eng.count("hist_mutation_target", "a hashed object (TypeError)")
            else:
                mutated_at[r] = t
            if k == "setitem":
                eng.count("hist_setitem", ("zero" if dec(nom(op[3])) == 0 else "non-zero") + ", key flavour " + flav(op[2]))
        sig = json.dumps([k] + [nom(x) if not isinstance(x, (list, str, bool)) and x is not None else x for x in op[1:]], default=str)
        if sig in last_use and k not in MUTATES:
            prev = last_use[sig]
            between = [ops[u] for u in range(prev + 1, t) if ops[u][0] in MUTATES and ops[u][1] in refs]
            eng.count("hist_shared", "same operation on the same variables again" + (" after an operand was assigned into" if between else ""))
            res_mut = [ops[u] for u in range(prev + 1, t) if ops[u][0] in MUTATES and ops[u][1] == n0 + prev]
            if res_mut:
                eng.count("hist_shared", "same operation again after its earlier RESULT was assigned into")
        last_use[sig] = t
        if st.get("exact") is False:
            eng.count("hist_regime", "inexact result (justified)" if st.get("justified") else "inexact result (NOT justified)")
        else:
            eng.count("hist_regime", "exact")
        if st.get("same_as", -1) != -1:
            eng.count("hist_shared", "p ** n returned p itself")
    if any(s.get("kind") == "hash" for s in steps):
        eng.count("hist_shared", "history with a hashed object")


# ----------------------------------------------------------------------------------------------------------------
# shrinking
# ----------------------------------------------------------------------------------------------------------------
def _renumber(op, f):
    """apply f to every variable id of a step; None when f gives None"""
    op = list(op)
    for i in REFS.get(op[0], ()):
        v = f(op[i])
        if v is None:
            return None
        op[i] = v
    return op


def _drop_step(c, t):
    n0 = len(c["objs"])
    vid = n0 + t
    removed = c["ops"][t]
    refs = [removed[i] for i in REFS.get(removed[0], ())]
    for redirect in ([None] + refs[:1]):
        ops = []
        ok = True
        for u, op in enumerate(c["ops"]):
            if u == t:
                continue
            def f(r):
                if r == vid:
                    return redirect
                return r - 1 if r > vid else r
            o2 = _renumber(op, f)
            if o2 is None:
                ok = False
                break
            ops.append(o2)
        if ok:
            yield dict(c, ops=ops)
            return
    # drop the step together with everything that depends on it
    dead = {vid}
    keep = []
    for u, op in enumerate(c["ops"]):
        if u == t:
            continue
        if any(op[i] in dead for i in REFS.get(op[0], ())):
            dead.add(n0 + u)
            continue
        keep.append(u)
    old_ids = {n0 + u: n0 + j for j, u in enumerate(keep)}
    ops = []
    for u in keep:
        ops.append(_renumber(c["ops"][u], lambda r: r if r < n0 else old_ids.get(r)))
    if all(o is not None for o in ops):
        yield dict(c, ops=ops)


def _drop_obj(c, i):
    n0 = len(c["objs"])
    for op in c["ops"]:
        if any(op[j] == i for j in REFS.get(op[0], ())):
            return
    ops = [_renumber(op, lambda r: r - 1 if r > i else r) for op in c["ops"]]
    yield dict(c, objs=c["objs"][:i] + c["objs"][i + 1:], ops=ops)


def _simpler_lit(j):
    if isinstance(j, dict):
        yield j["v"]                        # the Fraction flavour of the same number
    v = nom(j)
    if v not in (0, 1):
        if isinstance(j, dict):
            yield dict(j, v=1)
        else:
            yield 1


def _map_lits(op, i_target, newv):
    """copy of the step with its i_target-th literal (in lits_of order) replaced"""
    cnt = [0]

    def rep(x):
        cur = cnt[0]
        cnt[0] += 1
        return newv if cur == i_target else x
    k = op[0]
    op = list(op)
    if k == "new":
        if op[1] == "dict":
            op[2] = [[a, rep(b)] for a, b in op[2]]
        elif op[1] == "list":
            op[2] = [rep(b) for b in op[2]]
        else:
            op[2] = rep(op[2])
    elif k == "scal":
        op[3] = rep(op[3])
    elif k in ("eqs", "divs", "pow", "call", "setzero"):
        op[2] = rep(op[2])
    elif k == "setitem":
        op[3] = rep(op[3])
    elif k == "src_set":
        op[3] = rep(op[3])
    elif k in ("lagf", "lagp"):
        op[1] = [[rep(a), rep(b)] for a, b in op[1]]
        op[2] = [rep(v) for v in op[2]]
    elif k == "resample":
        op[1] = [rep(v) for v in op[1]]
        op[2] = rep(op[2])
        op[3] = rep(op[3])
        op[5] = rep(op[5])
    return op


def shrink(c):
    ops = c["ops"]
    n = len(ops)
    # halves first (long histories), then single steps
    if n > 8:
        for lo, hi in ((n // 2, n), (0, n // 2)):
            cur = c
            for t in range(hi - 1, lo - 1, -1):
                nxt = next(_drop_step(cur, t), None)
                if nxt is None:
                    break
                cur = nxt
            if cur is not c:
                yield cur
    for t in range(n - 1, -1, -1):
        for c2 in _drop_step(c, t):
            yield c2
    for i in range(len(c["objs"]) - 1, -1, -1):
        for c2 in _drop_obj(c, i):
            yield c2
    if c.get("srcs") and not any(o[0] in ("from", "src_set") for o in ops):
        yield dict(c, srcs=[])
    # simpler initial objects
    for i, t in enumerate(c["objs"]):
        if t[0] == "dict" and len(t[1]) > 1:
            for j in range(len(t[1])):
                yield dict(c, objs=c["objs"][:i] + [["dict", t[1][:j] + t[1][j + 1:]]] + c["objs"][i + 1:])
        if t[0] == "list" and len(t[1]) > 1:
            yield dict(c, objs=c["objs"][:i] + [["list", t[1][:-1]]] + c["objs"][i + 1:])
        if t[0] in ("dict", "list"):
            body = t[1]
            for j in range(len(body)):
                cur = body[j][1] if t[0] == "dict" else body[j]
                for s in _simpler_lit(cur):
                    nb = list(body)
                    nb[j] = [body[j][0], s] if t[0] == "dict" else s
                    yield dict(c, objs=c["objs"][:i] + [[t[0], nb]] + c["objs"][i + 1:])
    # simpler steps
    for t, op in enumerate(ops):
        k = op[0]
        ls = lits_of(op)
        for j, lv in enumerate(ls):
            for s in _simpler_lit(lv):
                if k == "pow":
                    if isinstance(lv, dict):
                        yield dict(c, ops=ops[:t] + [_map_lits(op, j, lv["v"])] + ops[t + 1:])
                    continue
                yield dict(c, ops=ops[:t] + [_map_lits(op, j, s)] + ops[t + 1:])
        if k == "pow" and not isinstance(op[2], dict) and abs(op[2]) > 1:
            yield dict(c, ops=ops[:t] + [["pow", op[1], op[2] - (1 if op[2] > 0 else -1)]] + ops[t + 1:])
        if k == "new" and op[1] == "dict" and len(op[2]) > 1:
            for j in range(len(op[2])):
                yield dict(c, ops=ops[:t] + [["new", "dict", op[2][:j] + op[2][j + 1:]]] + ops[t + 1:])
        if k in ("lagf", "lagp"):
            if len(op[1]) > 2:
                for j in range(len(op[1])):
                    yield dict(c, ops=ops[:t] + [[k, op[1][:j] + op[1][j + 1:], op[2]] + list(op[3:])] + ops[t + 1:])
            if op[2]:
                yield dict(c, ops=ops[:t] + [[k, op[1], op[2][:-1]] + list(op[3:])] + ops[t + 1:])
            if len(op) > 3 and op[3] not in ("list_tuples", "enum_deque"):
                yield dict(c, ops=ops[:t] + [[k, op[1], op[2], "list_tuples"]] + ops[t + 1:])
            if k == "lagp":
                yield dict(c, ops=ops[:t] + [["lagf"] + list(op[1:])] + ops[t + 1:])
        if k == "resample" and len(op[1]) > op[4] // 2 + 2:
            yield dict(c, ops=ops[:t] + [[k, op[1][:-1]] + list(op[2:])] + ops[t + 1:])
        if k == "setitem" and isinstance(op[2], dict):
            yield dict(c, ops=ops[:t] + [["setitem", op[1], op[2]["v"], op[3]]] + ops[t + 1:])
        if k == "call" and op[3] != "auto":
            yield dict(c, ops=ops[:t] + [["call", op[1], op[2], "auto"]] + ops[t + 1:])
        if k == "diff" and op[2] > 1:
            yield dict(c, ops=ops[:t] + [["diff", op[1], op[2] - 1]] + ops[t + 1:])


def valid(c):
    """structural validity of a (shrunk) history: ids in range and defined before use; no assignment into / hash of an
    object that `p ** n` may have returned as `self`, nor into its base afterwards (that aliasing is the code's, not
    the property's: a refactor returning a copy must not raise an alarm)"""
    n0 = len(c["objs"])
    risky = set()
    for t, op in enumerate(c["ops"]):
        k = op[0]
        for i in REFS.get(k, ()):
            r = op[i]
            if not isinstance(r, int) or r < 0 or r >= n0 + t:
                return False
        if k in ("from", "src_set") and not (0 <= op[1] < len(c.get("srcs", []))):
            return False
        if k in MUTATES or k == "hash":
            if op[1] in risky:
                return False
        if k == "pow":
            n = dec(nom(op[2]))
            if n != 0 and n <= 1:
                risky.add(n0 + t)
                risky.add(op[1])
    return True


# ----------------------------------------------------------------------------------------------------------------
# generation
# ----------------------------------------------------------------------------------------------------------------
INTS = [F(1), F(-1), F(2), F(-2), F(3), F(5)]
DYAD = [F(1, 2), F(-1, 2), F(3, 2), F(-7, 4), F(1, 4)]
OTHER = [F(1, 3), F(2, 3), F(1, 5), F(-5, 9), F(2, 7)]
NT_MAX, MP_MAX = 48, 36


def rlit(rng, pf=0.0, zero_p=0.04):
    """a random literal; pf = probability of a flavour other than Fraction"""
    if rng.random() < pf:
        t = rng.choice("iiibffc")
        if t == "i":
            return mklit(F(0) if rng.random() < zero_p else rng.choice(INTS), "i")
        if t == "b":
            return mklit(rng.choice([0, 1, 1]), "b")
        return mklit(F(0) if rng.random() < zero_p else rng.choice(INTS + DYAD + DYAD + OTHER[:2]), t)
    if rng.random() < zero_p:
        return 0
    return enc(rng.choice(INTS + DYAD + OTHER))


def rkey(rng, lo=-3, hi=5, pf=0.0):
    k = rng.randint(lo, hi)
    if rng.random() < pf:
        if k in (0, 1) and rng.random() < 0.5:
            return {"t": "b", "v": k}
        return {"t": "f", "v": k}
    return k


def rleaf(rng, pf=0.0, poly_only=False, maxterms=3):
    r = rng.random()
    if r < 0.06:
        return ["empty"]
    if r < 0.14:
        return ["x"]
    if r < 0.2:
        return ["const", rlit(rng, pf)]
    if r < 0.36:
        return ["list", [rlit(rng, pf, 0.15) for _ in range(rng.randint(1, maxterms))]]
    ks = rng.sample(range(0 if poly_only else -3, 5), rng.randint(1, maxterms))
    return ["dict", [[k if rng.random() > pf * 0.5 else rkey(rng, k, k, 1.0), rlit(rng, pf)] for k in ks]]


def _leaf_info(t):
    if t[0] == "empty":
        return {"nt": 0, "mp": 0, "mono": False}
    if t[0] == "x":
        return {"nt": 1, "mp": 1, "mono": True}
    if t[0] == "const":
        return {"nt": 1, "mp": 0, "mono": dec(nom(t[1])) != 0}
    if t[0] == "list":
        nz = [c for c in t[1] if dec(nom(c)) != 0]
        return {"nt": len(t[1]), "mp": max(len(t[1]) - 1, 0), "mono": len(nz) == 1}
    nz = [c for _, c in t[1] if dec(nom(c)) != 0]
    return {"nt": len(t[1]), "mp": max([abs(dec(nom(k))) for k, _ in t[1]] + [0]), "mono": len(nz) == 1 and len(t[1]) == 1}


class Gen(object):
    """builds one history, keeping static bounds on the size of every variable"""

    def __init__(self, rng, pf=0.0, nobj=None):
        self.rng = rng
        self.pf = pf
        self.objs, self.srcs, self.ops, self.info = [], [], [], {}
        for _ in range(nobj if nobj is not None else rng.randint(1, 3)):
            self.add_obj(rleaf(rng, pf * 0.5))
        self.pure = []            # indices of steps that can be repeated verbatim

    def add_obj(self, t):
        self.objs.append(t)
        i = len(self.objs) - 1
        self.info[i] = dict(_leaf_info(t), risky=False, hashed=False, shaky=False)
        return i

    @property
    def n0(self):
        return len(self.objs)

    def ids(self, pred=None):
        return [i for i, f in self.info.items() if not f["shaky"] and (pred is None or pred(f))]

    def pick(self, pred=None):
        cand = self.ids(pred)
        if not cand:
            return None
        if self.rng.random() < 0.5:
            return max(self.rng.sample(cand, min(2, len(cand))))      # prefer recent variables
        return self.rng.choice(cand)

    def emit(self, op, info=None):
        """append a step; info = bounds of the variable it binds (None: binds nothing)"""
        t = len(self.ops)
        self.ops.append(op)
        if info is not None:
            f = dict({"risky": False, "hashed": False, "shaky": False}, **info)
            self.info[self.n0 + t] = f
            return self.n0 + t
        return None

    # ---- single steps ---------------------------------------------------------------------------------------
    def step(self, kind, **kw):
        """try to emit one step of the given kind; returns False when no operand fits"""
        rng, I = self.rng, self.info
        pf = kw.get("pf", self.pf)
        if kind == "new":
            t = rleaf(rng, pf)
            if t[0] in ("empty", "x"):
                t = ["dict", [[1, 1]]] if t[0] == "x" else ["list", []]
            self.emit(["new", t[0], t[1]], _leaf_info(t))
            return True
        if kind == "from":
            if not self.srcs:
                return False
            s = rng.randrange(len(self.srcs))
            n = len(self.srcs[s]["items"])
            self.emit(["from", s], {"nt": n + 2, "mp": 8, "mono": False})
            return True
        if kind == "src_set":
            if not self.srcs:
                return False
            s = rng.randrange(len(self.srcs))
            sr = self.srcs[s]
            if sr["kind"] == "list":
                if not sr["items"]:
                    return False
                k = rng.randrange(len(sr["items"]))
            else:
                k = rng.choice([a for a, _ in sr["items"]] + [rng.randint(-2, 6)]) if sr["items"] else 1
            self.emit(["src_set", s, k, rlit(rng, pf, 0.2)])
            return True
        if kind == "un":
            i = kw.get("i", self.pick())
            if i is None:
                return False
            self.emit(["un", rng.choice(["neg", "pos", "copy", "copy", "ctor"]), i], dict(I[i], nt=I[i]["nt"], mp=I[i]["mp"], mono=I[i]["mono"]))
            return True
        if kind == "bin":
            i, j = kw.get("i", self.pick()), kw.get("j", self.pick())
            if i is None or j is None:
                return False
            b = kw.get("b", rng.choice(["add", "sub", "mul", "mul"]))
            if b == "mul":
                nt, mp = I[i]["nt"] * I[j]["nt"], I[i]["mp"] + I[j]["mp"]
                mono = I[i]["mono"] and I[j]["mono"]
            else:
                nt, mp, mono = I[i]["nt"] + I[j]["nt"], max(I[i]["mp"], I[j]["mp"]), False
            if nt > NT_MAX or mp > MP_MAX:
                return False
            self.emit(["bin", b, i, j], {"nt": nt, "mp": mp, "mono": mono})
            return True
        if kind == "scal":
            i = kw.get("i", self.pick())
            if i is None:
                return False
            o = rng.choice(["adds", "radds", "subs", "rsubs", "muls", "rmuls"])
            self.emit(["scal", o, i, kw.get("c", rlit(rng, pf, 0.08))],
                      {"nt": I[i]["nt"] + 1, "mp": I[i]["mp"], "mono": I[i]["mono"] and o in ("muls", "rmuls")})
            return True
        if kind == "divs":
            i = kw.get("i", self.pick())
            if i is None:
                return False
            c = kw.get("c", rlit(rng, pf, 0.06))
            self.emit(["divs", i, c], dict(nt=I[i]["nt"], mp=I[i]["mp"], mono=I[i]["mono"], shaky=dec(nom(c)) == 0))
            return True
        if kind == "div":
            i = kw.get("i", self.pick())
            j = self.pick(lambda f: f["mono"]) if rng.random() < 0.85 else self.pick()
            if i is None or j is None or I[i]["mp"] + I[j]["mp"] > MP_MAX:
                return False
            self.emit(["div", i, j], dict(nt=I[i]["nt"], mp=I[i]["mp"] + I[j]["mp"], mono=I[i]["mono"], shaky=not I[j]["mono"]))
            return True
        if kind == "pow":
            i = kw.get("i", self.pick())
            if i is None:
                return False
            n = kw.get("n", rng.choice([0, 1, 2, 2, 2, 3, 3, 4, -1, -2]))
            if n < 0 and not I[i]["mono"] and rng.random() < 0.8:
                n = -n
            nt = 1 if I[i]["mono"] else max(I[i]["nt"], 1) ** max(abs(n), 1)
            mp = I[i]["mp"] * max(abs(n), 1)
            if nt > NT_MAX or mp > MP_MAX:
                return False
            nl = n
            r = rng.random()
            if n in (0, 1) and r < 0.12 + pf:
                nl = {"t": "b", "v": n}
            elif r < 0.04 + pf * 0.4:
                nl = {"t": "f", "v": n}
            v = self.emit(["pow", i, nl], {"nt": nt, "mp": mp, "mono": I[i]["mono"], "shaky": isinstance(nl, dict) and nl["t"] == "f" and not I[i]["mono"]})
            if n != 0 and n <= 1:
                I[v]["risky"] = True
                I[i]["risky"] = True
            return True
        if kind == "comp":
            i, j = kw.get("i", self.pick()), kw.get("j", self.pick())
            if i is None or j is None:
                return False
            mp = I[i]["mp"] * max(I[j]["mp"], 1)
            nt = I[i]["nt"] * (1 if I[j]["mono"] else max(I[j]["nt"], 1) ** max(I[i]["mp"], 1))
            if nt > NT_MAX or mp > MP_MAX or I[i]["mp"] > 5:
                return False
            self.emit(["comp", i, j], {"nt": nt, "mp": mp, "mono": False})
            if not I[j]["mono"]:          # q ** 1 inside p(q) is q itself, but multiplied afterwards: no aliasing escapes
                pass
            return True
        if kind == "call":
            i = kw.get("i", self.pick())
            if i is None:
                return False
            v = kw.get("v", rlit(rng, pf, 0.12))
            self.emit(["call", i, v, rng.choice(["auto", "auto", True, False])])
            return True
        if kind == "diff":
            i = kw.get("i", self.pick())
            if i is None:
                return False
            self.emit(["diff", i, rng.choice([1, 1, 1, 2, 0, 3])], dict(nt=I[i]["nt"], mp=I[i]["mp"] + 3, mono=False))
            return True
        if kind == "integ":
            i = kw.get("i", self.pick())
            if i is None:
                return False
            self.emit(["integ", i], dict(nt=I[i]["nt"], mp=I[i]["mp"] + 1, mono=I[i]["mono"], shaky=True))
            return True
        if kind == "setitem":
            i = kw.get("i")
            if i is None:
                ok = lambda f: not f["risky"] and (not f["hashed"] or rng.random() < 0.08)      # noqa: E731
                used = [op[j] for op in self.ops for j in REFS.get(op[0], ()) if op[0] not in MUTATES]
                res = [v for v in self.info if v >= self.n0]
                r = rng.random()
                cand = [v for v in (used if r < 0.5 else res if r < 0.8 else list(self.info)) if v in self.info and ok(I[v]) and not I[v]["shaky"]]
                i = rng.choice(cand) if cand else self.pick(ok)
            if i is None or I[i]["risky"]:
                return False
            k = kw.get("k", rkey(rng, -3, 5, 0.1 + pf * 0.3))
            c = kw.get("c", rlit(rng, pf, 0.25))
            self.emit(["setitem", i, k, c])
            if not I[i]["hashed"]:
                I[i]["nt"] += 1
                I[i]["mp"] = max(I[i]["mp"], abs(dec(nom(k))))
                I[i]["mono"] = False
            return True
        if kind == "setzero":
            i = kw.get("i", self.pick(lambda f: not f["risky"]))
            if i is None:
                return False
            self.emit(["setzero", i, rng.choice([0, {"t": "i", "v": 0}, {"t": "b", "v": 0}])])
            return True
        if kind == "hash":
            i = kw.get("i", self.pick(lambda f: not f["risky"]))
            if i is None:
                return False
            self.emit(["hash", i])
            I[i]["hashed"] = True
            return True
        if kind in ("eq", "ne"):
            i, j = kw.get("i", self.pick()), kw.get("j", self.pick())
            if i is None or j is None:
                return False
            self.emit([kind, i, j])
            return True
        if kind == "eqs":
            i = kw.get("i", self.pick())
            if i is None:
                return False
            self.emit(["eqs", i, rlit(rng, pf, 0.2)])
            return True
        if kind in ("lagf", "lagp"):
            self.emit(rlag(rng, kind, pf))
            return True
        if kind == "resample":
            self.emit(rresample(rng, pf))
            return True
        raise ValueError(kind)

    def repeat(self, t=None):
        """the same operation on the same variables once more"""
        cand = [u for u, op in enumerate(self.ops) if op[0] in PRODUCES + ("call", "eq", "ne", "eqs", "hash") and op[0] not in ("new",)
                and all(op[i] in self.info and not self.info[op[i]]["shaky"] for i in REFS.get(op[0], ()))]
        if t is None:
            if not cand:
                return False
            t = self.rng.choice(cand)
        op = self.ops[t]
        src = self.n0 + t
        inf = self.info.get(src)
        if op[0] in PRODUCES:
            if inf is None:
                return False
            # recompute the bounds from the operands as they are now
            k = op[0]
            save = len(self.ops)
            ok = {"un": lambda: self.step("un", i=op[2]) , "bin": lambda: self.step("bin", i=op[2], j=op[3], b=op[1]),
                  "scal": lambda: self.step("scal", i=op[2], c=op[3]), "divs": lambda: self.step("divs", i=op[1], c=op[2]),
                  "div": lambda: False, "pow": lambda: self.step("pow", i=op[1], n=int(dec(nom(op[2])))),
                  "comp": lambda: self.step("comp", i=op[1], j=op[2]), "diff": lambda: self.step("diff", i=op[1]),
                  "integ": lambda: self.step("integ", i=op[1]), "from": lambda: False}[k]()
            if not ok:
                return False
            new = self.ops[save]
            # keep the literal / operator of the original where the helper re-drew it
            if k in ("un", "diff"):
                new[1 if k == "un" else 2] = op[1 if k == "un" else 2]
            if k == "scal":
                new[1] = op[1]
            if k == "pow":
                new[2] = op[2]
            return True
        self.emit(list(op))
        return True


def rlag(rng, kind, pf, xs=None, n=None, flavour=None, cont=None, ys=None, ks=None):
    pool = [F(i) for i in range(-3, 6)] + [F(1, 2), F(-3, 2), F(5, 2), F(7, 4)]
    cont = cont or rng.choice(CONTAINERS)
    if n is None:
        r = rng.random()
        n = 1 if r < 0.05 else rng.randint(2, 5)
    if cont == "enum_deque":
        xs = [F(i) for i in range(n)]
    elif xs is None:
        xs = rng.sample(pool, n)
    if flavour is None:
        flavour = rng.choice("iifcb") if rng.random() < pf else "F"
    fy = flavour if rng.random() < 0.7 else "F"
    if ys is None:
        ys = [rng.choice(INTS + DYAD + OTHER) if fy not in "ib" else rng.choice(INTS) for _ in xs]
    else:
        fy = flavour                  # the same points, every number in the flavour (where it has such a form)
    pairs = [[mklit(a, flavour), mklit(b, fy)] for a, b in zip(xs, ys)]
    fk = flavour if rng.random() < 0.5 else rng.choice("FFi")
    if ks is None:
        ks = [rng.choice(INTS + DYAD + [F(7, 2), F(-5, 3), F(0)]) for _ in range(rng.randint(0, 2))]
    return [kind, pairs, [mklit(v, fk) for v in ks], cont]


def rresample(rng, pf, order=None, flavour=None):
    order = order if order is not None else rng.choice([1, 2, 3, 3, 4])
    if flavour is None:
        flavour = rng.choice("if") if rng.random() < pf else "F"
    sig = [mklit(rng.choice(INTS + DYAD + OTHER) if flavour != "i" else rng.choice(INTS), flavour) for _ in range(rng.randint(order // 2 + 1, 7))]
    old, new = rng.choice([(1, 1), (1, 2), (2, 3), (3, 2), (1, 3)])
    fo = flavour if flavour != "F" or rng.random() < 0.8 else "i"
    return ["resample", sig, mklit(old, fo), mklit(new, fo), order, mklit(0, flavour if flavour != "c" else "F")]


WALK = [("new", 5), ("from", 3), ("src_set", 3), ("un", 5), ("bin", 14), ("scal", 6), ("divs", 3), ("div", 6), ("pow", 11),
        ("comp", 6), ("call", 8), ("diff", 4), ("integ", 3), ("setitem", 18), ("setzero", 2), ("hash", 3), ("eq", 4),
        ("ne", 1), ("eqs", 2), ("lagf", 2), ("lagp", 1), ("repeat", 18)]
LONGWALK = [("un", 3), ("bin", 6), ("scal", 4), ("divs", 2), ("pow", 8), ("call", 10), ("diff", 3), ("setitem", 26),
            ("eq", 4), ("eqs", 1), ("repeat", 22), ("hash", 1), ("new", 2), ("lagf", 1)]


def _choose(rng, table):
    tot = sum(w for _, w in table)
    r = rng.random() * tot
    for k, w in table:
        r -= w
        if r <= 0:
            return k
    return table[-1][0]


def _rsrc(rng, pf):
    kind = rng.choice(["list", "dict", "odict"])
    if kind == "list":
        return {"kind": kind, "items": [rlit(rng, pf, 0.25) for _ in range(rng.randint(1, 4))]}
    ks = rng.sample(range(-2, 6), rng.randint(1, 4))
    return {"kind": kind, "items": [[k, rlit(rng, pf, 0.25)] for k in ks]}


def gen_walk(rng, length, pf=0.0, table=WALK, shape="walk"):
    g = Gen(rng, pf)
    if rng.random() < 0.4:
        g.srcs = [_rsrc(rng, pf) for _ in range(rng.randint(1, 2))]
    tries = 0
    while len(g.ops) < length and tries < length * 6:
        tries += 1
        k = _choose(rng, table)
        if k == "repeat":
            g.repeat()
        else:
            g.step(k)
    return {"entry": "hist", "shape": shape, "objs": g.objs, "srcs": g.srcs, "ops": g.ops}


PURE_KINDS = ["un", "bin", "bin", "scal", "divs", "pow", "pow", "pow", "comp", "comp", "call", "call", "diff", "integ", "eq", "eqs"]


def gen_memo(rng, pf=0.0):
    """op; assignment into an operand (or into the result); the same op again — for every kind of operation"""
    g = Gen(rng, pf, nobj=rng.randint(1, 2))
    for _ in range(rng.randint(0, 2)):
        g.step(rng.choice(["bin", "pow", "scal", "new"]))
    for _ in range(8):
        k = rng.choice(PURE_KINDS)
        n_before = len(g.ops)
        if g.step(k):
            break
    else:
        return gen_walk(rng, 5, pf)
    t = n_before
    op = g.ops[t]
    refs = [op[i] for i in REFS.get(op[0], ())]
    res = g.n0 + t if (g.n0 + t) in g.info else None
    rounds = rng.randint(1, 3)
    for _ in range(rounds):
        r = rng.random()
        tgt = None
        if res is not None and not g.info[res]["risky"] and not g.info[res]["shaky"] and r < 0.4:
            tgt = res
        else:
            cand = [v for v in refs if not g.info[v]["risky"]]
            tgt = rng.choice(cand) if cand else None
        if tgt is not None:
            if rng.random() < 0.12:
                g.step("setzero", i=tgt)
            else:
                g.step("setitem", i=tgt)
        if rng.random() < 0.3:
            g.step(rng.choice(["call", "eq", "bin"]))
        g.repeat(t)
        if res is not None and rng.random() < 0.5 and (g.n0 + len(g.ops) - 1) in g.info:
            g.step("eq", i=res, j=g.n0 + len(g.ops) - 1)
    return {"entry": "hist", "shape": "memo", "objs": g.objs, "srcs": g.srcs, "ops": g.ops}


def _reflavour(op, t, rng):
    """the same step with its literals in flavour t (where the value has such a form)"""
    ls = lits_of(op)
    out = op
    for j, lv in enumerate(ls):
        out = _map_lits(out, j, mklit(dec(nom(lv)), t))
    return out


def gen_twin(rng):
    """the same call with numerically equal arguments of different numeric types, in both orders"""
    g = Gen(rng, 0.0, nobj=rng.randint(1, 2))
    for _ in range(rng.randint(0, 2)):
        g.step(rng.choice(["bin", "pow", "scal"]))
    kinds = ["scal", "scal", "divs", "call", "call", "eqs", "pow", "setitem", "new", "new"]
    flavours = rng.sample(["F", "i", "f", "c", "b"], rng.randint(2, 3))
    for _ in range(rng.randint(1, 3)):
        k = rng.choice(kinds)
        # a value that has most forms: small integers (0 / 1 for bool)
        val = F(rng.choice([0, 1, 1, 2, -1, 3])) if rng.random() < 0.7 else rng.choice(DYAD)
        n_before = len(g.ops)
        ok = (g.step(k, c=enc(val)) if k in ("scal", "divs", "setitem") else g.step(k, v=enc(val)) if k == "call" else
              g.step(k, n=int(val) if val.denominator == 1 and -2 <= val <= 4 else 2) if k == "pow" else g.step(k))
        if not ok or len(g.ops) == n_before:
            continue
        base = g.ops.pop()
        inf = g.info.pop(g.n0 + n_before, None)
        if k == "eqs":
            base = ["eqs", base[1], enc(val)]
        for t in flavours:
            op2 = _reflavour(base, t, rng)
            if k == "pow":
                n = int(dec(nom(base[2])))
                op2 = ["pow", base[1], {"t": t, "v": n} if (t == "f" or (t == "b" and n in (0, 1))) else n]
            if k == "setitem" and g.info[op2[1]]["risky"]:
                continue
            v = g.emit(op2, dict(inf) if inf is not None else None)
            if v is not None and k == "pow":
                n = int(dec(nom(base[2])))
                g.info[v]["shaky"] = t == "f" and not g.info[op2[1]]["mono"]
                if n != 0 and n <= 1:
                    g.info[v]["risky"] = True
                    g.info[op2[1]]["risky"] = True
        if rng.random() < 0.5:
            g.step(rng.choice(["bin", "call", "eq", "comp"]))
    return {"entry": "hist", "shape": "twin", "objs": g.objs, "srcs": g.srcs, "ops": g.ops}


def gen_objtwin(rng):
    """numerically equal Polys whose coefficients have different numeric types (p == q and hash(p) == hash(q) hold
    between them), the same operation on each, in both orders"""
    g = Gen(rng, 0.0, nobj=0)
    nterm = rng.randint(1, 3)
    ks = rng.sample(range(-2, 5), nterm)
    vals = [rng.choice(INTS + DYAD[:3]) if rng.random() < 0.8 else rng.choice([F(0), F(1)]) for _ in ks]
    flavours = rng.sample(["F", "i", "f", "c", "b"], rng.randint(2, 3))
    if "F" not in flavours:
        flavours[rng.randrange(len(flavours))] = "F"
    rng.shuffle(flavours)
    as_list = rng.random() < 0.25 and all(k >= 0 for k in ks)
    twins = []
    for t in flavours:
        if as_list:
            body = [mklit(v, t) for v in vals]
            twins.append(g.emit(["new", "list", body], _leaf_info(["list", body])))
        else:
            body = [[k, mklit(v, t)] for k, v in zip(ks, vals)]
            twins.append(g.emit(["new", "dict", body], _leaf_info(["dict", body])))
    other = None
    if rng.random() < 0.6:
        g.step("new", pf=0.0)
        other = g.n0 + len(g.ops) - 1
    for _ in range(rng.randint(1, 3)):
        k = rng.choice(["diff", "diff", "integ", "pow", "pow", "un", "call", "call", "hash", "bin", "bin", "comp", "scal", "divs", "eqs", "eq"])
        order = list(twins)
        rng.shuffle(order)
        if k == "eq":
            g.step("eq", i=order[0], j=order[-1])
            continue
        first = None
        for v in order:
            if first is None:
                nb = len(g.ops)
                kw = {"i": v}
                if k in ("bin", "comp") and other is not None:
                    kw = {"i": v, "j": other} if rng.random() < 0.5 else {"i": other, "j": v}
                if k == "hash" and g.info[v]["risky"]:
                    break
                if not g.step(k, **kw) or len(g.ops) == nb:
                    break
                first = (g.ops[nb], v)
            else:
                op = _renumber(first[0], lambda r: v if r == first[1] else r)
                if op[0] == "hash":
                    g.step("hash", i=v)
                    continue
                inf = g.info.get(g.n0 + len(g.ops) - 1)
                nv = g.emit(op, dict(inf) if (op[0] in PRODUCES and inf is not None) else None)
                if op[0] == "pow" and nv is not None:
                    n = int(dec(nom(op[2])))
                    if n != 0 and n <= 1:
                        g.info[nv]["risky"] = True
                        g.info[v]["risky"] = True
    return {"entry": "hist", "shape": "objtwin", "objs": g.objs, "srcs": g.srcs, "ops": g.ops}


def gen_lag(rng, maxn=5):
    """interpolators on numerically equal abscissae of different numeric types / container kinds, in both orders, and
    `resample` (abscissae 0..order) in between"""
    ops = []
    n = rng.randint(2, maxn)
    pool = [F(i) for i in range(-3, 9)] + [F(1, 2), F(-3, 2), F(5, 2), F(7, 4), F(1, 4)]
    r = rng.random()
    xs = [F(i) for i in range(n)] if r < 0.45 else rng.sample(pool, n)        # 0..n-1 is also resample's grid
    flavours = rng.sample(["F", "F", "i", "f", "f", "c", "b"], rng.randint(2, 4))
    if "F" not in flavours:
        flavours[rng.randrange(len(flavours))] = "F"
    if "b" in flavours and not all(x in (0, 1) for x in xs):
        flavours = [f if f != "b" else "i" for f in flavours]
    # the very same points (abscissae AND ordinates AND evaluation points) in every flavour, or only the abscissae
    same_pts = rng.random() < 0.5
    ys = [rng.choice(INTS + DYAD) for _ in xs] if same_pts else None
    ks = [rng.choice(INTS + DYAD + [F(0)]) for _ in range(rng.randint(0, 2))] if same_pts else None
    same_kind = rng.choice(["lagf", "lagp", "lagp", None]) if same_pts else None
    for fl in flavours:
        kind = same_kind or rng.choice(["lagf", "lagf", "lagp"])
        cont = rng.choice([c for c in CONTAINERS if c != "enum_deque" or xs == [F(i) for i in range(n)]])
        ops.append(rlag(rng, kind, 0.0, xs=list(xs), n=n, flavour=fl, cont=cont, ys=ys, ks=ks))
        if same_pts and rng.random() < 0.3:
            ops.append(list(ops[-1]))                     # and once more, unchanged
        if rng.random() < 0.25:
            ops.append(rresample(rng, 0.0, order=rng.choice([n - 1, 3]) or 1, flavour=rng.choice(["F", "F", "f", "i"])))
    if rng.random() < 0.3:
        ops.append(rlag(rng, "lagf", 0.3))
    return {"entry": "hist", "shape": "lag", "objs": [], "srcs": [], "ops": ops}


def gen_hashed(rng):
    g = Gen(rng, 0.0, nobj=rng.randint(1, 2))
    for _ in range(rng.randint(0, 2)):
        g.step(rng.choice(["bin", "pow", "scal", "comp"]))
    tgt = g.pick(lambda f: not f["risky"])
    if tgt is None:
        return gen_walk(rng, 5)
    if rng.random() < 0.5:
        g.step("setitem", i=tgt)
    g.step("hash", i=tgt)
    for _ in range(rng.randint(1, 3)):
        g.step(rng.choice(["setitem", "setitem", "setzero"]), i=tgt)
        g.step(rng.choice(["bin", "pow", "call", "eq", "un", "hash"]), i=tgt)
    other = g.pick(lambda f: not f["risky"] and not f["hashed"])
    if other is not None:
        g.step("setitem", i=other)
        g.step("eq", i=other, j=tgt)
    return {"entry": "hist", "shape": "hashed", "objs": g.objs, "srcs": g.srcs, "ops": g.ops}


def gen_src(rng, pf=0.0):
    g = Gen(rng, pf, nobj=rng.randint(0, 1))
    g.srcs = [_rsrc(rng, pf) for _ in range(rng.randint(1, 2))]
    for _ in range(rng.randint(2, 4)):
        g.step("from")
        r = rng.random()
        if r < 0.6:
            g.step("src_set")
        else:
            v = g.n0 + len(g.ops) - 1
            if v in g.info:
                g.step("setitem", i=v)
        if rng.random() < 0.4:
            g.step(rng.choice(["bin", "eq", "call"]))
    return {"entry": "hist", "shape": "src", "objs": g.objs, "srcs": g.srcs, "ops": g.ops}


def gen_hist(rng, tier, scale=1):
    quick = tier == "quick"
    out = []
    n = (1 if quick else 7) * scale

    def rep(k, f):
        for _ in range(k):
            c = f()
            if valid(c):
                out.append(c)
    rep(260 * n, lambda: gen_memo(rng, rng.choice([0.0, 0.0, 0.15])))
    rep(140 * n, lambda: gen_twin(rng))
    rep(150 * n, lambda: gen_objtwin(rng))
    rep(220 * n, lambda: gen_lag(rng, 5 if quick else 7))
    rep(70 * n, lambda: gen_hashed(rng))
    rep(70 * n, lambda: gen_src(rng, rng.choice([0.0, 0.2])))
    rep(420 * n, lambda: gen_walk(rng, rng.randint(3, 8 if quick else 12), rng.choice([0.0, 0.0, 0.0, 0.2, 0.4])))
    rng.shuffle(out)
    # long histories: hundreds of steps on the same few objects
    rep((6 if quick else 30) * scale, lambda: gen_walk(rng, rng.choice([64, 100, 129, 200] if quick else [129, 257, 400]),
                                                      rng.choice([0.0, 0.0, 0.1]), LONGWALK, "long"))
    return out
