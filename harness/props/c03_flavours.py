"""C03 helper: operand flavours of the `hist` histories (no oracle in here).

* item representations (tagged histories): the Lean model carries items as `[value, tag]`; the
  tag says which Python object stands for the value, so that numerically equal items of
  different types (1 == 1.0 == Fraction(1) == True), unhashable items and None can sit in one
  stream and are told apart in every observation;
* iterable flavours of a source (list, tuple, generator, iterator, deque, an Iterable class, a
  Stream subclass whose __iter__ is not simply `_data`);
* flavours of the element functions given to map / filter (lambda, def, bound method,
  callable instance, functools.partial).
"""
import collections
import functools
from fractions import Fraction

try:
    from collections.abc import Iterable
except ImportError:                                   # pragma: no cover
    from collections import Iterable

TAGS = 7           # 0 int, 1 float, 2 Fraction, 3 unhashable, 4 hashable twin of the int, 5 None/obj, 6 bool/obj
TAG_NAMES = ["int", "float", "Fraction", "unhashable", "hashable-twin", "None", "bool"]


class BadItem(Exception):
    """an item that no representation explains (wrong type / not the object that was put in)"""


def _num(o):
    if isinstance(o, (U, H)):
        return o.v
    if isinstance(o, (int, float, Fraction)):
        return o
    return None


class U(object):
    """unhashable item, equal to everything with the same value"""
    __slots__ = ("v", "tag")
    __hash__ = None

    def __init__(self, v, tag=3):
        self.v, self.tag = v, tag

    def __eq__(self, o):
        n = _num(o)
        return NotImplemented if n is None else n == self.v

    def __ne__(self, o):
        r = self.__eq__(o)
        return r if r is NotImplemented else not r

    def __repr__(self):
        return "U(%r)" % (self.v,)


class H(object):
    """hashable item that is == to (and hashes as) the plain int with the same value"""
    __slots__ = ("v", "tag")

    def __init__(self, v, tag=4):
        self.v, self.tag = v, tag

    def __eq__(self, o):
        n = _num(o)
        return NotImplemented if n is None else n == self.v

    def __ne__(self, o):
        r = self.__eq__(o)
        return r if r is NotImplemented else not r

    def __hash__(self):
        return hash(self.v)

    def __repr__(self):
        return "H(%r,%r)" % (self.v, self.tag)


def rep(v, tag):
    """the Python object that stands for the model item (v, tag)"""
    if tag == 0:
        return v
    if tag == 1:
        return float(v) if abs(v) < 2 ** 53 else H(v, 1)
    if tag == 2:
        return Fraction(v)
    if tag == 3:
        return U(v, 3)
    if tag == 5:
        return None if v == 0 else H(v, 5)
    if tag == 6:
        return bool(v) if v in (0, 1) else H(v, 6)
    return H(v, tag)


def unrep(x):
    """model item [v, tag] of a Python object; BadItem when it is none of ours"""
    if x is None:
        return [0, 5]
    t = type(x)
    if t is bool:
        return [int(x), 6]
    if t is int:
        return [x, 0]
    if t is float:
        if x != x or x in (float("inf"), float("-inf")) or x != int(x):
            raise BadItem(repr(x))
        return [int(x), 1]
    if t is Fraction:
        if x.denominator != 1:
            raise BadItem(repr(x))
        return [int(x), 2]
    if t is U or t is H:
        return [x.v, x.tag]
    raise BadItem(repr(x)[:60])


# ----------------------------------------------------------------------------------------
# iterable flavours
# ----------------------------------------------------------------------------------------
SRC_FLAVOURS = ["list", "tuple", "gen", "iter", "deque", "iterable", "altstream", "restream",
                # Streams built directly on itertools objects / lazy_itertools Streams / other builtin iterators
                "it.chain", "it.islice", "it.repeat", "it.count", "lit.chain", "lit.repeat", "lit.islice", "map", "range",
                "substream"]
REITERABLE = {"list", "tuple", "deque", "iterable", "restream"}


class Bag(object):
    """an Iterable that is not a sequence: only __iter__ (a fresh iterator over its list)"""

    def __init__(self, xs):
        self.xs = xs

    def __iter__(self):
        return iter(self.xs)


Iterable.register(Bag)
_DECOY = object()
_CLASSES = {}


def stream_classes(Stream):
    """Stream subclasses whose __iter__ is not simply `_data` (the ChangeableStream idiom):
    `_data` holds a decoy, the items come from __iter__.  AltStream is one-shot like a Stream
    (always the same iterator), ReStream hands out a fresh iterator over its list."""
    if Stream not in _CLASSES:
        class AltStream(Stream):
            def __init__(self, xs):
                Stream.__init__(self, [_DECOY, _DECOY, _DECOY])
                self._real = iter(xs)

            def __iter__(self):
                return self._real

        class ReStream(Stream):
            def __init__(self, xs):
                Stream.__init__(self, [_DECOY, _DECOY, _DECOY])
                self._xs = xs

            def __iter__(self):
                return iter(self._xs)

        _CLASSES[Stream] = (AltStream, ReStream)
    return _CLASSES[Stream]


def _gen(xs):
    for x in xs:
        yield x


def iterable_of(xs, flavour, Stream):
    """`xs` (a list object; read lazily by every flavour but tuple/deque) as the given flavour"""
    if flavour in (None, "list", "same"):
        return xs
    if flavour == "tuple":
        return tuple(xs)
    if flavour == "gen":
        return _gen(xs)
    if flavour == "iter":
        return iter(xs)
    if flavour == "deque":
        return collections.deque(xs)
    if flavour == "iterable":
        return Bag(xs)
    if flavour == "altstream":
        return stream_classes(Stream)[0](xs)
    if flavour == "restream":
        return stream_classes(Stream)[1](xs)
    import itertools as it
    from audiolazy import lazy_itertools as lit
    h = len(xs) // 2
    same = len(xs) >= 1 and all(x is xs[0] for x in xs)
    run = len(xs) >= 1 and all(type(x) is int for x in xs) and all(b == a + 1 for a, b in zip(xs, xs[1:]))
    if flavour == "it.chain":
        return it.chain(xs[:h], xs[h:])
    if flavour == "lit.chain":
        return lit.chain(xs[:h], xs[h:])                 # a Stream over it.chain
    if flavour == "it.islice":
        return it.islice(it.chain(xs, it.repeat(_DECOY)), len(xs))
    if flavour == "lit.islice":
        return lit.islice(it.chain(xs, it.repeat(_DECOY)), len(xs))
    if flavour == "it.repeat":                          # the FINITE repeat
        return it.repeat(xs[0], len(xs)) if same else it.chain(*[it.repeat(x, 1) for x in xs])
    if flavour == "lit.repeat":
        return lit.repeat(xs[0], len(xs)) if same else lit.chain(*[it.repeat(x, 1) for x in xs])
    if flavour == "it.count":
        return it.islice(it.count(xs[0]), len(xs)) if run else it.islice(xs, None)
    if flavour == "range":
        return range(xs[0], xs[0] + len(xs)) if run else reversed(xs[::-1])
    if flavour == "map":
        return map(_ident, xs)
    if flavour == "substream":                          # a plain Stream subclass (ControlStream-like: no override)
        return _sub(Stream)(xs)
    raise ValueError(flavour)


def _ident(x):
    return x


_SUBS = {}


def _sub(Stream):
    if Stream not in _SUBS:
        class SubStream(Stream):
            """a subclass that overrides nothing but the constructor"""
            def __init__(self, xs):
                super(SubStream, self).__init__(xs)
        _SUBS[Stream] = SubStream
    return _SUBS[Stream]


def endless_of(items, flavour):
    """an endless iterable that yields `items` for ever"""
    import itertools as it
    from audiolazy import lazy_itertools as lit, ControlStream
    if flavour == "it.repeat":
        return it.repeat(items[0])
    if flavour == "lit.repeat":
        return lit.repeat(items[0])
    if flavour == "control":
        return ControlStream(items[0])
    if flavour in (None, "it.cycle"):
        return it.cycle(items)
    if flavour == "lit.cycle":
        return lit.cycle(items)
    if flavour == "gen":
        def forever():
            while True:
                for x in items:
                    yield x
        return forever()
    raise ValueError(flavour)


# ----------------------------------------------------------------------------------------
# element function flavours
# ----------------------------------------------------------------------------------------
FN_FLAVOURS = ["lambda", "def", "bound", "callable", "partial"]


class _Fn(object):
    def __init__(self, f):
        self.f = f

    def method(self, x):
        return self.f(x)

    def __call__(self, x):
        return self.f(x)


def _apply(f, x):
    return f(x)


def fn_of(base, flavour):
    if flavour in (None, "lambda"):
        return base
    if flavour == "def":
        def named(x):
            return base(x)
        return named
    if flavour == "bound":
        return _Fn(base).method
    if flavour == "callable":
        return _Fn(base)
    if flavour == "partial":
        return functools.partial(_apply, base)
    raise ValueError(flavour)


def tagged_map(f):
    def g(x):
        v, t = unrep(x)
        return rep(f(v), t)
    return g


def tagged_pred(p):
    def g(x):
        return p(unrep(x)[0])
    return g
